import AspireModel.Gen.SrcFile
import AspireModel.Props.C14
/-
  C14 — tie of the session model's two file-writing steps (`Model.stepFit`, `Model.stepSample`, in the closed forms `C14.fitFile`,
  `C14.sampleFile`, `C14.markTop`, `C14.target` proved in `Props/C14.lean`) to the TRANSLATION of the checkpoint-file blocks of
  `Aspire.fit` and `Aspire.sample_posterior` (`Gen/SrcFile.lean`, regenerated from `/repo`'s source on every run by
  `harness/translate/file2lean.py`): which file is opened, when the configuration and the proposal are deleted and re-created,
  which `saved_*` flags of the checkpoint defaults are set, which path and cadence the sampler is handed.  Core Lean only.
-/
namespace C14
open Model Gen

/-! ### source-level closed forms -/

/-- the file the block opens and whether it saves the configuration: an explicit path wins, else the defaults in force -/
def srcTarget (self : FSelf) (cp : Option Nat) (csc : Bool) : Option (Nat × Bool) :=
  match cp, self.checkpoint_defaults with
  | some p, _ => some (p, csc)
  | none, some d => some (d.path, d.save_config)
  | none, none => none

def srcSavedConfig (self : FSelf) : Bool := match self.checkpoint_defaults with | some d => d.saved_config | none => false

/-- the defaults after a block that wrote the configuration (`cfg`) and / or the proposal (`flow`) -/
def markSelf (self : FSelf) (cfg flow : Bool) : FSelf :=
  { self with checkpoint_defaults := self.checkpoint_defaults.map fun d =>
      { d with saved_config := d.saved_config || cfg, saved_flow := d.saved_flow || flow } }

/-- the file after `fit`'s block: configuration replaced iff `wc`, proposal written iff missing or `overwrite` -/
def fitH5 (f : H5) (wc : Bool) (last : Option SamplerKind) (ov : Bool) (v : Nat) : H5 :=
  { f with aspire_config := if wc then some last else f.aspire_config,
           flow := if f.flow.isNone || ov then some v else f.flow }

/-- the file after `sample_posterior`'s block before sampling: configuration replaced iff asked, the proposal in memory replaces
    the stored one -/
def preH5 (f : H5) (csc : Bool) (last : Option SamplerKind) (mem : Option Nat) : H5 :=
  { f with aspire_config := if csc then some last else f.aspire_config,
           flow := match mem with | some v => some v | none => f.flow }

/-! ### `fit` -/

theorem tie_fit_file_block (self : FSelf) (files : Nat → H5) (cp : Option Nat) (csc ov : Bool) (v : Nat)
    (hflow : self.flow = some v) :
    Gen.fit_file_block self files cp csc ov =
      match srcTarget self cp csc with
      | none => (self, files)
      | some (p, saveCfg) =>
        (markSelf self (saveCfg && !srcSavedConfig self) false,
         Gen.h5_store files p (fitH5 (files p) (saveCfg && !srcSavedConfig self) self.last_sampler_type ov v)) := by
  obtain ⟨sflow, slast, sdef⟩ := self
  simp only at hflow
  subst hflow
  unfold Gen.fit_file_block srcTarget srcSavedConfig markSelf fitH5
  cases cp with
  | none =>
    cases sdef with
    | none => rfl
    | some d =>
      obtain ⟨dp, de, dsc, dsf, dsvc, dsvf⟩ := d
      rcases hf : files dp with ⟨fc, ff, fk, fe⟩
      cases dsc <;> cases dsvc <;> cases ov <;> cases fc <;> cases ff <;>
        simp [hf, Gen.save_config, Gen.save_flow, Gen.h5_del_aspire_config, Gen.h5_del_flow]
  | some p =>
    rcases hf : files p with ⟨fc, ff, fk, fe⟩
    cases sdef with
    | none =>
      cases csc <;> cases ov <;> cases fc <;> cases ff <;>
        simp [hf, Gen.save_config, Gen.save_flow, Gen.h5_del_aspire_config, Gen.h5_del_flow]
    | some d =>
      obtain ⟨dp, de, dsc, dsf, dsvc, dsvf⟩ := d
      cases csc <;> cases dsvc <;> cases ov <;> cases fc <;> cases ff <;>
        simp [hf, Gen.save_config, Gen.save_flow, Gen.h5_del_aspire_config, Gen.h5_del_flow]

/-! ### `sample_posterior`: before the sampler runs -/

def srcSavedFlow (self : FSelf) : Bool := match self.checkpoint_defaults with | some d => d.saved_flow | none => false

/-- `kwargs.setdefault(key, value)` -/
def setdefault (given value : Option Nat) : Option Nat := match given with | some g => some g | none => value

/-- the cadence in force: the defaults' when the path comes from the defaults, the call's otherwise -/
def srcEvery (self : FSelf) (cp ce : Option Nat) : Option Nat :=
  match cp, self.checkpoint_defaults with
  | none, some d => some d.every
  | _, _ => ce

/-- the block before sampling: the file is the target's; the configuration (naming the sampler of this call) replaces the stored one
    iff configuration saving is on; the proposal in memory ALWAYS replaces the stored one; both flags of the defaults in force are
    set accordingly; the sampler is handed the same file and the cadence in force unless the caller passed its own -/
theorem tie_sample_pre_block (self : FSelf) (files : Nat → H5) (kwp kwe : Option Nat) (sup : Bool) (cp ce : Option Nat) (csc : Bool) :
    Gen.sample_pre_block self files kwp kwe sup cp ce csc =
      match srcTarget self cp csc with
      | none => (self, files, kwp, kwe, none, csc, srcSavedFlow self, srcSavedConfig self)
      | some (p, saveCfg) =>
        (markSelf self saveCfg self.flow.isSome,
         Gen.h5_store files p (preH5 (files p) saveCfg self.last_sampler_type self.flow),
         (if sup then setdefault kwp (some p) else kwp),
         (if sup then setdefault kwe (srcEvery self cp ce) else kwe),
         some p, saveCfg, (srcSavedFlow self || self.flow.isSome), (srcSavedConfig self || saveCfg)) := by
  obtain ⟨sflow, slast, sdef⟩ := self
  unfold Gen.sample_pre_block srcTarget markSelf preH5 srcSavedFlow srcSavedConfig setdefault srcEvery
  cases cp with
  | none =>
    cases sdef with
    | none => rfl
    | some d =>
      obtain ⟨dp, de, dsc, dsf, dsvc, dsvf⟩ := d
      rcases hf : files dp with ⟨fc, ff, fk, fe⟩
      cases sup <;> cases dsc <;> cases dsvc <;> cases dsvf <;> cases sflow <;> cases fc <;> cases ff <;>
        simp [hf, Gen.save_config, Gen.save_flow, Gen.h5_del_aspire_config, Gen.h5_del_flow] <;>
        (try (cases kwp <;> cases kwe <;> simp))
  | some p =>
    rcases hf : files p with ⟨fc, ff, fk, fe⟩
    cases sdef with
    | none =>
      cases sup <;> cases csc <;> cases sflow <;> cases fc <;> cases ff <;>
        simp [hf, Gen.save_config, Gen.save_flow, Gen.h5_del_aspire_config, Gen.h5_del_flow] <;>
        (try (cases kwp <;> cases kwe <;> simp))
    | some d =>
      obtain ⟨dp, de, dsc, dsf, dsvc, dsvf⟩ := d
      cases sup <;> cases csc <;> cases dsvc <;> cases dsvf <;> cases sflow <;> cases fc <;> cases ff <;>
        simp [hf, Gen.save_config, Gen.save_flow, Gen.h5_del_aspire_config, Gen.h5_del_flow] <;>
        (try (cases kwp <;> cases kwe <;> simp))

/-! ### `sample_posterior`: after the sampler has run -/

theorem tie_sample_post_block (self : FSelf) (files : Nat → H5) (cp : Option Nat) (csc sf sc : Bool) :
    Gen.sample_post_block self files cp csc sf sc =
      match cp with
      | none => (self, files)
      | some p =>
        (markSelf self (csc && !sc) (self.flow.isSome && !sf),
         Gen.h5_store files p (preH5 (files p) (csc && !sc) self.last_sampler_type (if sf then none else self.flow))) := by
  obtain ⟨sflow, slast, sdef⟩ := self
  unfold Gen.sample_post_block markSelf preH5
  cases cp with
  | none => rfl
  | some p =>
    rcases hf : files p with ⟨fc, ff, fk, fe⟩
    cases sdef with
    | none =>
      cases csc <;> cases sc <;> cases sf <;> cases sflow <;> cases fc <;> cases ff <;>
        simp [hf, Gen.save_config, Gen.save_flow, Gen.h5_del_aspire_config, Gen.h5_del_flow]
    | some d =>
      obtain ⟨dp, de, dsc, dsf, dsvc, dsvf⟩ := d
      cases csc <;> cases sc <;> cases sf <;> cases sflow <;> cases fc <;> cases ff <;>
        simp [hf, Gen.save_config, Gen.save_flow, Gen.h5_del_aspire_config, Gen.h5_del_flow]

theorem h5_store_same (files : Nat → H5) (p : Nat) : Gen.h5_store files p (files p) = files := by
  funext q
  unfold Gen.h5_store
  split
  · next h => rw [h]
  · rfl

/-- **within one call the block after sampling writes nothing**: with the flags the block before sampling hands over, whatever
    the sampler did to the files in between (it writes checkpoints, never the configuration or the proposal), the block after
    sampling leaves the instance and every file as they are — the proposal and configuration a checkpoint sits next to are the
    ones written BEFORE the particles were weighted -/
theorem src_post_after_pre_is_identity (self : FSelf) (files files' : Nat → H5) (kwp kwe : Option Nat) (sup : Bool)
    (cp ce : Option Nat) (csc : Bool) :
    let r := Gen.sample_pre_block self files kwp kwe sup cp ce csc
    Gen.sample_post_block r.1 files' r.2.2.2.2.1 r.2.2.2.2.2.1 r.2.2.2.2.2.2.1 r.2.2.2.2.2.2.2 = (r.1, files') := by
  intro r
  have hr : r = Gen.sample_pre_block self files kwp kwe sup cp ce csc := rfl
  rw [tie_sample_pre_block] at hr
  rw [tie_sample_post_block]
  cases ht : srcTarget self cp csc with
  | none => rw [ht] at hr; rw [hr]
  | some ps =>
    obtain ⟨p, saveCfg⟩ := ps
    rw [ht] at hr
    rw [hr]
    obtain ⟨sflow, slast, sdef⟩ := self
    simp only [markSelf, preH5]
    have hcfg : (saveCfg && !(srcSavedConfig { flow := sflow, last_sampler_type := slast, checkpoint_defaults := sdef } || saveCfg)) = false := by
      cases saveCfg <;> simp
    have hfl : (sflow.isSome && !(srcSavedFlow { flow := sflow, last_sampler_type := slast, checkpoint_defaults := sdef } || sflow.isSome)) = false := by
      cases sflow <;> simp
    simp only [hcfg, hfl]
    refine Prod.ext ?_ ?_
    · cases sdef with
      | none => rfl
      | some d => simp
    · cases sflow with
      | none =>
        simp only [Bool.false_eq_true, if_false, Option.isSome_none, Bool.or_false]
        cases srcSavedFlow { flow := none, last_sampler_type := slast, checkpoint_defaults := sdef } <;>
          exact h5_store_same files' p
      | some v =>
        simp only [Bool.false_eq_true, if_false, Option.isSome_some, Bool.or_true, if_true]
        exact h5_store_same files' p

/-- the sampler is handed the file whose header was just written, unless the caller passed a checkpoint file of its own -/
theorem src_sampler_gets_the_same_file (self : FSelf) (files : Nat → H5) (ce : Option Nat) (cp : Option Nat) (csc : Bool)
    (p : Nat) (saveCfg : Bool) (ht : srcTarget self cp csc = some (p, saveCfg)) :
    (Gen.sample_pre_block self files none none true cp ce csc).2.2.1 = some p := by
  rw [tie_sample_pre_block, ht]
  rfl

/-! ### the same, in terms of the session model -/

def dOf (d : FDefaults) : Dflt :=
  { path := d.path, saveConfig := d.save_config, savedConfig := d.saved_config, savedFlow := d.saved_flow }

def ckOf (f : H5) : CkFile :=
  { flow := f.flow, hasConfig := f.aspire_config.isSome, cfgSampler := f.aspire_config.join, ckpt := f.checkpoint }

/-- a source-level state and a model state describe the same session -/
structure Rel (me : FSelf) (files : Nat → H5) (s : Sess) : Prop where
  flow : me.flow = s.memFlow
  last : me.last_sampler_type = s.lastSampler
  dflt : me.checkpoint_defaults.map dOf = topDflt s
  file : ∀ p, ckOf (files p) = getFile s.files p

theorem ckOf_fitH5 (f : H5) (wc : Bool) (last : Option SamplerKind) (ov : Bool) (v : Nat) :
    ckOf (fitH5 f wc last ov v) = fitFile (ckOf f) wc last ov v := by
  rcases f with ⟨fc, ff, fk, fe⟩
  cases wc <;> cases fc <;> simp [ckOf, fitH5, fitFile]

theorem target_of_rel {self : FSelf} {files : Nat → H5} {s : Sess} (h : Rel self files s) (cp : Option Nat) :
    srcTarget self cp true = target s cp := by
  have hd := h.dflt
  unfold srcTarget target
  cases cp with
  | some p => cases self.checkpoint_defaults <;> rfl
  | none =>
    cases hs : self.checkpoint_defaults with
    | none => rw [hs] at hd; simp at hd; rw [← hd]
    | some d => rw [hs] at hd; simp at hd; rw [← hd]; rfl

theorem savedConfig_of_rel {self : FSelf} {files : Nat → H5} {s : Sess} (h : Rel self files s) :
    srcSavedConfig self = topSavedConfig s := by
  have hd := h.dflt
  unfold srcSavedConfig topSavedConfig
  cases hs : self.checkpoint_defaults with
  | none => rw [hs] at hd; simp at hd; rw [← hd]
  | some d => rw [hs] at hd; simp at hd; rw [← hd]; rfl

theorem topDflt_markTop (s : Sess) (cfg flow : Bool) :
    (markTop s.dstack cfg flow).head? =
      (topDflt s).map fun d => { d with savedConfig := d.savedConfig || cfg, savedFlow := d.savedFlow || flow } := by
  unfold topDflt markTop
  cases s.dstack <;> rfl

/-- **`fit`**: training produces version `s.nextVersion`; the translated file block then does to the source-level session what
    `Model.stepFit` does to the model's -/
theorem rel_fit (self : FSelf) (files : Nat → H5) (s : Sess) (h : Rel self files s) (cp : Option Nat) (ov : Bool) :
    let r := Gen.fit_file_block { self with flow := some s.nextVersion } files cp true ov
    Rel r.1 r.2 (stepFit s cp ov) := by
  intro r
  have h1 : Rel { self with flow := some s.nextVersion } files { s with memFlow := some s.nextVersion } :=
    ⟨rfl, h.last, h.dflt, h.file⟩
  have hr : r = Gen.fit_file_block { self with flow := some s.nextVersion } files cp true ov := rfl
  rw [tie_fit_file_block _ files cp true ov s.nextVersion rfl] at hr
  have ht : srcTarget { self with flow := some s.nextVersion } cp true = target s cp := by
    rw [← target_of_rel h cp]; rfl
  have hsc : srcSavedConfig { self with flow := some s.nextVersion } = topSavedConfig s :=
    (savedConfig_of_rel h : srcSavedConfig self = topSavedConfig s)
  obtain ⟨o1, o2, o3⟩ := stepFit_other s cp ov
  cases htg : target s cp with
  | none =>
    rw [ht, htg] at hr
    obtain ⟨f1, f2, f3⟩ := stepFit_noTarget s cp ov htg
    rw [hr]
    refine ⟨f3.symm, h.last.trans o2.symm, ?_, ?_⟩
    · show self.checkpoint_defaults.map dOf = (stepFit s cp ov).dstack.head?
      rw [f2]; exact h.dflt
    · intro p; show ckOf (files p) = getFile (stepFit s cp ov).files p
      rw [f1]; exact h.file p
  | some ps =>
    obtain ⟨p, saveCfg⟩ := ps
    rw [ht, htg] at hr
    obtain ⟨f1, f2, f3⟩ := stepFit_target s cp ov p saveCfg htg
    rw [hr]
    refine ⟨f3.symm, h.last.trans o2.symm, ?_, ?_⟩
    · show (markSelf _ _ false).checkpoint_defaults.map dOf = (stepFit s cp ov).dstack.head?
      rw [f2, topDflt_markTop, ← h.dflt, hsc]
      simp only [markSelf]
      cases self.checkpoint_defaults <;> simp [dOf]
    · intro q
      show ckOf (Gen.h5_store files p _ q) = getFile (stepFit s cp ov).files q
      rw [f1]
      by_cases hq : q = p
      · subst hq
        rw [getFile_setFile_same]
        simp only [Gen.h5_store, if_true]
        rw [ckOf_fitH5, h.file, hsc, h.last]
      · rw [getFile_setFile_other _ _ _ _ hq]
        simp only [Gen.h5_store, hq, if_false]
        exact h.file q

/-- what the sampler's run does to the file it was handed: a checkpoint tagged with the proposal in memory and the sampler, iff
    it wrote one (`wrote`); nothing else (it never touches the configuration or the proposal) -/
def samplerWrites (f : H5) (mem : Option Nat) (wrote : Bool) (k : SamplerKind) : H5 :=
  { f with checkpoint := match mem with
      | some v => if wrote then some (v, k) else f.checkpoint
      | none => f.checkpoint }

theorem ckOf_sample (f : H5) (saveCfg : Bool) (k : SamplerKind) (mem : Option Nat) (wrote : Bool) :
    ckOf (samplerWrites (preH5 f saveCfg (some k) mem) mem wrote k) = sampleFile (ckOf f) saveCfg k mem.isSome mem wrote := by
  rcases f with ⟨fc, ff, fk, fe⟩
  cases saveCfg <;> cases fc <;> cases mem <;> cases wrote <;> simp [ckOf, preH5, samplerWrites, sampleFile]

/-- **`sample_posterior`**: the sampler of this call is recorded, the translated block before sampling runs, the sampler writes
    its checkpoints to the file it was handed, the translated block after sampling runs: the source-level session is then related
    to `Model.stepSample` of the model's -/
theorem rel_sample (self : FSelf) (files : Nat → H5) (s : Sess) (h : Rel self files s) (k : SamplerKind) (cp ce : Option Nat)
    (c : Bool) (n : Nat) :
    let k' := effSampler s k
    let r := Gen.sample_pre_block { self with last_sampler_type := some k' } files none none true cp ce true
    let files2 : Nat → H5 := match r.2.2.1 with
      | some p => Gen.h5_store r.2.1 p (samplerWrites (r.2.1 p) self.flow (writesCkpt k' c n) k')
      | none => r.2.1
    let q := Gen.sample_post_block r.1 files2 r.2.2.2.2.1 r.2.2.2.2.2.1 r.2.2.2.2.2.2.1 r.2.2.2.2.2.2.2
    Rel q.1 q.2 (stepSample s k cp c n) := by
  intro k' r files2 q
  have hq : q = (r.1, files2) := src_post_after_pre_is_identity _ files files2 none none true cp ce true
  rw [hq]
  have hr : r = Gen.sample_pre_block { self with last_sampler_type := some k' } files none none true cp ce true := rfl
  rw [tie_sample_pre_block] at hr
  have ht : srcTarget { self with last_sampler_type := some k' } cp true = target s cp := by
    rw [← target_of_rel h cp]; rfl
  obtain ⟨o1, o2, o3⟩ := stepSample_other s k cp c n
  cases htg : target s cp with
  | none =>
    rw [ht, htg] at hr
    obtain ⟨f1, f2, f3⟩ := stepSample_noTarget s k cp c n htg
    have hf2 : files2 = files := by
      show (match r.2.2.1 with | some p => _ | none => r.2.1) = files
      rw [hr]
    rw [hf2, hr]
    refine ⟨h.flow.trans f3.symm, o2.symm, ?_, ?_⟩
    · show self.checkpoint_defaults.map dOf = (stepSample s k cp c n).dstack.head?
      rw [f2]; exact h.dflt
    · intro p; show ckOf (files p) = getFile (stepSample s k cp c n).files p
      rw [f1]; exact h.file p
  | some ps =>
    obtain ⟨p, saveCfg⟩ := ps
    rw [ht, htg] at hr
    obtain ⟨f1, f2, f3⟩ := stepSample_target s k cp c n p saveCfg htg
    have hf2 : files2 = Gen.h5_store (Gen.h5_store files p (preH5 (files p) saveCfg (some k') self.flow)) p
        (samplerWrites (preH5 (files p) saveCfg (some k') self.flow) self.flow (writesCkpt k' c n) k') := by
      show (match r.2.2.1 with | some p => _ | none => r.2.1) = _
      rw [hr]
      simp [setdefault, Gen.h5_store]
    rw [hf2, hr]
    refine ⟨h.flow.trans f3.symm, o2.symm, ?_, ?_⟩
    · show (markSelf _ saveCfg _).checkpoint_defaults.map dOf = (stepSample s k cp c n).dstack.head?
      rw [f2, topDflt_markTop, ← h.dflt, ← h.flow]
      simp only [markSelf]
      cases self.checkpoint_defaults <;> simp [dOf]
    · intro q'
      show ckOf (Gen.h5_store _ p _ q') = getFile (stepSample s k cp c n).files q'
      rw [f1]
      by_cases hq' : q' = p
      · subst hq'
        rw [getFile_setFile_same]
        simp only [Gen.h5_store, if_true]
        rw [ckOf_sample, h.file, h.flow]
      · rw [getFile_setFile_other _ _ _ _ hq']
        simp only [Gen.h5_store, hq', if_false]
        exact h.file q'

end C14
