import AspireModel.Gen.SrcSmcLoop
/-
  C11 — what a checkpoint must contain for a resumed run to continue like the uninterrupted one, read off the
  TRANSLATION of `SMCSampler.sample`'s loop (`Gen/SrcSmcLoop.lean`): the loop, and the statements after it, read nothing
  but the population, the temperature, the minimum step, the iteration counter and the history — exactly the arguments of
  `build_checkpoint_state` — so a call that starts from those five values (whatever else differs: the callback's log, an
  evidence attached to the restored population) performs the same passes, records the same history, attaches the same
  evidence and hands the same new payloads to the callback.  For every callee and every option.  Core Lean only.
-/
set_option linter.unusedSectionVars false
namespace C11
open Gen
variable {α : Type} [Num α] [DecidableLT α] [DecidableLE α] {P W C : Type}

/-- two sets of loop variables that agree on what a checkpoint payload is built from -/
def SameCore (a b : LoopSt P C α) : Prop :=
  a.samples = b.samples ∧ a.beta = b.beta ∧ a.min_step = b.min_step ∧ a.iterations = b.iterations ∧
  a.history = b.history

/-- same core, same attached evidence, and the callback received the same payloads since the two calls started -/
def SameAfter (a0 b0 a b : LoopSt P C α) : Prop :=
  SameCore a b ∧ a.samples_log_evidence = b.samples_log_evidence ∧
  a.samples_log_evidence_error = b.samples_log_evidence_error ∧
  ∃ new, a.callback_log = a0.callback_log ++ new ∧ b.callback_log = b0.callback_log ++ new

theorem src_maybe_checkpoint_appends (ops : LoopOps P W C α) (cb : Bool) (every : Option Nat) (force : Bool) (p : P)
    (z ze : Option α) (b m : α) (it : Nat) (h : LoopHist P α) (l1 l2 : List C) :
    ∃ new, Gen.smc_maybe_checkpoint ops cb every force p z ze b m it h l1 = l1 ++ new ∧
           Gen.smc_maybe_checkpoint ops cb every force p z ze b m it h l2 = l2 ++ new := by
  unfold Gen.smc_maybe_checkpoint
  cases cb with
  | false => exact ⟨[], by simp, by simp⟩
  | true =>
    simp only [Bool.not_true, Bool.false_eq_true, if_false]
    cases hsc : (force || (match every with | none => false | some e => (decide (0 < e) && decide (it % e = 0)))) with
    | false => exact ⟨[], by simp, by simp⟩
    | true => exact ⟨[ops.build_checkpoint_state p z ze it b (some m) h], by simp, by simp⟩

/-- one pass reads only the checkpointed variables -/
theorem src_body_reads_only_core (ops : LoopOps P W C α) (bs tol : α) (store cb : Bool) (every mx nf ns : Option Nat)
    (a b : LoopSt P C α) (hab : SameCore a b) :
    match Gen.smc_loop_body ops bs tol store cb every mx nf ns a, Gen.smc_loop_body ops bs tol store cb every mx nf ns b with
    | .ok (a', s), .ok (b', s') => SameAfter a b a' b' ∧ s = s'
    | .error e, .error e' => e = e'
    | _, _ => False := by
  obtain ⟨h1, h2, h3, h4, h5⟩ := hab
  unfold Gen.smc_loop_body
  rw [h1, h2, h3, h4, h5]
  cases hb : ops.determine_beta b.samples b.beta bs b.min_step tol with
  | error e => simp only [hb]
  | ok bm =>
    obtain ⟨β, m⟩ := bm
    simp only [hb]
    obtain ⟨new, e1, e2⟩ := src_maybe_checkpoint_appends ops cb every false
      (ops.mutate (ops.resample b.samples β none) β none) none none β m (b.iterations + 1)
      (if store = true then
        { eff_target := b.history.eff_target ++ [ops.current_target_efficiency β], beta := b.history.beta ++ [β],
          ess := b.history.ess ++ [ops.effective_sample_size (ops.log_weights b.samples β)],
          ess_target := b.history.ess_target ++ [ops.effective_sample_size (ops.log_weights b.samples 1)],
          log_norm_ratio := b.history.log_norm_ratio ++ [ops.log_evidence_ratio b.samples β],
          log_norm_ratio_var := b.history.log_norm_ratio_var ++ [ops.log_evidence_ratio_variance b.samples β],
          sample_history := b.history.sample_history ++ [ops.mutate (ops.resample b.samples β none) β none] }
       else
        { eff_target := b.history.eff_target ++ [ops.current_target_efficiency β], beta := b.history.beta ++ [β],
          ess := b.history.ess ++ [ops.effective_sample_size (ops.log_weights b.samples β)],
          ess_target := b.history.ess_target ++ [ops.effective_sample_size (ops.log_weights b.samples 1)],
          log_norm_ratio := b.history.log_norm_ratio ++ [ops.log_evidence_ratio b.samples β],
          log_norm_ratio_var := b.history.log_norm_ratio_var ++ [ops.log_evidence_ratio_variance b.samples β],
          sample_history := b.history.sample_history })
      a.callback_log b.callback_log
    exact ⟨⟨⟨rfl, rfl, rfl, rfl, rfl⟩, rfl, rfl, new, e1, e2⟩, trivial⟩

theorem SameAfter.refl_of_core {a b : LoopSt P C α} (h : SameCore a b)
    (h1 : a.samples_log_evidence = b.samples_log_evidence)
    (h2 : a.samples_log_evidence_error = b.samples_log_evidence_error) : SameAfter a b a b :=
  ⟨h, h1, h2, [], by simp, by simp⟩

theorem SameAfter.trans {a b a1 b1 a2 b2 : LoopSt P C α} (h : SameAfter a b a1 b1) (g : SameAfter a1 b1 a2 b2) :
    SameAfter a b a2 b2 := by
  obtain ⟨-, -, -, n1, e1, f1⟩ := h
  obtain ⟨c, z1, z2, n2, e2, f2⟩ := g
  exact ⟨c, z1, z2, n1 ++ n2, by rw [e2, e1, List.append_assoc], by rw [f2, f1, List.append_assoc]⟩

/-- the whole `while True:` loop reads only the checkpointed variables -/
theorem src_loop_reads_only_core (ops : LoopOps P W C α) (bs tol : α) (store cb : Bool) (every mx nf ns : Option Nat) :
    ∀ (fuel : Nat) (a b : LoopSt P C α), SameCore a b →
      match Gen.smc_driver_loop ops bs tol store cb every mx nf ns fuel a,
            Gen.smc_driver_loop ops bs tol store cb every mx nf ns fuel b with
      | .ok (a', s), .ok (b', s') => SameCore a' b' ∧ s = s' ∧
          ∃ new, a'.callback_log = a.callback_log ++ new ∧ b'.callback_log = b.callback_log ++ new
      | .error e, .error e' => e = e'
      | _, _ => False := by
  intro fuel
  induction fuel with
  | zero => intro a b hab; exact ⟨hab, rfl, [], by simp, by simp⟩
  | succ n ih =>
    intro a b hab
    have hbody := src_body_reads_only_core ops bs tol store cb every mx nf ns a b hab
    unfold Gen.smc_driver_loop
    cases ha : Gen.smc_loop_body ops bs tol store cb every mx nf ns a with
    | error e =>
      cases hb : Gen.smc_loop_body ops bs tol store cb every mx nf ns b with
      | error e' => simp only [ha, hb] at hbody ⊢; try exact hbody
      | ok r => simp only [ha, hb] at hbody
    | ok r =>
      obtain ⟨a1, s⟩ := r
      cases hb : Gen.smc_loop_body ops bs tol store cb every mx nf ns b with
      | error e' => simp only [ha, hb] at hbody
      | ok r' =>
        obtain ⟨b1, s'⟩ := r'
        simp only [ha, hb] at hbody ⊢
        obtain ⟨⟨hc, -, -, new, e1, e2⟩, rfl⟩ := hbody
        cases s with
        | true => exact ⟨hc, rfl, new, e1, e2⟩
        | false =>
          simp only [Bool.false_eq_true, if_false]
          have := ih a1 b1 hc
          cases h1 : Gen.smc_driver_loop ops bs tol store cb every mx nf ns n a1 with
          | error e =>
            cases h2 : Gen.smc_driver_loop ops bs tol store cb every mx nf ns n b1 with
            | error e' => simp only [h1, h2] at this ⊢; try exact this
            | ok r => simp only [h1, h2] at this
          | ok r =>
            obtain ⟨a2, t⟩ := r
            cases h2 : Gen.smc_driver_loop ops bs tol store cb every mx nf ns n b1 with
            | error e' => simp only [h1, h2] at this
            | ok r' =>
              obtain ⟨b2, t'⟩ := r'
              simp only [h1, h2] at this ⊢
              obtain ⟨hc2, ht, new2, g1, g2⟩ := this
              exact ⟨hc2, ht, new ++ new2, by rw [g1, e1, List.append_assoc], by rw [g2, e2, List.append_assoc]⟩

/-- the statements after the loop read only the checkpointed variables, and overwrite any evidence attached before -/
theorem src_epilogue_reads_only_core (ops : LoopOps P W C α) (bs tol : α) (store cb : Bool) (every mx nf ns : Option Nat)
    (a b : LoopSt P C α) (hab : SameCore a b) :
    SameAfter a b (Gen.smc_epilogue ops bs tol store cb every mx nf ns a) (Gen.smc_epilogue ops bs tol store cb every mx nf ns b) := by
  obtain ⟨h1, h2, h3, h4, h5⟩ := hab
  unfold Gen.smc_epilogue
  simp only [h1, h2, h3, h4, h5]
  obtain ⟨new, e1, e2⟩ := src_maybe_checkpoint_appends ops cb every true
    (match nf with
      | none => (b.samples, b.samples, a.samples_log_evidence, a.samples_log_evidence_error)
      | some n =>
        if decide (ops.len b.samples ≠ n) = true then
          (ops.resample b.samples 1 (some n), ops.mutate (ops.resample b.samples 1 (some n)) 1 ns, none, none)
        else (b.samples, b.samples, a.samples_log_evidence, a.samples_log_evidence_error)).2.1
    (some (Gen.vsum b.history.log_norm_ratio)) (some (ExpLog.sqrt (Gen.vsum b.history.log_norm_ratio_var)))
    b.beta b.min_step b.iterations b.history a.callback_log b.callback_log
  have hp : ∀ (x y x' y' : Option α),
      (match nf with
        | none => (b.samples, b.samples, x, y)
        | some n =>
          if decide (ops.len b.samples ≠ n) = true then
            (ops.resample b.samples 1 (some n), ops.mutate (ops.resample b.samples 1 (some n)) 1 ns, none, none)
          else (b.samples, b.samples, x, y)).2.1 =
      (match nf with
        | none => (b.samples, b.samples, x', y')
        | some n =>
          if decide (ops.len b.samples ≠ n) = true then
            (ops.resample b.samples 1 (some n), ops.mutate (ops.resample b.samples 1 (some n)) 1 ns, none, none)
          else (b.samples, b.samples, x', y')).2.1 := by
    intro x y x' y'
    cases nf with
    | none => rfl
    | some n => by_cases hq : ops.len b.samples ≠ n <;> simp [hq]
  refine ⟨⟨?_, rfl, rfl, rfl, rfl⟩, rfl, rfl, new, e1, ?_⟩
  · exact hp _ _ _ _
  · rw [← e2]
    show Gen.smc_maybe_checkpoint ops cb every true _ _ _ _ _ _ _ _ = _
    congr 1
    exact hp _ _ _ _

/-- **resume, at the level of the translated source**: two calls of the translated `sample` (same callees, same options,
    same `run_smc_loop` flag, same fuel) that start from variables agreeing on what a checkpoint payload is built from
    — one is the uninterrupted run at the moment of the checkpoint, the other the run restored from it, whose callback
    log is empty and whose restored population may or may not carry an evidence — either both raise the same error, or both
    run out of fuel, or both return; then they return the same population, temperature, counter, minimum step, history,
    evidence and error, and the callback received the same new payloads. -/
theorem src_run_reads_only_core (ops : LoopOps P W C α) (bs tol : α) (store cb : Bool) (every mx nf ns : Option Nat)
    (flag : Bool) (fuel : Nat) (a b : LoopSt P C α) (hab : SameCore a b) :
    match Gen.smc_driver_run ops bs tol store cb every mx nf ns flag fuel a,
          Gen.smc_driver_run ops bs tol store cb every mx nf ns flag fuel b with
    | .ok (some a'), .ok (some b') => SameAfter a b a' b'
    | .ok none, .ok none => True
    | .error e, .error e' => e = e'
    | _, _ => False := by
  unfold Gen.smc_driver_run
  cases flag with
  | false =>
    simp only [Bool.false_eq_true, if_false]
    exact src_epilogue_reads_only_core ops bs tol store cb every mx nf ns a b hab
  | true =>
    simp only [if_true]
    have hl := src_loop_reads_only_core ops bs tol store cb every mx nf ns fuel a b hab
    cases h1 : Gen.smc_driver_loop ops bs tol store cb every mx nf ns fuel a with
    | error e =>
      cases h2 : Gen.smc_driver_loop ops bs tol store cb every mx nf ns fuel b with
      | error e' => simp only [h1, h2] at hl ⊢; try exact hl
      | ok r => simp only [h1, h2] at hl
    | ok r =>
      obtain ⟨a1, t⟩ := r
      cases h2 : Gen.smc_driver_loop ops bs tol store cb every mx nf ns fuel b with
      | error e' => simp only [h1, h2] at hl
      | ok r' =>
        obtain ⟨b1, t'⟩ := r'
        simp only [h1, h2] at hl ⊢
        obtain ⟨hc, rfl, new, e1, e2⟩ := hl
        cases t with
        | false => trivial
        | true =>
          obtain ⟨c2, z1, z2, new2, g1, g2⟩ := src_epilogue_reads_only_core ops bs tol store cb every mx nf ns a1 b1 hc
          exact ⟨c2, z1, z2, new ++ new2, by rw [g1, e1, List.append_assoc], by rw [g2, e2, List.append_assoc]⟩

end C11
