import AspireModel.Gen.SrcEval
import AspireModel.Props.C17
/-
  C17 (and C10's clause about the initial population) — tie of the evaluation model (`Model/Eval.lean`: `evalLP`, `drawInitial`) to the
  TRANSLATION of the statements by which the samplers evaluate the user's functions (`Gen/SrcEval.lean`, regenerated from `/repo`'s
  source on every run by `harness/translate/eval2lean.py`): the counting wrapper `Sampler.log_likelihood`, the evaluation idiom at five
  call sites (importance sampler, the MCMC and SMC kernel targets, the two `mutate`s), and the rejection loop of
  `MCMCSampler.draw_initial_samples`.  Core Lean only.
-/
namespace C17
open Model Gen
variable {X V : Type}

def stOf (tr : ETrace X V) : EvalState X V := { counter := tr.counter, events := tr.events }
def trOf (st : EvalState X V) : ETrace X V := { counter := st.counter, events := st.events }

/-- the model's sample set for a source-level one (class tag aside) -/
def setOf (s : ESet X V) (cls : Cls) : SampleSet X V :=
  { cls := cls, x := s.x, ll := s.log_likelihood, lp := s.log_prior, lq := s.log_q }

/-! ### the counting wrapper and the evaluation idiom -/

/-- `Sampler.log_likelihood`: the counter grows by the number of points, the user's likelihood sees those points with the log-prior
    column the set carries, and the values are the user's -/
theorem src_wrapper (ops : EOps X V) (tr : ETrace X V) (s : ESet X V) :
    Gen.sampler_log_likelihood ops tr s =
      ({ counter := tr.counter + s.x.length, events := tr.events ++ [Event.like s.x s.log_prior] }, s.x.map ops.like) := rfl

/-- the idiom "attach the prior, then hand the set to the likelihood" as the model states it -/
theorem tie_importance_eval (ops : EOps X V) (tr : ETrace X V) (x : List X) (lq : List V) :
    Gen.importance_eval ops tr x lq =
      (trOf (evalLP ops.prior ops.like (stOf tr) x (some lq)).1,
       { x := x, log_q := some lq, log_prior := some (x.map ops.prior), log_likelihood := some (x.map ops.like) }) := by
  simp [Gen.importance_eval, Gen.sampler_log_likelihood, Gen.call_log_prior, Gen.call_user_log_likelihood, evalLP, trOf, stOf]

theorem tie_mcmc_target_eval (ops : EOps X V) (tr : ETrace X V) (x : List X) :
    Gen.mcmc_target_eval ops tr x =
      (trOf (evalLP ops.prior ops.like (stOf tr) x none).1,
       { x := x, log_q := none, log_prior := some (x.map ops.prior), log_likelihood := some (x.map ops.like) }) := by
  simp [Gen.mcmc_target_eval, Gen.sampler_log_likelihood, Gen.call_log_prior, Gen.call_user_log_likelihood, evalLP, trOf, stOf]

theorem tie_smc_target_eval (ops : EOps X V) (tr : ETrace X V) (x : List X) :
    Gen.smc_target_eval ops tr x =
      (trOf (targetEval ops.prior ops.like ops.flowq (stOf tr) x).1,
       { x := x, log_q := some (x.map ops.flowq), log_prior := some (x.map ops.prior), log_likelihood := some (x.map ops.like) }) := by
  simp [Gen.smc_target_eval, Gen.sampler_log_likelihood, Gen.call_log_prior, Gen.call_user_log_likelihood, targetEval, evalLP, trOf, stOf]

theorem tie_minipcn_mutate_eval (ops : EOps X V) (tr : ETrace X V) (x : List X) :
    Gen.minipcn_mutate_eval ops tr x =
      (trOf (reevaluate ops.prior ops.like ops.flowq (stOf tr) x).1,
       { x := x, log_q := some (x.map ops.flowq), log_prior := some (x.map ops.prior), log_likelihood := some (x.map ops.like) }) := by
  simp [Gen.minipcn_mutate_eval, Gen.sampler_log_likelihood, Gen.call_log_prior, Gen.call_user_log_likelihood, reevaluate, evalLP, trOf, stOf]

theorem tie_emcee_mutate_eval (ops : EOps X V) (tr : ETrace X V) (x : List X) :
    Gen.emcee_mutate_eval ops tr x =
      (trOf (reevaluate ops.prior ops.like ops.flowq (stOf tr) x).1,
       { x := x, log_q := some (x.map ops.flowq), log_prior := some (x.map ops.prior), log_likelihood := some (x.map ops.like) }) := by
  simp [Gen.emcee_mutate_eval, Gen.sampler_log_likelihood, Gen.call_log_prior, Gen.call_user_log_likelihood, reevaluate, evalLP, trOf, stOf]

/-- **C17 at every translated call site**: the two events appended are "prior on these points" then "likelihood on the SAME points,
    carrying exactly their log-prior", and the counter grows by the number of points -/
theorem src_prior_before_likelihood_same_points (ops : EOps X V) (tr : ETrace X V) (x : List X) (lq : List V) :
    (∀ r ∈ [(Gen.importance_eval ops tr x lq).1, (Gen.mcmc_target_eval ops tr x).1, (Gen.smc_target_eval ops tr x).1,
            (Gen.minipcn_mutate_eval ops tr x).1, (Gen.emcee_mutate_eval ops tr x).1],
      r.events = tr.events ++ [Event.prior x, Event.like x (some (x.map ops.prior))] ∧ r.counter = tr.counter + x.length) := by
  intro r hr
  simp only [List.mem_cons, List.not_mem_nil, or_false] at hr
  rcases hr with rfl | rfl | rfl | rfl | rfl <;>
    simp [Gen.importance_eval, Gen.mcmc_target_eval, Gen.smc_target_eval, Gen.minipcn_mutate_eval, Gen.emcee_mutate_eval,
      Gen.sampler_log_likelihood, Gen.call_log_prior, Gen.call_user_log_likelihood]

/-! ### the initial draw -/

/-- kept rows `(x, log q, log π)` as a source-level sample set -/
def rowsSet (rows : List (X × V × V)) : ESet X V :=
  { x := rows.map (·.1), log_q := some (rows.map (·.2.1)), log_prior := some (rows.map (·.2.2)), log_likelihood := none }

/-- the accumulator of the loop: `None` before the first kept row -/
def accSet (rows : List (X × V × V)) : Option (ESet X V) := if rows.isEmpty then none else some (rowsSet rows)

/-- the sample set built from one proposal batch, with its prior attached -/
def batchSet (ops : EOps X V) (b : List (X × V)) : ESet X V :=
  { x := b.map (·.1), log_q := some (b.map (·.2)), log_prior := some ((b.map (·.1)).map ops.prior) }

/-- the prior column of a batch, its finiteness mask, and the selection of its finite rows -/
def bp (ops : EOps X V) (b : List (X × V)) : List V := (b.map (·.1)).map ops.prior
def bmask (ops : EOps X V) (b : List (X × V)) : List Bool := Gen.finite_mask ops (some (bp ops b))
def bsel (ops : EOps X V) (b : List (X × V)) : ESet X V := Gen.eset_select (batchSet ops b) (bmask ops b)

theorem select_batch (ops : EOps X V) (b : List (X × V)) :
    bsel ops b = rowsSet (keepFinite ops.finite ops.prior b) ∧
    Gen.count_true (bmask ops b) = (keepFinite ops.finite ops.prior b).length := by
  induction b with
  | nil => exact ⟨rfl, rfl⟩
  | cons r rest ih =>
    obtain ⟨x, lq⟩ := r
    obtain ⟨ih1, ih2⟩ := ih
    simp only [bsel, bmask, bp, batchSet, Gen.eset_select, Gen.finite_mask, Gen.count_true, rowsSet, List.map_cons, Gen.pickMask,
      Option.map_some, keepFinite, List.map_map] at ih1 ih2 ⊢
    simp only [ESet.mk.injEq, Option.some.injEq] at ih1
    obtain ⟨e1, e2, e3, -⟩ := ih1
    cases hf : ops.finite (ops.prior x) with
    | true => simp [e1, e2, e3, ih2]
    | false => simp [e1, e2, e3, ih2]

/-- one pass through the translated loop -/
theorem loop_cons (ops : EOps X V) (n : Nat) (b : List (X × V)) (rest : List (List (X × V))) (tr : ETrace X V)
    (samples : Option (ESet X V)) (drawn : Nat) (h : drawn < n) :
    Gen.draw_initial_samples_loop ops n (b :: rest) tr samples drawn =
      Gen.draw_initial_samples_loop ops n rest { tr with events := tr.events ++ [Event.prior (b.map (·.1))] }
        (if 0 < Gen.count_true (bmask ops b) then
          (match samples with | none => some (bsel ops b) | some a => some (Gen.eset_concat a (bsel ops b)))
         else samples)
        (if 0 < Gen.count_true (bmask ops b) then drawn + Gen.count_true (bmask ops b) else drawn) := by
  rw [Gen.draw_initial_samples_loop.eq_def]
  simp only [h, if_true, Gen.call_log_prior]
  by_cases hp : 0 < Gen.count_true (bmask ops b)
  · have hp' : 0 < Gen.count_true (Gen.finite_mask ops (some (List.map ops.prior (List.map (fun x => x.1) b)))) := hp
    simp only [hp, hp', if_true]
    rfl
  · have hp' : ¬ 0 < Gen.count_true (Gen.finite_mask ops (some (List.map ops.prior (List.map (fun x => x.1) b)))) := hp
    simp only [hp, hp', if_false]

theorem loop_done (ops : EOps X V) (n : Nat) (batches : List (List (X × V))) (tr : ETrace X V)
    (samples : Option (ESet X V)) (drawn : Nat) (h : ¬ drawn < n) :
    Gen.draw_initial_samples_loop ops n batches tr samples drawn = some (tr, samples, drawn) := by
  rw [Gen.draw_initial_samples_loop.eq_def]
  simp only [h, if_false]

theorem loop_nil (ops : EOps X V) (n : Nat) (tr : ETrace X V) (samples : Option (ESet X V)) (drawn : Nat) (h : drawn < n) :
    Gen.draw_initial_samples_loop ops n [] tr samples drawn = none := by
  rw [Gen.draw_initial_samples_loop.eq_def]
  simp only [h, if_true]

theorem concat_rows (a b : List (X × V × V)) :
    Gen.eset_concat (rowsSet a : ESet X V) (rowsSet b) = rowsSet (a ++ b) := by
  simp [Gen.eset_concat, rowsSet, Gen.catO]

theorem take_rows (a : List (X × V × V)) (n : Nat) : Gen.eset_take (rowsSet a : ESet X V) n = rowsSet (a.take n) := by
  simp [Gen.eset_take, rowsSet, List.map_take]

/-- the model's rejection loop without the final trim -/
def rowsLoop (finite : V → Bool) (π : X → V) (n : Nat) :
    List (List (X × V)) → List (X × V × V) → Nat → Option (List (X × V × V) × Nat)
  | batches, acc, used =>
    if n ≤ acc.length then some (acc, used)
    else match batches with
      | [] => none
      | b :: rest => rowsLoop finite π n rest (acc ++ keepFinite finite π b) (used + 1)

theorem drawInitialRows_eq (finite : V → Bool) (π : X → V) (n : Nat) (batches : List (List (X × V)))
    (acc : List (X × V × V)) (used : Nat) :
    drawInitialRows finite π n batches acc used = (rowsLoop finite π n batches acc used).map fun r => (r.1.take n, r.2) := by
  induction batches generalizing acc used with
  | nil =>
    unfold drawInitialRows rowsLoop
    split <;> simp
  | cons b rest ih =>
    unfold drawInitialRows rowsLoop
    split
    · simp
    · exact ih _ _

theorem rowsLoop_used_le (finite : V → Bool) (π : X → V) (n : Nat) :
    ∀ (bs : List (List (X × V))) (a : List (X × V × V)) (u : Nat) (r : List (X × V × V) × Nat),
      rowsLoop finite π n bs a u = some r → u ≤ r.2 := by
  intro bs
  induction bs with
  | nil =>
    intro a u r h
    unfold rowsLoop at h
    split at h
    · simp only [Option.some.injEq] at h; rw [← h]; exact Nat.le_refl _
    · cases h
  | cons b rest ih =>
    intro a u r h
    unfold rowsLoop at h
    split at h
    · simp only [Option.some.injEq] at h; rw [← h]; exact Nat.le_refl _
    · have := ih _ _ _ h; omega

theorem accSet_step (ops : EOps X V) (acc : List (X × V × V)) (b : List (X × V)) :
    ((if 0 < Gen.count_true (bmask ops b) then
        (match accSet acc with | none => some (bsel ops b) | some a => some (Gen.eset_concat a (bsel ops b)))
      else accSet acc) = accSet (acc ++ keepFinite ops.finite ops.prior b)) ∧
    ((if 0 < Gen.count_true (bmask ops b) then acc.length + Gen.count_true (bmask ops b) else acc.length)
      = (acc ++ keepFinite ops.finite ops.prior b).length) := by
  obtain ⟨hs, hc⟩ := select_batch ops b
  rw [hs, hc]
  cases hk : keepFinite ops.finite ops.prior b with
  | nil => simp
  | cons r rs =>
    cases acc with
    | nil => simp [accSet]
    | cons a as => simp [accSet, concat_rows]; omega

/-- the translated loop follows the model's: same kept rows, same number of batches, one prior event per batch consumed -/
theorem tie_draw_loop (ops : EOps X V) (n : Nat) (batches : List (List (X × V))) :
    ∀ (acc : List (X × V × V)) (used : Nat) (tr : ETrace X V),
      Gen.draw_initial_samples_loop ops n batches tr (accSet acc) acc.length =
        (rowsLoop ops.finite ops.prior n batches acc used).map fun r =>
          ({ tr with events := tr.events ++ (batches.take (r.2 - used)).map (fun b => Event.prior (b.map (·.1))) },
           accSet r.1, r.1.length) := by
  induction batches with
  | nil =>
    intro acc used tr
    unfold rowsLoop
    by_cases h : n ≤ acc.length
    · rw [loop_done ops n [] tr _ _ (by omega)]
      simp [h]
    · rw [loop_nil ops n tr _ _ (by omega)]
      simp [h]
  | cons b rest ih =>
    intro acc used tr
    unfold rowsLoop
    by_cases h : n ≤ acc.length
    · rw [loop_done ops n _ tr _ _ (by omega)]
      simp [h]
    · rw [loop_cons ops n b rest tr _ _ (by omega)]
      obtain ⟨ha, hl⟩ := accSet_step ops acc b
      rw [ha, hl, ih (acc ++ keepFinite ops.finite ops.prior b) (used + 1)]
      simp only [h, if_false]
      cases hr : rowsLoop ops.finite ops.prior n rest (acc ++ keepFinite ops.finite ops.prior b) (used + 1) with
      | none => rfl
      | some r =>
        have hge := rowsLoop_used_le ops.finite ops.prior n _ _ _ _ hr
        simp only [Option.map_some]
        have e1 : r.2 - used = (r.2 - (used + 1)) + 1 := by omega
        rw [e1]
        simp [List.take_succ_cons, List.append_assoc]

theorem rowsLoop_enough (finite : V → Bool) (π : X → V) (n : Nat) :
    ∀ (bs : List (List (X × V))) (a : List (X × V × V)) (u : Nat) (r : List (X × V × V) × Nat),
      rowsLoop finite π n bs a u = some r → n ≤ r.1.length := by
  intro bs
  induction bs with
  | nil =>
    intro a u r h
    unfold rowsLoop at h
    split at h
    · simp only [Option.some.injEq] at h; rw [← h]; assumption
    · cases h
  | cons b rest ih =>
    intro a u r h
    unfold rowsLoop at h
    split at h
    · simp only [Option.some.injEq] at h; rw [← h]; assumption
    · exact ih _ _ _ h

/-- the source-level sample set for a model one -/
def esetOf (S : SampleSet X V) : ESet X V := { x := S.x, log_q := S.lq, log_prior := S.lp, log_likelihood := S.ll }

/-- **the initial draw**: for a requested size `n ≥ 1`, the translated `draw_initial_samples` consumes the same proposal batches, makes
    the same calls of the user's functions in the same order, counts the same evaluations and returns the same population as
    `Model.drawInitial` (for `n = 0` the source fails on `None`, the model returns an empty set) -/
theorem tie_draw_initial_samples (ops : EOps X V) (tr : ETrace X V) (n : Nat) (hn : 0 < n) (batches : List (List (X × V))) :
    Gen.draw_initial_samples ops tr n batches =
      (drawInitial ops.finite ops.prior ops.like n batches (stOf tr)).map fun r => (trOf r.1, esetOf r.2) := by
  unfold Gen.draw_initial_samples drawInitial
  have hl := tie_draw_loop ops n batches [] 0 tr
  simp only [accSet, List.isEmpty_nil, if_true, List.length_nil] at hl
  rw [hl, drawInitialRows_eq]
  cases hr : rowsLoop ops.finite ops.prior n batches [] 0 with
  | none => rfl
  | some r =>
    obtain ⟨rows, used⟩ := r
    have hen : n ≤ rows.length := rowsLoop_enough ops.finite ops.prior n _ _ _ _ hr
    have hne : rows.isEmpty = false := by
      cases rows with
      | nil => simp at hen; omega
      | cons a as => rfl
    simp only [Option.map_some, hne, Bool.false_eq_true, if_false, Nat.sub_zero]
    by_cases hlt : n < rows.length
    · simp only [hlt, if_true, take_rows]
      simp [Gen.sampler_log_likelihood, Gen.call_user_log_likelihood, rowsSet, trOf, stOf, esetOf, List.map_take]
    · have hq : rows.take n = rows := List.take_of_length_le (by omega)
      simp only [hlt, if_false, hq]
      simp [Gen.sampler_log_likelihood, Gen.call_user_log_likelihood, rowsSet, trOf, stOf, esetOf]

/-- **C10's clause about the initial population, for the translated source**: exactly the requested size, every kept row has a finite
    prior, its stored log-prior / log-likelihood are the user's functions at its coordinates and its log q is the proposal's value for
    that very row of that batch -/
theorem src_initial_population (ops : EOps X V) (tr : ETrace X V) (n : Nat) (hn : 0 < n) (batches : List (List (X × V)))
    (tr' : ETrace X V) (s : ESet X V) (h : Gen.draw_initial_samples ops tr n batches = some (tr', s)) :
    s.x.length = n ∧ s.log_prior = some (s.x.map ops.prior) ∧ s.log_likelihood = some (s.x.map ops.like) ∧
    (∀ lp, s.log_prior = some lp → ∀ v ∈ lp, ops.finite v = true) ∧
    (∀ lq, s.log_q = some lq → ∀ p ∈ s.x.zip lq, ∃ b ∈ batches, p ∈ b) ∧
    tr'.counter = tr.counter + n := by
  rw [tie_draw_initial_samples ops tr n hn] at h
  unfold drawInitial at h
  rw [drawInitialRows_eq] at h
  cases hr : rowsLoop ops.finite ops.prior n batches [] 0 with
  | none => simp [hr] at h
  | some r =>
    obtain ⟨rows, used⟩ := r
    have hen : n ≤ rows.length := rowsLoop_enough ops.finite ops.prior n _ _ _ _ hr
    simp only [hr, Option.map_some, Option.some.injEq, Prod.mk.injEq] at h
    obtain ⟨h1, h2⟩ := h
    -- every accumulated row comes from a batch, has a finite prior, and carries the prior of its own point
    have inv : ∀ (bs : List (List (X × V))) (a : List (X × V × V)) (u : Nat) (r : List (X × V × V) × Nat),
        rowsLoop ops.finite ops.prior n bs a u = some r →
        (∀ t ∈ a, t.2.2 = ops.prior t.1 ∧ ops.finite t.2.2 = true ∧ ∃ b ∈ batches, (t.1, t.2.1) ∈ b) →
        (∀ b ∈ bs, b ∈ batches) →
        ∀ t ∈ r.1, t.2.2 = ops.prior t.1 ∧ ops.finite t.2.2 = true ∧ ∃ b ∈ batches, (t.1, t.2.1) ∈ b := by
      intro bs
      induction bs with
      | nil =>
        intro a u r h ha _
        unfold rowsLoop at h
        split at h
        · simp only [Option.some.injEq] at h; rw [← h]; exact ha
        · cases h
      | cons b rest ih =>
        intro a u r h ha hb
        unfold rowsLoop at h
        split at h
        · simp only [Option.some.injEq] at h; rw [← h]; exact ha
        · refine ih _ _ _ h ?_ (fun b' hb' => hb b' (List.mem_cons_of_mem _ hb'))
          intro t ht
          rcases List.mem_append.mp ht with ht | ht
          · exact ha t ht
          · have hbm : b ∈ batches := hb b List.mem_cons_self
            have key : ∀ (l : List (X × V)), (∀ p ∈ l, p ∈ b) → ∀ t ∈ keepFinite ops.finite ops.prior l,
                t.2.2 = ops.prior t.1 ∧ ops.finite t.2.2 = true ∧ (t.1, t.2.1) ∈ b := by
              intro l
              induction l with
              | nil => intro _ t ht; simp [keepFinite] at ht
              | cons p ps ihl =>
                intro hsub t ht
                obtain ⟨px, pq⟩ := p
                simp only [keepFinite] at ht
                split at ht
                · rcases List.mem_cons.mp ht with rfl | ht
                  · exact ⟨rfl, by assumption, hsub _ List.mem_cons_self⟩
                  · exact ihl (fun p hp => hsub p (List.mem_cons_of_mem _ hp)) t ht
                · exact ihl (fun p hp => hsub p (List.mem_cons_of_mem _ hp)) t ht
            obtain ⟨k1, k2, k3⟩ := key b (fun p hp => hp) t ht
            exact ⟨k1, k2, b, hbm, k3⟩
    have hrows := inv batches [] 0 (rows, used) hr (by intro t ht; cases ht) (fun b hb => hb)
    have htake : ∀ t ∈ rows.take n, t.2.2 = ops.prior t.1 ∧ ops.finite t.2.2 = true ∧ ∃ b ∈ batches, (t.1, t.2.1) ∈ b :=
      fun t ht => hrows t (List.mem_of_mem_take ht)
    subst h2
    refine ⟨?_, ?_, ?_, ?_, ?_, ?_⟩
    · simp [esetOf, List.length_take, Nat.min_eq_left hen]
    · simp only [esetOf, List.map_map, Option.some.injEq]
      apply List.map_congr_left
      intro t ht
      exact (htake t ht).1
    · simp [esetOf]
    · intro lp hlp v hv
      simp only [esetOf, Option.some.injEq] at hlp
      subst hlp
      obtain ⟨t, ht, rfl⟩ := List.mem_map.mp hv
      exact (htake t ht).2.1
    · intro lq hlq p hp
      simp only [esetOf, Option.some.injEq] at hlq
      subst hlq
      have diag : ∀ (l : List (X × V × V)) (q : X × V), q ∈ (l.map (·.1)).zip (l.map (·.2.1)) → ∃ t ∈ l, q = (t.1, t.2.1) := by
        intro l
        induction l with
        | nil => intro q hq; simp at hq
        | cons a as iha =>
          intro q hq
          simp only [List.map_cons, List.zip_cons_cons, List.mem_cons] at hq
          rcases hq with rfl | hq
          · exact ⟨a, List.mem_cons_self, rfl⟩
          · obtain ⟨t, ht, e⟩ := iha q hq
            exact ⟨t, List.mem_cons_of_mem _ ht, e⟩
      obtain ⟨t, ht, rfl⟩ := diag _ p hp
      obtain ⟨-, -, b, hb, hmem⟩ := htake t ht
      exact ⟨b, hb, hmem⟩
    · rw [← h1]
      simp [trOf, stOf, List.length_take, Nat.min_eq_left hen]

/-! ### the hypotheses are satisfiable: a concrete draw (points and values `Int`; the prior is "finite" on non-negative points) -/
def exOps : EOps Int Int := { prior := fun x => x, like := fun x => 2 * x, flowq := fun x => x + 100, finite := fun v => decide (0 ≤ v) }

example : (Gen.draw_initial_samples exOps {} 3 [[(-1, 9), (4, 8)], [(-2, 7)], [(5, 6), (6, 5), (7, 4)]]).map
      (fun r => (r.1.counter, r.1.events.length, r.2.x, r.2.log_q, r.2.log_prior, r.2.log_likelihood))
    = some (3, 4, [4, 5, 6], some [8, 6, 5], some [4, 5, 6], some [8, 10, 12]) := by rfl

end C17
