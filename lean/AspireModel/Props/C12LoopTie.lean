import AspireModel.Props.C18Tie
import AspireModel.Props.C12
/-
  C12 — the cadence theorem restated for the TRANSLATION of the loop of `SMCSampler.sample` (`Gen/SrcSmcLoop.lean`), through
  the tie of `Props/C18Tie.lean`; with a concrete instance showing that the hypotheses are satisfiable.  Core Lean only.
-/
set_option linter.unusedSectionVars false
namespace C12
open Model Gen C18
variable {α : Type} [Num α] [DecidableLT α] [DecidableLE α] {P W C : Type}

/-- **cadence — of the translated source.**  For every callee, every option, every `e > 0`: when a fresh call of the translated
    `sample` with `checkpoint_every = e` (and therefore a callback) returns, the payloads handed to the callback were built at
    the iterations `e, 2e, …, ⌊n/e⌋e` and once more at the end (`n` = number of iterations), in this order and nothing else.
    `obs` is any observer that reads the iteration number back out of a payload. -/
theorem src_cadence (ops : LoopOps P W C α) (bs tol : α) (cfg : SmcCfg α) (ns : Option Nat) (n : Nat)
    (p0 : P) (ls : LoopSt P C α) {e : Nat} (he : cfg.every = some e) (hpos : 0 < e)
    (obs : C → Nat) (hobs : ∀ p z ze it b m h, obs (ops.build_checkpoint_state p z ze it b m h) = it)
    (h : Gen.smc_driver_run ops bs tol cfg.storeHistory cfg.every.isSome cfg.every cfg.maxSteps cfg.nFinal ns true n
      (stOf ops (initSt cfg 0 p0)) = .ok (some ls)) :
    ls.callback_log.map obs = (List.range (ls.iterations / e)).map (fun q => e * (q + 1)) ++ [ls.iterations] := by
  obtain ⟨r, hr, rfl⟩ := src_run_done ops bs tol cfg ns true n _ ls h
  have hc := cadence (kitOf ops bs tol) cfg (0 : α) p0 _ hr he hpos
  have hm : (resOf ops r).callback_log.map obs = r.st.ckpts.map (·.iter) := by
    simp only [resOf, stOf, List.map_map]
    apply List.map_congr_left
    intro c _
    simp [ckOf, hobs]
  rw [hm, hc]
  rfl

/-- **the last payload is current and carries the evidence — of the translated source**: the last payload handed to the
    callback is built from the returned population, the returned evidence and error, the final counter, temperature, minimum
    step and history. -/
theorem src_last_payload_current (ops : LoopOps P W C α) (bs tol : α) (cfg : SmcCfg α) (ns : Option Nat) (flag : Bool)
    (n : Nat) (st : St P α) (ls : LoopSt P C α) {e : Nat} (he : cfg.every = some e)
    (h : Gen.smc_driver_run ops bs tol cfg.storeHistory cfg.every.isSome cfg.every cfg.maxSteps cfg.nFinal ns flag n
      (stOf ops st) = .ok (some ls)) :
    ls.callback_log.getLast? = some (ops.build_checkpoint_state ls.samples ls.samples_log_evidence
      ls.samples_log_evidence_error ls.iterations ls.beta (some ls.min_step) ls.history) := by
  obtain ⟨r, hr, rfl⟩ := src_run_done ops bs tol cfg ns flag n st ls h
  have key : ∀ st1 : St P α, (resOf ops (finishGo (kitOf ops bs tol) cfg st1)).callback_log.getLast? =
      some (ops.build_checkpoint_state (resOf ops (finishGo (kitOf ops bs tol) cfg st1)).samples
        (resOf ops (finishGo (kitOf ops bs tol) cfg st1)).samples_log_evidence
        (resOf ops (finishGo (kitOf ops bs tol) cfg st1)).samples_log_evidence_error
        (resOf ops (finishGo (kitOf ops bs tol) cfg st1)).iterations
        (resOf ops (finishGo (kitOf ops bs tol) cfg st1)).beta
        (some (resOf ops (finishGo (kitOf ops bs tol) cfg st1)).min_step)
        (resOf ops (finishGo (kitOf ops bs tol) cfg st1)).history) := by
    intro st1
    simp [resOf, stOf, finishGo, maybeCheckpoint_forced cfg st1 _ he, ckOf, snapshot, kitOf]
  rcases runFrom_done hr with ⟨-, st1, rest, -, hf⟩ | ⟨-, hf⟩ <;>
  · rw [finish_eq] at hf
    split at hf
    · split at hf
      · cases hf
      · simp only [Option.some.injEq] at hf
        subst hf
        exact key _
    · simp only [Option.some.injEq] at hf
      subst hf
      exact key _

/-! ### the hypotheses are satisfiable: a concrete three-iteration call (scalars `Int`, populations and payloads `Nat`) -/
section Example
local instance : ExpLog Int := ⟨id, id, id⟩
local instance : Num Int := {}

/-- callees: the temperature moves up by one per pass from `-2`, the kernel adds one to the population, a payload is the
    iteration it was built at -/
def exOps : LoopOps Nat Nat Nat Int where
  determine_beta _ b _ m _ := .ok (b + 1, m)
  current_target_efficiency b := b
  log_weights p _ := p
  effective_sample_size w := w
  log_evidence_ratio p _ := p
  log_evidence_ratio_variance _ _ := 0
  resample p _ _ := p
  mutate p _ _ := p + 1
  len _ := 4
  build_checkpoint_state _ _ _ it _ _ _ := it

def exCfg : SmcCfg Int := { every := some 2, maxSteps := none, nFinal := none, storeHistory := true, minStep0 := 0 }

def exStart : St Nat Int := { (initSt exCfg 0 10) with beta := -2 }

example : (Gen.smc_driver_run exOps 0 0 exCfg.storeHistory exCfg.every.isSome exCfg.every exCfg.maxSteps exCfg.nFinal none
    true 5 (stOf exOps exStart)).toOption.join.map
      (fun ls => (ls.iterations, ls.beta, ls.samples, ls.history.beta, ls.history.sample_history, ls.callback_log,
                  ls.samples_log_evidence))
    = some (3, 1, 13, [-1, 0, 1], [10, 11, 12, 13], [2, 3], some 33) := by rfl

end Example

end C12
