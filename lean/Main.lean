import AspireModel.Driver
/- IO loop of the model driver:  `lake env lean --run Main.lean`  (one line in, one line out). -/
partial def loop (hin hout : IO.FS.Stream) : IO Unit := do
  let line ← hin.getLine
  if line.isEmpty then return ()
  hout.putStrLn (Driver.handle line.trimAscii.toString)
  hout.flush
  loop hin hout

def main : IO Unit := do loop (← IO.getStdin) (← IO.getStdout)
