"""Aspire-level machinery (C12, C14, C19, C20, C11's resume-from-file route).

A real `Aspire` instance with the entry-point stub proposal (`flow_backend="verifstub"`), the kernel doubles
and an instrumented target; checkpoint callbacks are observed by wrapping `Sampler.default_checkpoint_callback`
from outside (no source hook).
"""
from __future__ import annotations

import contextlib
import os
import pickle

import numpy as np

from . import ns, smcrun


def make_aspire(target: smcrun.Target, dims=2, half=10.0, flow_seed=3, xp_name="numpy", dtype=None, **kw):
    from aspire import Aspire

    params = [f"p{i}" for i in range(dims)]
    bounds = kw.pop("prior_bounds", {p: [-half, half] for p in params})      # `prior_bounds=None`: an analysis that declares no bounds
    return Aspire(log_likelihood=target.log_likelihood, log_prior=target.log_prior, dims=dims, parameters=params,
                  prior_bounds=bounds, flow_backend="verifstub", xp=ns.get_xp(xp_name),
                  dtype=dtype, seed=flow_seed, **kw)


def training_samples(dims, seed, center=0.5, spread=1.5, n=200):
    from aspire.samples import Samples

    r = np.random.default_rng(seed)
    return Samples(x=r.normal(center, spread, (n, dims)))


@contextlib.contextmanager
def observe_checkpoints(log: list, path: str | None):
    """record (iteration, pickled payload, file bytes right after the callback) of every default callback"""
    from aspire.samplers.base import Sampler

    orig = Sampler.default_checkpoint_callback

    def wrapped(self, state):
        orig(self, state)
        fb = read_ckpt_bytes(path) if path else None
        log.append({"iteration": state.get("iteration"), "bytes": self._last_checkpoint_bytes, "file": fb,
                    "sampler": state.get("sampler"), "n": len(state["samples"].x)})

    Sampler.default_checkpoint_callback = wrapped
    try:
        yield
    finally:
        Sampler.default_checkpoint_callback = orig


def read_ckpt_bytes(path):
    import h5py

    if path is None or not os.path.exists(path):
        return None
    with h5py.File(path, "r") as f:
        if "checkpoint" in f and "state" in f["checkpoint"]:
            return f["checkpoint"]["state"][...].tobytes()
    return None


def file_summary(path) -> dict:
    import h5py

    out = {"exists": os.path.exists(path)}
    if not out["exists"]:
        return out
    with h5py.File(path, "r") as f:
        out["groups"] = sorted(f.keys())
        out["has_config"] = "aspire_config" in f
        out["has_flow"] = "flow" in f
        if out["has_flow"]:
            g = f["flow"]
            out["flow_version"] = int(g.attrs["version"]) if "version" in g.attrs else None
            out["flow_mu"] = float(g.attrs["mu"]) if "mu" in g.attrs else None
            out["flow_sigma"] = float(g.attrs["sigma"]) if "sigma" in g.attrs else None
        if out["has_config"]:
            c = f["aspire_config"]
            st = c["sampler_type"][()] if "sampler_type" in c else None
            out["config_sampler_type"] = st.decode() if isinstance(st, bytes) else st
            sc = c["sampler_config.sampler_class"][()] if "sampler_config.sampler_class" in c else None
            out["config_sampler_class"] = sc.decode() if isinstance(sc, bytes) else sc
    out["ckpt_bytes"] = read_ckpt_bytes(path)
    return out


@contextlib.contextmanager
def orng_seed(seed):
    old = os.environ.get("VERIF_ORNG_SEED")
    os.environ["VERIF_ORNG_SEED"] = str(seed)
    try:
        yield
    finally:
        if old is None:
            os.environ.pop("VERIF_ORNG_SEED", None)
        else:
            os.environ["VERIF_ORNG_SEED"] = old


def smc_kwargs(cfg):
    kw = dict(sampler="smc", n_samples=cfg.get("n_samples", 12), sampler_kwargs={"n_steps": cfg.get("kernel_steps", 2)})
    for k in ("n_final_samples", "adaptive", "n_steps", "min_step", "max_n_steps", "target_efficiency"):
        if cfg.get(k) is not None:
            kw[k] = cfg[k]
    return kw


def result_record(samples, history=None) -> dict:
    rec = {"x": ns.to_np(samples.x), "ll": ns.to_np(samples.log_likelihood), "logZ": float(samples.log_evidence)}
    if history is not None:
        rec["beta"] = [float(b) for b in history.beta]
        rec["ratio"] = [float(b) for b in history.log_norm_ratio]
        rec["npops"] = len(history.sample_history)
    return rec
