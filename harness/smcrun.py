"""Whole-run machinery shared by the SMC properties (C05-C12, C17, C18, C20).

* GaussProposal      analytic stub proposal (a `Flow`) with its own seeded generator
* Target             user log-likelihood / log-prior with call log and fault injection
* RecRng             Generator proxy that records every `choice` (p vector, indices)
* run_smc / resume   drive the real MiniPCNSMC / EmceeSMC with the kernel doubles
* record             plain-data view of populations / history for oracles and the Lean driver
"""
from __future__ import annotations

import copy
import math
import pickle

import numpy as np

from . import ns
from .core import fh


# ----------------------------------------------------------------------------- proposal
def make_proposal(dims, mu=0.0, sigma=2.0, seed=0, xp_name="numpy", kind="gauss"):
    from aspire.flows.base import Flow

    class GaussProposal(Flow):
        """N(mu, sigma^2 I) with closed-form log-density; draws from its own generator"""

        xp = ns.get_xp(xp_name)

        def __init__(self, dims, mu=0.0, sigma=2.0, seed=0, device=None, data_transform=None, dtype=None):
            super().__init__(dims, device=device, data_transform=data_transform)
            # scalars, or one value per coordinate
            self.mu = np.broadcast_to(np.asarray(mu, dtype=float), (dims,)).copy() if isinstance(mu, (list, tuple)) else float(mu)
            self.sigma = np.broadcast_to(np.asarray(sigma, dtype=float), (dims,)).copy() if isinstance(sigma, (list, tuple)) else float(sigma)
            self.seed = seed
            self.g = np.random.default_rng(seed)
            self.n_log_prob = 0

        def _lp(self, x):
            x = ns.to_np(x)
            x = x.reshape(-1, self.dims) if x.ndim != 2 else x
            if kind == "uniform":      # compact support: log q = -inf outside the box mu +- sigma
                inb = np.all(np.abs(x - self.mu) <= self.sigma, axis=-1)
                return np.where(inb, -float(np.sum(np.log(2 * np.broadcast_to(self.sigma, (self.dims,))))), -np.inf)
            return (-0.5 * ((x - self.mu) / self.sigma) ** 2 - np.log(self.sigma) - 0.5 * math.log(2 * math.pi)).sum(-1)

        def log_prob(self, x):
            self.n_log_prob += 1
            return self.xp.asarray(self._lp(x))

        def sample_and_log_prob(self, n):
            if kind == "uniform":
                x = self.mu + self.sigma * self.g.uniform(-1, 1, size=(n, self.dims))
                return self.xp.asarray(x), self.xp.asarray(self._lp(x))
            x = self.mu + self.sigma * self.g.normal(size=(n, self.dims))
            return self.xp.asarray(x), self.xp.asarray(self._lp(x))

        def sample(self, n):
            return self.sample_and_log_prob(n)[0]

        def fit(self, x, **kw):
            from aspire.history import FlowHistory

            return FlowHistory()

    return GaussProposal(dims, mu=mu, sigma=sigma, seed=seed)


# ----------------------------------------------------------------------------- target
class Fault(Exception):
    """injected interruption (raised from the user's likelihood / prior)"""


class FaultInterrupt(KeyboardInterrupt):
    """the same interruption arriving as a KeyboardInterrupt (Ctrl-C, a scheduler's SIGINT): not an `Exception` subclass,
    so code that treats it specially (or only handles `Exception`) behaves differently"""


FAULTS = (Fault, FaultInterrupt)


class Target:
    """Gaussian likelihood N(center, width^2 I) and a flat prior on the box [-half, half]^d.

    Logs every call; raises `Fault` at the `fault_at`-th likelihood call (0-based) or
    `fault_prior_at`-th prior call when set."""

    def __init__(self, dims, center=1.0, width=0.5, half=10.0, nan_outside=False, peaked=None, like_cut=None, offset=0.0):
        # `center` and `half` may be given per coordinate (a box with different sides, a mode off the diagonal)
        self.dims, self.width = dims, width
        self.center = np.asarray(center, dtype=float) if isinstance(center, (list, tuple)) else center
        self.half = np.asarray(half, dtype=float) if isinstance(half, (list, tuple)) else half
        self.offset = float(offset)   # constant added to the log-likelihood (an unnormalised likelihood: log L ~ -1e5 or +3e3)
        self.like_cut = like_cut      # log-likelihood is -inf where x[0] < like_cut (zero-weight particles)
        self.nan_outside = nan_outside
        self.calls = []          # ("P"|"L", n_points, prior_attached, prior_matches, xhash)
        self.n_like = 0
        self.n_prior = 0
        self.points_like = 0
        self.fault_at = None
        self.fault_prior_at = None
        self.fault_exc = Fault
        self.memo = None      # dict: the likelihood memoises (returns the very array it returned before for the same points)
        self.pole = None      # a point at which the likelihood has an integrable singularity: log L = +inf exactly there

    def _np(self, x):
        x = ns.to_np(x)
        return x.reshape(-1, self.dims) if x.ndim != 2 else x

    def prior_np(self, x):
        x = self._np(x)
        inb = np.all(np.abs(x) <= self.half, axis=-1)
        return np.where(inb, -float(np.sum(np.log(2 * np.broadcast_to(np.asarray(self.half, dtype=float), (self.dims,))))), -np.inf)

    def like_np(self, x):
        x = self._np(x)
        v = -0.5 * np.sum((x - self.center) ** 2, axis=-1) / self.width ** 2 + self.offset
        if self.nan_outside:
            v = np.where(np.all(np.abs(x) <= self.half, axis=-1), v, np.nan)
        if self.like_cut is not None:
            v = np.where(x[:, 0] < self.like_cut, -np.inf, v)
        if self.pole is not None:
            v = np.where(np.all(x == np.asarray(self.pole).reshape(1, -1), axis=-1), np.inf, v)
        return v

    def log_prior(self, s):
        k = self.n_prior
        self.n_prior += 1
        self.calls.append(("P", len(s.x), None, None, _xh(s.x)))
        if self.fault_prior_at is not None and k == self.fault_prior_at:
            raise self.fault_exc(f"prior call {k}")
        return s.xp.asarray(self.prior_np(s.x), dtype=s.x.dtype) if not ns.ns_of(s.x) == "numpy" else self.prior_np(s.x).astype(ns.to_np_dtype(s.x))

    def log_likelihood(self, s):
        k = self.n_like
        self.n_like += 1
        n = len(s.x)
        self.points_like += n
        attached = getattr(s, "log_prior", None) is not None
        matches = None
        if attached:
            lp = ns.to_np(s.log_prior).reshape(-1)
            ref = self.prior_np(s.x)
            matches = bool(len(lp) == len(ref) and np.allclose(lp, ref, rtol=1e-5, atol=1e-6, equal_nan=True))
        self.calls.append(("L", n, attached, matches, _xh(s.x)))
        if self.fault_at is not None and k == self.fault_at:
            raise self.fault_exc(f"likelihood call {k}")
        if self.memo is not None:
            key = (n, _xh(s.x))
            if key in self.memo:
                return self.memo[key]
        v = self.like_np(s.x)
        out = s.xp.asarray(v, dtype=s.x.dtype) if not ns.ns_of(s.x) == "numpy" else v.astype(ns.to_np_dtype(s.x))
        if self.memo is not None:
            self.memo[key] = out
        return out


def _xh(x):
    a = ns.to_np(x)
    return hash(a.tobytes()) & 0xFFFFFFFF


# ----------------------------------------------------------------------------- rng proxy
class RecRng:
    """numpy Generator proxy recording `choice` calls; exposes `bit_generator` so that the
    sampler checkpoints and restores the underlying state."""

    def __init__(self, seed):
        self._g = np.random.default_rng(seed)
        self.choices = []
        self.uniform_draws = []

    @property
    def bit_generator(self):
        return self._g.bit_generator

    def choice(self, a, size=None, replace=True, p=None, **kw):
        idx = self._g.choice(a, size=size, replace=replace, p=p, **kw)
        self.choices.append({"a": int(a) if np.isscalar(a) else len(a), "size": size, "replace": bool(replace),
                             "p": None if p is None else np.asarray(p, dtype=float).copy(), "idx": np.asarray(idx).copy()})
        return idx

    def integers(self, low, high=None, size=None, **kw):
        # a uniform draw of indices: recorded apart (kernels may draw integers for their own purposes); a reader that expects a
        # weighted selection reads it as one over `high - low` items with equal probabilities
        idx = self._g.integers(low, high, size=size, **kw)
        lo_, hi_ = (0, low) if high is None else (low, high)
        if np.isscalar(lo_) and np.isscalar(hi_):
            self.uniform_draws.append({"a": int(hi_) - int(lo_), "low": int(lo_), "size": size, "replace": True,
                                       "p": np.full(max(int(hi_) - int(lo_), 0), 1.0 / max(int(hi_) - int(lo_), 1)), "idx": np.asarray(idx).copy()})
        return idx

    def __getattr__(self, k):
        return getattr(self._g, k)


# ----------------------------------------------------------------------------- runs
DEFAULT = dict(sampler="minipcn_smc", ns="numpy", width="f64", dims=2, n_samples=24, adaptive=True, n_steps=None,
               min_step=None, max_n_steps=None, target_efficiency=0.5, target_efficiency_rate=1.0,
               n_final_samples=None, kernel_steps=3, seed=1, prop_sigma=2.0, prop_mu=0.0,
               like_width=0.5, like_center=1.0, half=10.0, precond=None, checkpoint_every=None, like_cut=None, like_offset=0.0)


def make_sampler(cfg: dict, target: Target, rng=None):
    cfg = {**DEFAULT, **cfg}
    xp = ns.get_xp(cfg["ns"])
    dt = ns.native_dtype(cfg["ns"], cfg["width"])
    flow = make_proposal(cfg["dims"], mu=cfg["prop_mu"], sigma=cfg["prop_sigma"], seed=cfg["seed"] + 17, xp_name=cfg["ns"],
                         kind=cfg.get("prop_kind", "gauss"))
    params = [f"p{i}" for i in range(cfg["dims"])]
    transform = None
    if cfg.get("precond"):
        from aspire.transforms import CompositeTransform

        pc = dict(cfg["precond"])
        bounds = {p: [-h_, h_] for p, h_ in zip(params, np.broadcast_to(np.asarray(cfg["half"], dtype=float), (cfg["dims"],)).tolist())}
        transform = CompositeTransform(parameters=params, prior_bounds=bounds, xp=xp, dtype=dt,
                                       periodic_parameters=[params[i] for i in pc.pop("periodic", [])], **pc)
    if cfg["sampler"] in ("minipcn_smc", "smc"):
        from aspire.samplers.smc.minipcn import MiniPCNSMC as K
        s = K(log_likelihood=target.log_likelihood, log_prior=target.log_prior, dims=cfg["dims"], prior_flow=flow,
              xp=xp, dtype=dt, parameters=params, preconditioning_transform=transform)
    elif cfg["sampler"] == "emcee_smc":
        from aspire.samplers.smc.emcee import EmceeSMC as K
        s = K(log_likelihood=target.log_likelihood, log_prior=target.log_prior, dims=cfg["dims"], prior_flow=flow,
              xp=xp, dtype=dt, parameters=params, preconditioning_transform=transform)
    else:
        raise ValueError(cfg["sampler"])
    return s, flow


def sample_kwargs(cfg: dict, rng, **extra):
    cfg = {**DEFAULT, **cfg}
    kw = dict(n_steps=cfg["n_steps"], adaptive=cfg["adaptive"], target_efficiency=cfg["target_efficiency"],
              target_efficiency_rate=cfg["target_efficiency_rate"], n_final_samples=cfg["n_final_samples"])
    if cfg["sampler"] in ("minipcn_smc", "smc"):
        kw.update(min_step=cfg["min_step"], max_n_steps=cfg["max_n_steps"], rng=rng,
                  sampler_kwargs={"n_steps": cfg["kernel_steps"]})
        if cfg.get("final_kernel_steps") is not None:
            # a different number of kernel steps for the final enlargement (a documented key of sampler_kwargs)
            kw["sampler_kwargs"]["n_final_steps"] = cfg["final_kernel_steps"]
    else:
        kw.update(sampler_kwargs={"nsteps": cfg["kernel_steps"], "progress": False})
        if cfg.get("emcee_moves"):
            # user-supplied proposal moves (an option of emcee.EnsembleSampler that aspire forwards)
            kw["sampler_kwargs"]["moves"] = [("stretch", 0.8), ("differential-evolution", 0.2)]
    if cfg["checkpoint_every"] is not None:
        kw["checkpoint_every"] = cfg["checkpoint_every"]
    kw.update(extra)
    return kw


class Timeout(Exception):
    pass


def run_smc(cfg: dict, fault_at=None, fault_prior_at=None, watchdog_iters=400, reuse=None, **extra):
    """one call of sampler.sample; returns dict(status, samples, sampler, target, rng, exc, ckpts).
    `reuse=<result of an earlier run_smc>`: the SAME sampler object (and target, proposal) serves another `sample()` call with the
    options of `cfg` (a sampler object may be used for several runs; every run must behave like a run on a fresh object)."""
    cfg = {**DEFAULT, **cfg}
    if reuse is not None:
        target = reuse["target"]
        target.n_like = target.n_prior = target.points_like = 0
        target.calls.clear()
    else:
        target = Target(cfg["dims"], center=cfg["like_center"], width=cfg["like_width"], half=cfg["half"], like_cut=cfg["like_cut"],
                        offset=cfg.get("like_offset", 0.0))
    target.fault_at, target.fault_prior_at = fault_at, fault_prior_at
    target.fault_exc = FaultInterrupt if cfg.get("fault_kind") == "interrupt" else Fault
    rng = RecRng(cfg["seed"])
    if cfg["sampler"] == "emcee_smc":
        np.random.seed(cfg["seed"])
    if reuse is not None:
        sampler, flow = reuse["sampler"], reuse["flow"]
        sampler.mutate, sampler.log_prob = reuse["_orig_mutate"], reuse["_orig_log_prob"]     # drop the previous run's wrappers
        if hasattr(flow, "g"):
            flow.g = np.random.default_rng(cfg["seed"] + 17)        # the proposal's own explicit source, as for a fresh object
    else:
        sampler, flow = make_sampler(cfg, target)
    ckpts = []
    cb = extra.pop("record_checkpoints", False)
    kw = sample_kwargs(cfg, rng, **extra)
    if cb:
        def callback(state):
            sampler.default_checkpoint_callback(state)
            ckpts.append({"bytes": sampler.last_checkpoint_bytes, "iteration": state["iteration"],
                          "n_like_at": target.n_like, "state": state})
        kw["checkpoint_callback"] = callback
    # watchdog: a run that would spin forever is cut by counting kernel invocations
    orig_mutate = sampler.mutate
    count = {"n": 0}

    # trace of what the kernel is handed: for every call of `mutate` the temperature the population carries, the temperature
    # argument, and the temperature of every target evaluation (`log_prob(z, beta)`) made while that call is active
    trace = []
    orig_log_prob = sampler.log_prob

    def traced_log_prob(z, beta=None, *a, **k):
        if trace and trace[-1]["active"]:
            trace[-1]["target_betas"].append(None if beta is None else float(beta))
        return orig_log_prob(z, beta, *a, **k) if beta is not None or cfg["sampler"] in ("minipcn_smc", "smc", "emcee_smc") else orig_log_prob(z, *a, **k)

    sampler.log_prob = traced_log_prob

    def guarded(*a, **k):
        count["n"] += 1
        if count["n"] > watchdog_iters:
            raise Timeout(f"more than {watchdog_iters} iterations")
        particles = a[0] if a else k.get("particles")
        beta_arg = a[1] if len(a) > 1 else k.get("beta")
        rec = {"pop_beta": None if getattr(particles, "beta", None) is None else float(particles.beta),
               "beta_arg": None if beta_arg is None else float(beta_arg), "n": len(particles.x), "target_betas": [], "active": True}
        trace.append(rec)
        try:
            return orig_mutate(*a, **k)
        finally:
            rec["active"] = False

    sampler.mutate = guarded
    out = {"cfg": cfg, "sampler": sampler, "target": target, "rng": rng, "flow": flow, "ckpts": ckpts, "kernel_calls": count,
           "mutate_trace": trace, "_orig_mutate": orig_mutate, "_orig_log_prob": orig_log_prob}
    try:
        out["samples"] = sampler.sample(cfg["n_samples"], **kw)
        out["status"] = "done"
    except FAULTS as e:
        out["status"], out["exc"] = "fault", e
    except Timeout as e:
        out["status"], out["exc"] = "timeout", e
    except Exception as e:  # noqa
        out["status"], out["exc"] = "raised", e
    return out


def collapsed_population(res) -> bool:
    """The library rejected the run itself ("... contains NaN values") because the resampled population collapsed onto a single
    point, so that the affine preconditioning was fitted with a zero standard deviation.  Confirmed from the sampler's own state
    (an affine stage whose fitted std holds a zero), never from the message alone.  Such a run is outside every property that
    speaks about the results of a run; it is counted, not failed."""
    exc = res.get("exc")
    if res.get("status") != "raised" or not isinstance(exc, ValueError) or "contains NaN values" not in str(exc):
        return False
    tr = getattr(res.get("sampler"), "preconditioning_transform", None)
    aff = getattr(tr, "_affine_transform", None)
    std = getattr(aff, "_std", None)
    if std is None:
        return False
    try:
        return bool(np.any(ns.to_np(std) == 0))
    except Exception:  # noqa
        return False


def resume_smc(cfg: dict, source, watchdog_iters=400, **extra):
    """fresh sampler + same arguments + same seeds, resume_from=source"""
    return run_smc(cfg, watchdog_iters=watchdog_iters, resume_from=source, **extra)


# ----------------------------------------------------------------------------- records
def pop_record(s) -> dict:
    return {"x": ns.to_np(s.x), "ll": ns.to_np(s.log_likelihood), "lp": ns.to_np(s.log_prior),
            "lq": ns.to_np(s.log_q), "beta": None if getattr(s, "beta", None) is None else float(s.beta),
            "ns": ns.ns_of(s.x), "width": ns.width_of(s.x)}


def history_record(h) -> dict:
    f = lambda l: [float(np.asarray(ns.to_np(v)).reshape(-1)[0]) for v in l]
    return {"beta": f(h.beta), "ess": f(h.ess), "ess_target": f(h.ess_target), "eff_target": f(h.eff_target),
            "ratio": f(h.log_norm_ratio), "var": f(h.log_norm_ratio_var), "accept": f(h.mcmc_acceptance),
            "pops": [pop_record(p) for p in h.sample_history]}


def pop_wire(p: dict, beta=None) -> str:
    n, d = p["x"].shape
    b = p["beta"] if beta is None else beta
    toks = [str(n), str(d)] + [fh(v) for v in p["x"].reshape(-1)]
    for c in ("ll", "lp", "lq"):
        toks += [fh(v) for v in p[c]]
    toks.append(fh(0.0 if b is None else b))
    return " ".join(toks)


def beta_cfg_wire(cfg: dict, tol=1e-6) -> str:
    cfg = {**DEFAULT, **cfg}
    te = cfg["target_efficiency"]
    ramp = not isinstance(te, float)
    lo, hi = (te, te) if not ramp else (float(te[0]), float(te[1]))
    ams = cfg["min_step"] is None and cfg["max_n_steps"] is not None
    return " ".join(["1" if cfg["adaptive"] else "0", "1" if ams else "0", fh(tol), fh(lo), fh(hi),
                     "1" if ramp else "0", fh(cfg["target_efficiency_rate"])])


def min_step0(cfg: dict) -> float:
    cfg = {**DEFAULT, **cfg}
    if cfg["min_step"] is None:
        return 0.0 if cfg["max_n_steps"] is None else 1 / cfg["max_n_steps"]
    return float(cfg["min_step"])


def beta_step(cfg: dict) -> float:
    cfg = {**DEFAULT, **cfg}
    return 1 / cfg["n_steps"] if cfg["n_steps"] is not None else float("nan")


ROUTES = ("bytes", "dict", "pkl", "h5")


def make_source(res, route: str, tmpdir: str):
    """the last checkpoint of an interrupted run in one of the documented forms"""
    import os

    if not res["ckpts"]:
        return None
    ck = res["ckpts"][-1]
    if route == "bytes":
        return ck["bytes"]
    if route == "dict":
        return ck["state"]            # the live dictionary handed to the callback
    if route == "pkl":
        p = os.path.join(tmpdir, f"ck_{id(ck)}.pkl")
        with open(p, "wb") as f:
            f.write(ck["bytes"])
        return p
    if route == "h5":
        from aspire.utils import AspireFile

        p = os.path.join(tmpdir, f"ck_{id(ck)}.h5")
        with AspireFile(p, "a") as h5:
            res["sampler"].save_checkpoint_to_hdf(ck["state"], h5, path="checkpoint", dsetname="state")
        return p
    raise ValueError(route)


def run_sampler(cfg: dict, fault_at=None):
    """importance / minipcn / emcee (plain MCMC) samplers with the same target + proposal machinery"""
    cfg = {**DEFAULT, **cfg}
    if cfg["sampler"] in ("minipcn_smc", "smc", "emcee_smc"):
        return run_smc(cfg, fault_at=fault_at, record_checkpoints=cfg.get("record_checkpoints", False))
    target = Target(cfg["dims"], center=cfg["like_center"], width=cfg["like_width"], half=cfg["half"], like_cut=cfg["like_cut"])
    target.fault_at = fault_at
    xp = ns.get_xp(cfg["ns"])
    dt = ns.native_dtype(cfg["ns"], cfg["width"])
    flow = make_proposal(cfg["dims"], mu=cfg["prop_mu"], sigma=cfg["prop_sigma"], seed=cfg["seed"] + 17, xp_name=cfg["ns"],
                         kind=cfg.get("prop_kind", "gauss"))
    params = [f"p{i}" for i in range(cfg["dims"])]
    transform = None
    if cfg.get("precond"):
        from aspire.transforms import CompositeTransform

        pc = dict(cfg["precond"])
        bounds = {p: [-h_, h_] for p, h_ in zip(params, np.broadcast_to(np.asarray(cfg["half"], dtype=float), (cfg["dims"],)).tolist())}
        transform = CompositeTransform(parameters=params, prior_bounds=bounds, xp=xp, dtype=dt,
                                       periodic_parameters=[params[i] for i in pc.pop("periodic", [])], **pc)
    common = dict(log_likelihood=target.log_likelihood, log_prior=target.log_prior, dims=cfg["dims"], prior_flow=flow, xp=xp,
                  dtype=dt, parameters=params, preconditioning_transform=transform)
    rng = RecRng(cfg["seed"])
    out = {"cfg": cfg, "target": target, "flow": flow, "rng": rng, "ckpts": []}
    try:
        if cfg["sampler"] == "importance":
            from aspire.samplers.importance import ImportanceSampler

            s = ImportanceSampler(**common)
            out["sampler"] = s
            out["samples"] = s.sample(cfg["n_samples"])
        elif cfg["sampler"] == "minipcn":
            from aspire.samplers.mcmc import MiniPCN

            s = MiniPCN(**common)
            out["sampler"] = s
            out["samples"] = s.sample(cfg["n_samples"], rng=rng, n_steps=cfg["kernel_steps"] + 2)
        elif cfg["sampler"] == "emcee":
            from aspire.samplers.mcmc import Emcee

            np.random.seed(cfg["seed"])
            s = Emcee(**common)
            out["sampler"] = s
            out["samples"] = s.sample(cfg["n_samples"], nsteps=cfg["kernel_steps"] + 2)
        else:
            raise ValueError(cfg["sampler"])
        out["status"] = "done"
    except FAULTS as e:
        out["status"], out["exc"] = "fault", e
    except Exception as e:   # noqa
        out["status"], out["exc"] = "raised", e
    return out
