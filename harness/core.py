"""Shared machinery of the aspire verification harness (see /verif/DESIGN.md section 3).

* LeanDriver      – line protocol to the executable Lean model (`lake env lean --run Main.lean`)
* proof_audit     – `lake build` of the property module, `#print axioms` on every property theorem,
                    grep for forbidden constructs
* Check           – bookkeeping of cases / disagreements / oracle failures, known-findings matcher,
                    verdict logic, evidence writer
"""
from __future__ import annotations

import hashlib
import json
import math
import os
import random
import re
import struct
import subprocess
import sys
import tempfile
import time
from pathlib import Path

VERIF = Path(__file__).resolve().parent.parent
LEAN = VERIF / "lean"
EVIDENCE = VERIF / "evidence"
REPLAYS = VERIF / "replays"
STUBS = VERIF / "harness" / "stubs"
ALLOWED_AXIOMS = {"propext", "Classical.choice", "Quot.sound"}
FORBIDDEN = re.compile(
    r"\b(sorry|admit|native_decide|bv_decide|implemented_by|unsafe)\b|^\s*axiom\s|maxHeartbeats\s+0\b",
    re.M,
)


# ----------------------------------------------------------------------------- floats on the wire
def fh(x) -> str:
    """float -> 16 hex digits of its IEEE-754 binary64 bit pattern"""
    return "%016x" % struct.unpack("<Q", struct.pack("<d", float(x)))[0]


def hf(s: str) -> float:
    return struct.unpack("<d", struct.pack("<Q", int(s, 16)))[0]


def fl(xs) -> str:
    """length-prefixed float list"""
    xs = [float(v) for v in xs]
    return " ".join([str(len(xs))] + [fh(v) for v in xs])


class Reply:
    """token cursor over one reply line of the driver"""

    def __init__(self, line: str):
        self.raw = line
        toks = line.split()
        self.ok = bool(toks) and toks[0] == "ok"
        self.err = " ".join(toks[1:]) if not self.ok else None
        self.t = toks[1:]
        self.i = 0

    def tok(self):
        v = self.t[self.i]
        self.i += 1
        return v

    def f(self):
        return hf(self.tok())

    def n(self):
        return int(self.tok())

    def fs(self):
        return [self.f() for _ in range(self.n())]

    def ns(self):
        return [self.n() for _ in range(self.n())]

    def bs(self):
        return [self.tok() == "1" for _ in range(self.n())]

    def rest(self):
        return self.t[self.i:]


class LeanDriver:
    """Runs the executable Lean model.  `batch(lines)` pipes all request lines and returns the replies."""

    def __init__(self):
        self.cmd = ["lake", "env", "lean", "--run", "Main.lean"]
        self.calls = 0

    def batch(self, lines: list[str], timeout=600) -> list[Reply]:
        if not lines:
            return []
        for l in lines:
            assert "\n" not in l
        p = subprocess.run(
            self.cmd, cwd=LEAN, input="\n".join(lines) + "\n", capture_output=True, text=True, timeout=timeout
        )
        out = [l for l in p.stdout.split("\n") if l.startswith(("ok", "err"))]
        if p.returncode != 0 or len(out) != len(lines):
            raise HarnessError(
                f"Lean driver failed: rc={p.returncode} got {len(out)} replies for {len(lines)} requests\n"
                f"stdout tail: {p.stdout[-2000:]}\nstderr tail: {p.stderr[-2000:]}"
            )
        self.calls += len(lines)
        return [Reply(l) for l in out]

    def ask(self, line: str) -> Reply:
        return self.batch([line])[0]


class HarnessError(Exception):
    """infrastructure failure: exit 2, never a VIOLATION"""


# ----------------------------------------------------------------------------- proof audit
def lake_build(targets: list[str] | None = None, timeout=3000):
    cmd = ["lake", "build"] + (targets or [])
    t0 = time.time()
    p = subprocess.run(cmd, cwd=LEAN, capture_output=True, text=True, timeout=timeout)
    return p.returncode == 0, (p.stdout + p.stderr)[-6000:], time.time() - t0


def property_modules(pid: str) -> list[str]:
    """Props/<pid>.lean plus continuation files Props/<pid><Suffix>.lean (suffix starting with a letter)."""
    d = LEAN / "AspireModel" / "Props"
    stems = [f.stem for f in sorted(d.glob(f"{pid}*.lean")) if f.stem == pid or f.stem[len(pid)].isalpha()]
    if pid not in stems:
        raise FileNotFoundError(pid)
    return stems


def property_theorems(pid: str) -> list[str]:
    """Fully qualified names of the theorems declared in Props/<pid>*.lean (tracks nested namespaces)."""
    src = "\n".join((LEAN / "AspireModel" / "Props" / f"{m}.lean").read_text() for m in property_modules(pid))
    src_nc = strip_lean_comments(src)
    stack, names = [], []
    for line in src_nc.split("\n"):
        m = re.match(r"^\s*namespace\s+([A-Za-z_][A-Za-z0-9_'.]*)", line)
        if m:
            stack.append(m.group(1))
            continue
        m = re.match(r"^\s*end\s+([A-Za-z_][A-Za-z0-9_'.]*)\s*$", line)
        if m and stack and stack[-1] == m.group(1):
            stack.pop()
            continue
        m = re.match(r"^\s*(?:@\[[^\]]*\]\s*)?(?:private\s+|protected\s+)?theorem\s+([^\s:({\[]+)", line)
        if m:
            names.append(".".join(stack + [m.group(1)]))
    return names


def strip_lean_comments(src: str) -> str:
    # nested block comments
    out, depth, i = [], 0, 0
    while i < len(src):
        if src.startswith("/-", i):
            depth += 1
            i += 2
        elif src.startswith("-/", i) and depth > 0:
            depth -= 1
            i += 2
        elif depth > 0:
            if src[i] == "\n":
                out.append("\n")
            i += 1
        else:
            out.append(src[i])
            i += 1
    s = "".join(out)
    return re.sub(r"--.*", "", s)


def forbidden_hits() -> list[str]:
    hits = []
    for f in sorted((LEAN).rglob("*.lean")):
        if ".lake" in f.parts:
            continue
        s = strip_lean_comments(f.read_text())
        for m in FORBIDDEN.finditer(s):
            line = s.count("\n", 0, m.start()) + 1
            hits.append(f"{f.relative_to(LEAN)}:{line}: {m.group(0).strip()}")
    return hits


def proof_audit(pid: str, leanchecker: bool = False) -> dict:
    """Build Props/<pid> and audit the axioms of each of its theorems."""
    res = {"theorems": [], "discharged": [], "failed": [], "build_ok": False, "log": "", "forbidden": []}
    try:
        targets = [f"AspireModel.Props.{m}" for m in property_modules(pid)]
    except FileNotFoundError:
        targets = [f"AspireModel.Props.{pid}"]
    ok, log, dt = lake_build(targets + ["AspireModel.Driver"])
    res["build_ok"] = ok
    res["build_s"] = round(dt, 2)
    if not ok:
        res["log"] = log
    try:
        thms = property_theorems(pid)
    except FileNotFoundError:
        thms = []
    res["theorems"] = thms
    res["forbidden"] = forbidden_hits()
    if not ok or not thms:
        res["failed"] = thms
        return res
    audit_dir = LEAN / ".lake" / "audit"
    audit_dir.mkdir(parents=True, exist_ok=True)
    af = audit_dir / f"Audit_{pid}.lean"
    af.write_text("".join(f"import AspireModel.Props.{m}\n" for m in property_modules(pid)) + "".join(f"#print axioms {t}\n" for t in thms))
    p = subprocess.run(["lake", "env", "lean", str(af)], cwd=LEAN, capture_output=True, text=True, timeout=1800)
    text = p.stdout + p.stderr
    # parse: "'C02.foo' depends on axioms: [a, b]"  or "'C02.foo' does not depend on any axioms"
    seen = {}
    for m in re.finditer(r"^'([^\n]+?)' depends on axioms:\s*\[([^\]]*)\]", text, re.S | re.M):
        seen[m.group(1)] = {a.strip() for a in m.group(2).replace("\n", " ").split(",") if a.strip()}
    for m in re.finditer(r"^'([^\n]+?)' does not depend on any axioms", text, re.M):
        seen[m.group(1)] = set()
    res["axioms"] = {k: sorted(v) for k, v in seen.items()}
    for t in thms:
        if t in seen and seen[t] <= ALLOWED_AXIOMS:
            res["discharged"].append(t)
        else:
            res["failed"].append(t)
    if res["failed"]:
        res["log"] = text[-4000:]
    if leanchecker:
        q = subprocess.run(["lake", "env", "leanchecker"] + [f"AspireModel.Props.{m}" for m in property_modules(pid)], cwd=LEAN, capture_output=True, text=True, timeout=3000)
        res["leanchecker_ok"] = q.returncode == 0
        res["leanchecker_log"] = (q.stdout + q.stderr)[-1500:]
    return res


# ----------------------------------------------------------------------------- tie to the source by translation
def _lean_imports(text: str) -> list[str]:
    return re.findall(r"^import\s+AspireModel\.([A-Za-z0-9_.]+)\s*$", text, re.M)


def _enclosing_decl(text: str, line: int) -> str | None:
    name = None
    for i, l in enumerate(text.split("\n"), 1):
        m = re.match(r"^\s*(?:theorem|lemma|def|noncomputable def|example)\s+([^\s:({\[]+)", l)
        if m:
            if i > line:
                break
            name = m.group(1)
    return name


def tie_audit(pid: str) -> dict | None:
    """Regenerate the Lean translation of the numeric source functions from the aspire package the check imports and
    make sure the tie theorems of this property (Props/<pid>Tie.lean: translated source = model) still check.

    When the regenerated definitions are identical to the files under lean/AspireModel/Gen (which `lake build` compiled),
    the ordinary build + axiom audit of Props/<pid>Tie covers it.  Otherwise the changed modules and everything of this
    property that depends on them are compiled in a scratch directory (never in /verif/lean), shadowing the built ones."""
    try:
        mods = [m for m in property_modules(pid) if m.endswith("Tie")]
    except FileNotFoundError:
        return None
    if not mods:
        return None
    from .translate import py2lean, specs

    t0 = time.time()
    src = specs.repo_src()
    texts, rep = py2lean.generate(src, specs.GROUPS, specs.SPECS, specs.CLASSES)
    gen_dir = LEAN / "AspireModel" / "Gen"
    changed = [m for m, t in texts.items() if not (gen_dir / f"{m}.lean").exists() or (gen_dir / f"{m}.lean").read_text() != t]
    res = {
        "source": str(src), "tie_modules": mods, "translated": sorted(rep["functions"]), "untranslatable": rep["failed"],
        "skipped_statements": {k: v["notes"] for k, v in rep["functions"].items() if v["notes"]},
        "changed_generated_modules": changed, "ok": True, "failing": [], "mode": "identical to the built translation",
    }
    if not changed:
        res["wall_s"] = round(time.time() - t0, 2)
        return res
    # module graph of this property's tie modules
    root = LEAN / "AspireModel"

    def text_of(mod: str) -> str:
        if mod.startswith("Gen.") and mod[4:] in texts:
            return texts[mod[4:]]
        return (root / (mod.replace(".", "/") + ".lean")).read_text()

    graph: dict[str, list[str]] = {}

    def visit(mod):
        if mod in graph:
            return
        graph[mod] = _lean_imports(text_of(mod))
        for d in graph[mod]:
            visit(d)

    for m in mods:
        visit(f"Props.{m}")
    dirty: dict[str, bool] = {}

    def is_dirty(mod):
        if mod not in dirty:
            dirty[mod] = (mod.startswith("Gen.") and mod[4:] in changed) or any(is_dirty(d) for d in graph[mod])
        return dirty[mod]

    order, seen = [], set()

    def topo(mod):
        if mod in seen:
            return
        seen.add(mod)
        for d in graph[mod]:
            topo(d)
        if is_dirty(mod):
            order.append(mod)

    for m in mods:
        topo(f"Props.{m}")
    res["mode"] = "source differs from the built translation: recompiled in a scratch directory"
    res["recompiled"] = order
    scratch = Path(tempfile.mkdtemp(prefix=f"verif_tie_{pid}_"))
    try:
        out = scratch / "out"
        # Lean resolves a package (`AspireModel`) in the FIRST search-path entry that has it, so the scratch root mirrors
        # the built library with symbolic links, except for the modules that are recompiled here
        built = LEAN / ".lake" / "build" / "lib" / "lean"
        skip = {built / "AspireModel" / (m.replace(".", "/")) for m in order}
        for f in (built / "AspireModel").rglob("*"):
            rel = f.relative_to(built)
            if f.is_dir():
                (out / rel).mkdir(parents=True, exist_ok=True)
            elif f.with_suffix("") not in skip and not any(str(f).startswith(str(k) + ".") for k in skip):
                (out / rel).parent.mkdir(parents=True, exist_ok=True)
                os.symlink(f, out / rel)
        env = dict(os.environ, LEAN_PATH=str(out))
        broken: set[str] = set()
        for mod in order:
            if any(d in broken for d in graph[mod]):
                broken.add(mod)
                res["failing"].append({"module": mod, "reason": "depends on a module that no longer compiles"})
                continue
            srcf = scratch / "src" / "AspireModel" / (mod.replace(".", "/") + ".lean")
            srcf.parent.mkdir(parents=True, exist_ok=True)
            srcf.write_text(text_of(mod))
            olean = out / "AspireModel" / (mod.replace(".", "/") + ".olean")
            olean.parent.mkdir(parents=True, exist_ok=True)
            p = subprocess.run(["lean", str(srcf), "-o", str(olean)], env=env, cwd=scratch / "src", capture_output=True, text=True, timeout=1800)
            if p.returncode != 0:
                broken.add(mod)
                msg = p.stdout + p.stderr
                decls = []
                for m_ in re.finditer(r":(\d+):\d+: error", msg):
                    d = _enclosing_decl(text_of(mod), int(m_.group(1)))
                    if d and d not in decls:
                        decls.append(d)
                res["failing"].append({"module": mod, "declarations": decls, "log": msg[-2500:]})
        res["ok"] = not broken
    finally:
        import shutil

        shutil.rmtree(scratch, ignore_errors=True)
    res["wall_s"] = round(time.time() - t0, 2)
    return res


# ----------------------------------------------------------------------------- known findings
def load_known_findings(pid: str):
    f = VERIF / "known_findings.json"
    if not f.exists():
        return []
    data = json.loads(f.read_text())
    return [e for e in data.get("findings", []) if e["property"] == pid]


# ----------------------------------------------------------------------------- the check object
class Check:
    """One run of one property's check."""

    def __init__(self, pid: str, tier: str, seed: int, level: str = "proof"):
        self.pid, self.tier, self.seed, self.level = pid, tier, seed, level
        self.t0 = time.time()
        self.rng = random.Random(seed * 1000003 + int(pid[1:]))
        self.evaluations = 0
        self.nontrivial_keys: set[str] = set()
        self.samples: list = []
        self.distribution: dict = {}
        self.disagreements: list[dict] = []   # model vs implementation
        self.failures: list[dict] = []        # property oracle failed on the implementation
        self.known_hits: dict[str, int] = {}
        self.knife_edge = 0
        self.notes: list[str] = []
        self.trusted: list[str] = []
        self.assumptions: list[str] = []
        self.extra: dict = {}
        self.rule = ""
        self.known = [e for e in load_known_findings(pid) if e.get("status") == "known"]
        self.matchers = {}
        self.exhaustive = False

    # -- bookkeeping
    def count(self, key: str, k: int = 1):
        self.distribution[key] = self.distribution.get(key, 0) + k

    def case(self, desc, nontrivial_key: str | None = None):
        """register one explored case; `nontrivial_key` identifies distinct non-trivial cases"""
        self.evaluations += 1
        if nontrivial_key is not None:
            self.nontrivial_keys.add(hashlib.sha1(nontrivial_key.encode()).hexdigest()[:16])
        if len(self.samples) < 6 and desc is not None:
            self.samples.append(desc)

    def disagree(self, op: str, case: dict, model, impl, detail: str = ""):
        self.disagreements.append({"op": op, "case": case, "model": model, "impl": impl, "detail": detail})

    def fail(self, clause: str, case: dict, detail: str, signature: dict | None = None):
        """the property's own statement failed on the implementation for `case`"""
        rec = {"clause": clause, "case": case, "detail": detail, "signature": signature or {}}
        for e in self.known:
            fn = self.matchers.get(e["signature"]["matcher"])
            if fn is not None and fn(rec, e["signature"]):
                self.known_hits[e["id"]] = self.known_hits.get(e["id"], 0) + 1
                return
        self.failures.append(rec)

    # -- verdict
    def finish(self, audit: dict | None, search=None, tie: dict | None = None) -> int:
        pid = self.pid
        REPLAYS.mkdir(parents=True, exist_ok=True)
        self.tie = tie
        proof_ok = bool(audit) and audit["build_ok"] and not audit["failed"] and not audit["forbidden"] and audit["theorems"]
        tie_ok = tie is None or tie["ok"]
        proof_ok = bool(proof_ok and tie_ok)
        corr_ok = not self.disagreements
        for e in self.known:
            if self.known_hits.get(e["id"]):
                print(f"KNOWN-FINDING: property={pid} {e['what_fails']} [{e['id']}; {self.known_hits[e['id']]} case(s) this run]")
        rc = 0
        replay_path = None
        if self.failures:
            replay_path = self._write_replay("oracle", self.failures[0], extra={"n_failures": len(self.failures)})
            print(f"VIOLATION property={pid} replay={replay_path}")
            rc = 1
        elif not (proof_ok and corr_ok):
            found = None
            if search is not None:
                try:
                    found = search()
                except HarnessError:
                    raise
                except Exception as exc:  # search is best effort
                    self.notes.append(f"intensified search crashed: {exc!r}")
            if found:
                replay_path = self._write_replay("oracle-after-break", found)
                print(f"VIOLATION property={pid} replay={replay_path}")
            else:
                what = {}
                if not tie_ok:
                    what["tie_to_source"] = {
                        "what": "the Lean translation of the current source no longer equals the model: these tie theorems / modules do not check",
                        "failing": tie["failing"], "untranslatable": tie["untranslatable"],
                        "changed_generated_modules": tie["changed_generated_modules"], "source": tie["source"],
                    }
                if not proof_ok and not (tie_ok is False and audit and audit["build_ok"] and not audit["failed"] and not audit["forbidden"]):
                    what["proof"] = {
                        "build_ok": audit["build_ok"] if audit else False,
                        "theorems_not_checking": audit["failed"] if audit else "no audit",
                        "forbidden_constructs": audit["forbidden"] if audit else [],
                        "log_tail": (audit or {}).get("log", "")[-3000:],
                    }
                if not corr_ok:
                    what["correspondence"] = self.disagreements[:5]
                    what["n_disagreements"] = len(self.disagreements)
                replay_path = self._write_replay("broken-tie", what)
                print(f"VIOLATION property={pid} replay={replay_path} no-failing-input-found")
            rc = 1
        self._write_evidence(audit, rc)
        if self.failures or self.disagreements:
            import collections
            print("  oracle failures by clause:", dict(collections.Counter(f["clause"] for f in self.failures)))
            print("  disagreements by op:", dict(collections.Counter(d["op"] for d in self.disagreements)))
        status = "ok" if rc == 0 else "VIOLATION"
        print(
            f"[{pid}] {status} tier={self.tier} seed={self.seed} cases={self.evaluations} "
            f"nontrivial={len(self.nontrivial_keys)} disagreements={len(self.disagreements)} "
            f"oracle_failures={len(self.failures)} known={sum(self.known_hits.values())} "
            f"theorems={len((audit or {}).get('discharged', []))}/{len((audit or {}).get('theorems', []))} "
            f"wall={time.time() - self.t0:.1f}s"
        )
        return rc

    def _write_replay(self, kind: str, payload, extra=None) -> str:
        path = REPLAYS / f"{self.pid}_{self.tier}_{self.seed}_{kind}.json"
        doc = {
            "property": self.pid, "tier": self.tier, "seed": self.seed, "kind": kind, "payload": payload,
            "replay_cmd": f"./check {self.pid} --replay {_rel(path)}",
        }
        if extra:
            doc.update(extra)
        path.write_text(json.dumps(doc, indent=1, default=_json_default))
        return _rel(path)

    def _write_evidence(self, audit, rc):
        EVIDENCE.mkdir(parents=True, exist_ok=True)
        audit = audit or {}
        cov = {
            "obligations": len(audit.get("theorems", [])),
            "discharged": len(audit.get("discharged", [])),
            "checker_cmd": f"cd lean && lake build AspireModel.Props.{self.pid} && lake env lean .lake/audit/Audit_{self.pid}.lean  (#print axioms on every theorem of Props/{self.pid}.lean)",
            "trusted_base": [
                "Lean 4.33 kernel; axioms allowed: propext, Classical.choice, Quot.sound (audited per theorem this run)",
                "correspondence harness (generators, tolerances, line-protocol driver Main.lean) ties the Lean model to /repo's working tree",
            ] + self.trusted,
            "theorems": audit.get("discharged", []),
            "theorems_failed": audit.get("failed", []),
            "axioms": audit.get("axioms", {}),
            "forbidden_constructs": audit.get("forbidden", []),
            "evaluations": self.evaluations,
            "distinct_nontrivial": len(self.nontrivial_keys),
            "rule": self.rule,
            "samples": self.samples,
            "input_distribution": self.distribution,
            "model_impl_disagreements": len(self.disagreements),
            "oracle_failures": len(self.failures),
            "known_findings_matched": self.known_hits,
            "knife_edge_skipped": self.knife_edge,
            "exhaustive": self.exhaustive,
            "notes": self.notes,
        }
        if "leanchecker_ok" in audit:
            cov["leanchecker_ok"] = audit["leanchecker_ok"]
        tie = getattr(self, "tie", None)
        if tie is not None:
            cov["source_translation"] = {k: tie[k] for k in ("source", "tie_modules", "translated", "untranslatable", "skipped_statements",
                                                            "changed_generated_modules", "mode", "ok", "wall_s") if k in tie}
            cov["source_translation"]["failing"] = [{k: v for k, v in f.items() if k != "log"} for f in tie.get("failing", [])]
            cov["trusted_base"].append(
                "source translator harness/translate/py2lean.py (Python array-API subset -> Lean over `Num`): the tie theorems "
                "Props/*Tie.lean prove `translated source = model`; the translator's reading of Python/numpy semantics is trusted "
                "and cross-checked by the behavioural correspondence")
        cov.update(self.extra)
        doc = {
            "property_id": self.pid, "tier": self.tier, "seed": self.seed, "level": self.level,
            "coverage": cov, "assumptions": self.assumptions, "wall_s": round(time.time() - self.t0, 2),
            "violations": 0 if rc == 0 else max(1, len(self.failures)),
        }
        (EVIDENCE / f"{self.pid}.json").write_text(json.dumps(doc, indent=1, default=_json_default))


def _json_default(o):
    try:
        import numpy as np

        if isinstance(o, np.ndarray):
            return o.tolist()
        if isinstance(o, (np.floating, np.integer, np.bool_)):
            return o.item()
    except Exception:
        pass
    return repr(o)


# ----------------------------------------------------------------------------- numeric comparison
def close(a: float, b: float, rtol: float, atol: float = 0.0) -> bool:
    if isinstance(a, float) and isinstance(b, float):
        if math.isnan(a) or math.isnan(b):
            return math.isnan(a) and math.isnan(b)
        if math.isinf(a) or math.isinf(b):
            return a == b
    return abs(a - b) <= atol + rtol * max(abs(a), abs(b))


def all_close(xs, ys, rtol, atol=0.0) -> bool:
    xs, ys = list(xs), list(ys)
    return len(xs) == len(ys) and all(close(float(a), float(b), rtol, atol) for a, b in zip(xs, ys))


def _rel(path) -> str:
    try:
        return str(Path(path).relative_to(VERIF))
    except ValueError:
        return str(path)


def setup_paths():
    """aspire is imported from /repo's working tree (editable install); add the kernel doubles
    only for packages that are really missing."""
    import importlib.util

    for pkg in ("minipcn", "orng", "emcee"):
        if importlib.util.find_spec(pkg) is None:
            if str(STUBS) not in sys.path:
                sys.path.append(str(STUBS))
    ep = str(VERIF / "harness" / "ep")
    if ep not in sys.path:
        sys.path.append(ep)          # entry-point stub proposal (`flow_backend="verifstub"`)
    os.environ.setdefault("ASPIRE_VERIF", "1")
    import logging
    import warnings

    warnings.filterwarnings("ignore")
    logging.getLogger("aspire").setLevel(logging.ERROR)
