"""Array-namespace helpers shared by the property modules."""
import numpy as np

_X64 = False


def enable_x64():
    global _X64
    if not _X64:
        import jax

        jax.config.update("jax_enable_x64", True)
        _X64 = True


def get_xp(name: str):
    if name == "numpy":
        import array_api_compat.numpy as xp
    elif name == "torch":
        import array_api_compat.torch as xp
    elif name == "jax":
        enable_x64()
        import jax.numpy as xp
    else:
        raise ValueError(name)
    return xp


def native_dtype(ns: str, width: str):
    if ns == "torch":
        import torch

        return {"f32": torch.float32, "f64": torch.float64}[width]
    if ns == "jax":
        enable_x64()
        import jax.numpy as jnp

        return jnp.dtype({"f32": "float32", "f64": "float64"}[width])
    return np.dtype({"f32": "float32", "f64": "float64"}[width])


def to_np(x):
    """any backend array / scalar -> float64 numpy (exact widening)"""
    if x is None:
        return None
    if hasattr(x, "detach"):
        x = x.detach().cpu().numpy()
    return np.asarray(x, dtype=np.float64)


def width_of(x) -> str:
    s = str(x.dtype)
    if "float32" in s:
        return "f32"
    if "float64" in s:
        return "f64"
    return s


def ns_of(x) -> str:
    m = type(x).__module__
    if m.startswith("torch"):
        return "torch"
    if m.startswith("jax") or "jaxlib" in m:
        return "jax"
    return "numpy"


def to_np_dtype(x):
    return np.float32 if "float32" in str(x.dtype) else np.float64
