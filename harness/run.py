"""./check Cxx [--tier quick|thorough] [--replay file]"""
import argparse
import importlib
import os
import sys
import traceback

from . import core


def main():
    ap = argparse.ArgumentParser()
    ap.add_argument("pid")
    ap.add_argument("--tier", default=os.environ.get("VERIF_TIER", "quick"), choices=["quick", "thorough"])
    ap.add_argument("--replay", default=None)
    ap.add_argument("--no-proof", action="store_true", help="development only: skip the Lean audit")
    a = ap.parse_args()
    seed = int(os.environ.get("VERIF_SEED", "0") or 0)
    pid = a.pid.upper()
    try:
        core.setup_paths()
        mod = importlib.import_module(f"harness.props.{pid.lower()}")
        chk = core.Check(pid, a.tier, seed)
        if hasattr(mod, "MATCHERS"):
            chk.matchers.update(mod.MATCHERS)
        if a.replay:
            rc = mod.replay(chk, a.replay)
            sys.exit(rc)
        audit = None
        if a.no_proof:
            core.EVIDENCE = core.VERIF / "evidence_dev"      # development runs never touch the committed evidence
            if os.environ.get("VERIF_SCRATCH_OUT"):          # mutation runs: evidence + replays go to a scratch directory
                from pathlib import Path
                core.EVIDENCE = Path(os.environ["VERIF_SCRATCH_OUT"]) / "evidence"
                core.REPLAYS = Path(os.environ["VERIF_SCRATCH_OUT"]) / "replays"
        if not a.no_proof:
            audit = core.proof_audit(pid, leanchecker=(a.tier == "thorough"))
        tie = core.tie_audit(pid)
        if tie is not None and not tie["ok"]:
            print(f"[{pid}] tie to the source broken: " + "; ".join(
                f"{f['module']}: {', '.join(f.get('declarations', [])) or f.get('reason', '')}" for f in tie["failing"]))
        search = mod.run(chk)
        rc = chk.finish(audit if not a.no_proof else _fake_ok(), search, tie=tie)
        sys.exit(rc)
    except SystemExit:
        raise
    except core.HarnessError as e:
        print(f"[{pid}] HARNESS ERROR: {e}", file=sys.stderr)
        sys.exit(2)
    except Exception:
        traceback.print_exc()
        print(f"[{pid}] HARNESS CRASH (exit 2, not a violation)", file=sys.stderr)
        sys.exit(2)


def _fake_ok():
    return {"build_ok": True, "failed": [], "forbidden": [], "theorems": ["(skipped)"], "discharged": []}


if __name__ == "__main__":
    main()
