"""C07 — adaptive temperature steps meet the ESS target and are maximal.

determine_beta on populations whose ESS curve crosses the target strictly inside the bracket
(plus the full-step and floor cases)  vs  the Lean model (Model/Schedule.lean), and the property's
clauses evaluated on the implementation's own ESS at the returned temperature and just beyond it.
Antitonicity of the ESS in the temperature increment is spot-checked on the implementation
(it is the theorem `C07.ess_antitone` about the model).
"""
from __future__ import annotations

import json

import numpy as np

from .. import core, ns
from . import c06


def gen_unit(r, i, tier):
    c = c06.gen_unit(r, i, tier)
    c["adaptive"] = True
    if c["mode"] == "fixed":
        c["mode"] = "plain"
    if i % 3 == 0:
        c["mode"] = "plain"
    c["beta"] = float(r.choice([0.0, r.uniform(0, 0.9)]))
    # make crossing populations likely: moderate spreads scaled so that the crossing is inside (beta, 1)
    if c["kind"] in ("moderate", "ties", "dominant") and r.random() < 0.7:
        s = 10 ** r.uniform(-0.5, 1.5)
        c["ll"] = (np.asarray(c["ll"]) * s).tolist()
    return c


def antitone_spot(chk, r, n_pops):
    from aspire.samples import SMCSamples
    from aspire.utils import effective_sample_size

    bad = 0
    for _ in range(n_pops):
        n = int(r.integers(2, 60))
        ll, lp, lq = c06.gen_population(r, n, str(r.choice(["moderate", "ties", "dominant", "peaked"])))
        b0 = float(r.uniform(0, 0.8))
        pop = SMCSamples(x=np.zeros((n, 1)), log_likelihood=ll, log_prior=lp, log_q=lq, beta=b0)
        ts = np.sort(r.uniform(b0, 1.0, 6))
        with np.errstate(all="ignore"):
            es = [float(effective_sample_size(pop.log_weights(float(t)))) for t in ts]
        chk.case(None, f"antitone{n}{b0}{ll[0]}")
        for (t1, e1), (t2, e2) in zip(zip(ts, es), zip(ts[1:], es[1:])):
            if np.isfinite(e1) and np.isfinite(e2) and e2 > e1 * (1 + 1e-9) + 1e-9:
                bad += 1
                chk.fail("ESS is antitone in the temperature", {"level": "antitone", "ll": ll.tolist(), "lp": lp.tolist(), "lq": lq.tolist(), "beta": b0},
                         f"ESS({t1})={e1} < ESS({t2})={e2}", {"level": "antitone"})
    chk.count("antitone_pops", n_pops)


def run(chk: core.Check):
    r = np.random.default_rng(chk.seed + 7007)
    quick = chk.tier == "quick"
    chk.rule = ("determine_beta on generated populations x current temperature x scalar/ramped target x tolerance x "
                "{plain, min_step, max_n_steps}; non-trivial = ESS-limited step (crossing strictly inside the bracket), counted in "
                "input_distribution['c07:ess_limited']; distinct = different (options, population)")
    chk.trusted += ["numpy exp/log; the ESS helper of the implementation is used to evaluate the clauses at the returned temperature"]
    units = [gen_unit(r, i, chk.tier) for i in range(600 if quick else 30000)]
    for i in range(0, len(units), 400):
        c06.check_units(chk, units[i:i + 400], c07=True)
    antitone_spot(chk, r, 100 if quick else 5000)
    chk.extra["ess_limited_cases"] = chk.distribution.get("c07:ess_limited", 0)

    def search():
        sub = core.Check(chk.pid, chk.tier, chk.seed)
        sub.known, sub.matchers = chk.known, chk.matchers
        rr = np.random.default_rng(chk.seed + 777)
        c06.check_units(sub, [gen_unit(rr, i, "thorough") for i in range(4000)], c07=True)
        return sub.failures[0] if sub.failures else None

    return search


replay = c06.replay
