"""C07 — adaptive temperature steps meet the ESS target and are maximal.

determine_beta on populations whose ESS curve crosses the target strictly inside the bracket
(plus the full-step and floor cases)  vs  the Lean model (Model/Schedule.lean), and the property's
clauses evaluated on the implementation's own ESS at the returned temperature and just beyond it.
Antitonicity of the ESS in the temperature increment is spot-checked on the implementation
(it is the theorem `C07.ess_antitone` about the model).
"""
from __future__ import annotations

import json

import numpy as np

from .. import core, ns
from . import c06


def gen_unit(r, i, tier):
    c = c06.gen_unit(r, i, tier)
    c["adaptive"] = True
    if c["mode"] == "fixed":
        c["mode"] = "plain"
    if i % 3 == 0:
        c["mode"] = "plain"
    c["touch"] = bool(i % 4 == 1)      # the population is looked at before its log-likelihood column is assigned (see c06.run_unit_impl)
    c["beta"] = float(r.choice([0.0, r.uniform(0, 0.9)]))
    # make crossing populations likely: moderate spreads scaled so that the crossing is inside (beta, 1)
    if c["kind"] in ("moderate", "ties", "dominant") and r.random() < 0.7:
        s = 10 ** r.uniform(-0.5, 1.5)
        c["ll"] = (np.asarray(c["ll"]) * s).tolist()
    return c


def antitone_spot(chk, r, n_pops):
    from aspire.samples import SMCSamples
    from aspire.utils import effective_sample_size

    bad = 0
    for _ in range(n_pops):
        n = int(r.integers(2, 60))
        ll, lp, lq = c06.gen_population(r, n, str(r.choice(["moderate", "ties", "dominant", "peaked"])))
        b0 = float(r.uniform(0, 0.8))
        pop = SMCSamples(x=np.zeros((n, 1)), log_likelihood=ll, log_prior=lp, log_q=lq, beta=b0)
        ts = np.sort(r.uniform(b0, 1.0, 6))
        with np.errstate(all="ignore"):
            es = [float(effective_sample_size(pop.log_weights(float(t)))) for t in ts]
        chk.case(None, f"antitone{n}{b0}{ll[0]}")
        for (t1, e1), (t2, e2) in zip(zip(ts, es), zip(ts[1:], es[1:])):
            if np.isfinite(e1) and np.isfinite(e2) and e2 > e1 * (1 + 1e-9) + 1e-9:
                bad += 1
                chk.fail("ESS is antitone in the temperature", {"level": "antitone", "ll": ll.tolist(), "lp": lp.tolist(), "lq": lq.tolist(), "beta": b0},
                         f"ESS({t1})={e1} < ESS({t2})={e2}", {"level": "antitone"})
    chk.count("antitone_pops", n_pops)


def eff_np(pop, b0, b):
    """ESS/N of the incremental weights exp((b-b0)(log L + log pi - log q)), computed independently of the library"""
    lw = pop["ll"] + pop["lp"] - pop["lq"]
    with np.errstate(all="ignore"):
        a = (b - b0) * lw
        a = np.where(np.isnan(a), -np.inf, a)
        m = np.max(a)
        if not np.isfinite(m):
            return 0.0
        u = np.exp(a - m)
    return float(u.sum() ** 2 / (u ** 2).sum() / len(u))


def gen_run_cfg(r, i):
    """whole adaptive runs: the step rule as the LOOP uses it (options assigned by `sample()`, history present, every iteration)"""
    cfg = {"seed": int(r.integers(1, 10000)), "n_samples": int(r.choice([16, 32])), "dims": int(r.choice([1, 2])), "kernel_steps": 2,
           "like_width": float(r.choice([0.1, 0.3, 0.6])), "sampler": "minipcn_smc"}
    m = i % 4
    if m == 0:      # ramped target with a non-linear rate
        cfg.update(target_efficiency=(float(r.choice([0.15, 0.3])), float(r.choice([0.7, 0.9]))), target_efficiency_rate=float(r.choice([0.25, 0.5, 2.0, 3.0])))
    elif m == 1:    # a zero-likelihood region holding more than 1 - target of the proposal mass: the first step is the smallest
                    # resolvable one, after resampling the full step meets the target (step ratio ~ 1e6)
        cfg.update(like_cut=float(r.choice([0.3, 0.6])), prop_mu=0.0, prop_sigma=2.0, like_center=1.5, like_width=1.0)
    elif m == 2:
        cfg.update(min_step=float(r.choice([0.02, 0.2])))
    elif m == 3 and (i // 4) % 2 == 1:
        # an adaptive schedule (the default) asked for together with a number of steps: still adaptive - every step is the ESS-limited one
        cfg.update(adaptive=True, n_steps=int(r.choice([3, 8, 20])))
    # the populations live in any of the three array namespaces (the step rule reads their log-densities through the namespace's own
    # reductions - torch's `var` is the unbiased one, its `max` returns a pair, ...)
    cfg["ns"] = ("numpy", "torch", "jax", "numpy", "torch")[(i // 4) % 5]
    return cfg


def check_runs(chk, cfgs, tol=1e-6):
    from .. import smcrun

    runs = []
    for j, cfg in enumerate(cfgs):
        runs.append((cfg, smcrun.run_smc(cfg, watchdog_iters=300)))
        if j % 3 == 2:
            # the same analysis interrupted after its first iterations and resumed asking for ANOTHER number of samples (the restored
            # population keeps its size: the efficiency in every later step is still ESS over the size of the population it is
            # computed from)
            k = 1 + 3 * int(1 + j % 2)
            r1 = smcrun.run_smc({**cfg, "checkpoint_every": 1}, fault_at=k, record_checkpoints=True, watchdog_iters=300)
            src = r1["ckpts"][-1]["bytes"] if r1["status"] == "fault" and r1["ckpts"] else None
            if src is not None:
                other = int(cfg["n_samples"] // 4) if j % 2 else int(cfg["n_samples"] * 3)
                cfg2 = {**cfg, "checkpoint_every": 1, "n_samples": other}
                if j % 6 == 5:
                    # ... and ANOTHER target efficiency than the interrupted run used: the target in force is the one of the resumed call
                    cfg2["target_efficiency"] = (0.8, 0.25, (0.6, 0.9))[(j // 6) % 3]
                    cfg2.pop("min_step", None)
                    cfg2["_check_from"] = int(r1["ckpts"][-1]["iteration"])     # the iterations before the checkpoint were made under the old target
                try:
                    runs.append(({**cfg2, "resumed_with_n_samples": other, "original_n_samples": cfg["n_samples"]},
                                 smcrun.resume_smc(cfg2, src, watchdog_iters=300)))
                    chk.count("run-level:resumed_with_other_n_samples")
                except Exception as e:   # noqa
                    chk.fail("run total", {"level": "run", "cfg": cfg2}, repr(e)[:200], {"level": "run", "clause": "raise"})
    # a sampler object that first CONTINUED a checkpoint of a run with a step floor and then starts a fresh adaptive run without one:
    # no floor is in force in that run, every step is the ESS-limited one
    for j in range(0, len(cfgs), 5):
        base = {k: v for k, v in cfgs[j].items() if k not in ("min_step", "max_n_steps", "n_steps", "adaptive")}
        first = dict(base, checkpoint_every=1, **({"max_n_steps": 4} if j % 2 == 0 else {"min_step": 0.25}))
        r1 = smcrun.run_smc(first, record_checkpoints=True, watchdog_iters=300)
        if r1["status"] != "done" or len(r1["ckpts"]) < 2:
            continue
        r2 = smcrun.resume_smc(first, r1["ckpts"][0]["bytes"], watchdog_iters=300)
        if r2["status"] != "done":
            continue
        fresh = dict(base, seed=int(base["seed"]) + 31)
        runs.append(({**fresh, "same_object_first_resumed": first}, smcrun.run_smc(fresh, reuse=r2, watchdog_iters=300)))
        chk.count("run-level:fresh_run_on_an_object_that_resumed")
    for cfg, res in runs:
        chk.count("run-level")
        chk.case(None, json.dumps(cfg))
        if smcrun.collapsed_population(res) or res["status"] != "done":
            chk.count("run-level:not_finished")
            continue
        full = res["cfg"]
        rec = c06.record_run(res)
        betas = [0.0] + rec["beta"]
        te = full["target_efficiency"]
        for t in range(len(rec["beta"])):
            if t < int(cfg.get("_check_from", 0)):
                continue
            pop, b0, b1 = rec["pops"][t], betas[t], betas[t + 1]
            target = te if isinstance(te, float) else te[0] + (te[1] - te[0]) * b0 ** full["target_efficiency_rate"]
            case = {"level": "run", "cfg": cfg, "iteration": t + 1}
            sig = {"level": "run"}
            e_full, e1 = eff_np(pop, b0, 1.0), eff_np(pop, b0, b1)
            floor = full["min_step"] is not None and abs(b1 - min(1.0, b0 + full["min_step"])) < 1e-12
            if e_full >= target + 1e-7:
                chk.count("run-level:full_step_feasible")
                if b1 != 1.0:
                    chk.fail("full step taken when it meets the target", case,
                             f"beta {b0} -> {b1}: ESS/N at 1 is {e_full:.6f} >= target in force {target:.6f}", {**sig, "clause": "full"})
                continue
            if floor or b1 == 1.0 and e_full >= target - 1e-7:
                chk.count("run-level:floor_or_edge")
                continue
            if eff_np(pop, b0, min(1.0, b0 + tol)) < target - 1e-7:
                chk.count("run-level:no_resolvable_step")      # the smallest resolvable step is taken; nothing to be maximal about
                continue
            chk.count("run-level:ess_limited")
            if e1 < target - 1e-6:
                chk.fail("ESS at the new temperature meets the target", case,
                         f"beta {b0} -> {b1}: ESS/N {e1:.6f} < target in force {target:.6f} (lo + (hi-lo) beta_prev^rate)", {**sig, "clause": "meets"})
            e2 = eff_np(pop, b0, min(1.0, b1 + 4 * tol))
            if e2 >= target + 1e-6 and b1 < 1.0:
                chk.fail("step is maximal within the tolerance", case,
                         f"beta {b0} -> {b1}: ESS/N at beta + 4 tol is still {e2:.6f} >= target in force {target:.6f}", {**sig, "clause": "maximal"})


def run(chk: core.Check):
    r = np.random.default_rng(chk.seed + 7007)
    quick = chk.tier == "quick"
    chk.rule = ("determine_beta on generated populations x current temperature x scalar/ramped target x tolerance x "
                "{plain, min_step, max_n_steps}; non-trivial = ESS-limited step (crossing strictly inside the bracket), counted in "
                "input_distribution['c07:ess_limited']; distinct = different (options, population)")
    chk.trusted += ["numpy exp/log; the ESS helper of the implementation is used to evaluate the clauses at the returned temperature"]
    units = [gen_unit(r, i, chk.tier) for i in range(600 if quick else 30000)]
    for i in range(0, len(units), 400):
        c06.check_units(chk, units[i:i + 400], c07=True)
    antitone_spot(chk, r, 100 if quick else 5000)
    check_runs(chk, [gen_run_cfg(r, i) for i in range(24 if quick else 400)])
    chk.extra["ess_limited_cases"] = chk.distribution.get("c07:ess_limited", 0)

    def search():
        sub = core.Check(chk.pid, chk.tier, chk.seed)
        sub.known, sub.matchers = chk.known, chk.matchers
        rr = np.random.default_rng(chk.seed + 777)
        c06.check_units(sub, [gen_unit(rr, i, "thorough") for i in range(4000)], c07=True)
        return sub.failures[0] if sub.failures else None

    return search


def replay(chk: core.Check, path: str) -> int:
    doc = json.loads(open(path).read())
    p = doc["payload"]
    cases = [p["case"]] if "case" in p else [d["case"] for d in p.get("correspondence", [])]
    runs = [dict(c["cfg"]) for c in cases if c.get("level") == "run" and "iteration" in c]
    if runs:
        check_runs(chk, runs)
        for f in chk.failures:
            print("FAIL", f["clause"], f["detail"])
        print(f"replayed {len(runs)} run(s): {len(chk.failures)} oracle failure(s)")
        return 1 if chk.failures else 0
    return c06.replay(chk, path)
