"""C01 — posterior samples and evidence are statistically correct on known targets.

What is PROVED (Props/C01.lean) is the exact expectation identity behind "up to Monte-Carlo error": the model's importance
estimator is exactly unbiased on every finite space for every N, the per-step SMC estimate is unbiased for Z_b'/Z_b, the ratios
telescope to Z, a bijective relabelling does not change the tempered target.  The tie to the code:
 (a) EXACT ENUMERATION of the randomness through the real sampler: a discrete target on K points (one of them with zero prior),
     a proposal double made to emit every outcome tuple; `ImportanceSampler.sample` and `Aspire.sample_posterior` are run on ALL
     K^N outcomes and  sum_outcome q(outcome) * Z_hat(outcome)  is compared with Z to 1e-12 — an expectation computed by the
     implementation with no Monte-Carlo error; the Lean model (op `weights`) computes the same sum;
 (c) QUADRATURE of the kernel target: exp(sampler.log_prob(z, beta)) integrated over the preconditioned space (using nothing
     but sampler.log_prob) has the normalising constant and the mean of q^(1-b)(L pi)^b on the prior box — deterministic;
 (b) supporting EXPLORATION (never standing in for the theorem): replicate runs on analytic targets (Gaussian in a box, truncated
     Gaussian hugging a bound) x sampler x preconditioning option with fixed seed lists and 6-sigma bounds on mean Z_hat/Z and on the
     posterior mean; the real MCMC kernels are absent, the doubles are valid Metropolis kernels.
"""
from __future__ import annotations

import itertools
import json
import math
import os

import numpy as np

from .. import aspire_level as al
from .. import core, ns, smcrun
from ..core import fl


# ----------------------------------------------------------------------------- (a) exact enumeration
def make_discrete(points, logq, outcome, xp_name="numpy"):
    from aspire.flows.base import Flow

    class TupleProposal(Flow):
        xp = ns.get_xp(xp_name)

        def __init__(self):
            super().__init__(1, device=None)

        def sample_and_log_prob(self, n):
            assert n == len(outcome)
            idx = np.asarray(outcome)
            return self.xp.asarray(np.asarray(points)[idx].reshape(-1, 1)), self.xp.asarray(np.asarray(logq)[idx])

        def log_prob(self, x):
            x = ns.to_np(x).reshape(-1)
            return self.xp.asarray(np.asarray([logq[int(np.argmin(np.abs(np.asarray(points) - v)))] for v in x]))

        def fit(self, x, **kw):
            from aspire.history import FlowHistory

            return FlowHistory()

    return TupleProposal()


def check_enumeration(chk, r, n_targets, quick):
    from aspire import Aspire
    from aspire.samplers.importance import ImportanceSampler

    drv = core.LeanDriver()
    for t in range(n_targets):
        K = int(r.choice([2, 3, 4]))
        N = int(r.choice([1, 2, 3])) if K >= 4 else int(r.choice([1, 2, 3, 4]))
        points = np.arange(K, dtype=float) + 0.5
        q = r.dirichlet(np.ones(K) * 2)
        logq = np.log(q)
        logL = r.normal(0, r.choice([1.0, 8.0]), K) + r.choice([0.0, 300.0, -300.0])
        logpi = np.log(r.dirichlet(np.ones(K)))
        zero = int(r.integers(K)) if K >= 3 and r.random() < 0.6 else None
        if zero is not None:
            logpi[zero] = -np.inf
        Z = math.fsum(math.exp(a + b - logL.max()) for a, b in zip(logL, logpi) if np.isfinite(b))   # in units of exp(max logL)
        nsn = ("numpy", "torch", "jax")[t % 3]
        route = "sampler" if t % 2 == 0 else "aspire"
        table = lambda tab: (lambda s: s.xp.asarray(np.asarray([tab[int(round(v - 0.5))] for v in ns.to_np(s.x).reshape(-1)]), dtype=s.x.dtype))
        # an unnormalised likelihood: a common offset far outside the exponent range of the dtype (log L ~ -900 or +800 after summing many
        # data points); the estimate is then read off `log_evidence` and rescaled here
        shift = float((0.0, 0.0, -900.0, 800.0)[t % 4])
        ll, lp = table(logL - logL.max() + shift), table(logpi)
        total, mtotal = [], []
        lines = []
        for outcome in itertools.product(range(K), repeat=N):
            flow = make_discrete(points, logq, outcome, nsn)
            try:
                if route == "sampler":
                    s = ImportanceSampler(log_likelihood=ll, log_prior=lp, dims=1, prior_flow=flow, xp=ns.get_xp(nsn), dtype=ns.native_dtype(nsn, "f64")).sample(N)
                else:
                    a = Aspire(log_likelihood=ll, log_prior=lp, dims=1, parameters=["a"], flow=flow, xp=ns.get_xp(nsn), dtype="float64")
                    s = a.sample_posterior(n_samples=N, sampler="importance")
            except Exception as exc:   # noqa
                chk.fail("importance sampling total", {"level": "enumeration", "K": K, "N": N, "ns": nsn, "route": route, "outcome": list(outcome)},
                         repr(exc)[:200], {"level": "enumeration", "clause": "raise", "exc": type(exc).__name__})
                total = None
                break
            pw = math.exp(math.fsum(logq[i] for i in outcome))
            if zero is not None and all(i == zero for i in outcome):
                # every draw has zero prior: the estimate must be 0
                ev = float(s.evidence)
                if not ev == 0.0:
                    chk.fail("an outcome whose draws all have zero prior estimates the evidence as 0", {"level": "enumeration", "K": K, "N": N, "ns": nsn, "route": route},
                             f"Z_hat = {ev!r} when all {N} draws have zero prior", {"level": "enumeration", "clause": "all_zero_prior", "is_nan": ev != ev})
                continue
            total.append(pw * (float(s.evidence) if shift == 0.0 else math.exp(float(s.log_evidence) - shift)))
            idx = list(outcome)
            lines.append(f"f64 weights {fl((logL - logL.max())[idx])} {fl(logpi[idx])} {fl(logq[idx])}")
            mtotal.append(pw)
        if total is None:
            chk.case(None, None)
            continue
        EZ = math.fsum(total)
        case = {"level": "enumeration", "K": K, "N": N, "ns": nsn, "route": route, "zero_prior_point": zero, "outcomes": K ** N, "likelihood_offset": shift,
                "q": q.tolist(), "logL": logL.tolist(), "logpi": [None if not np.isfinite(v) else float(v) for v in logpi]}
        chk.count(f"enumeration:{route}")
        chk.count("enumerated_outcomes", K ** N)
        chk.case({k: case[k] for k in ("K", "N", "ns", "route", "zero_prior_point", "outcomes")} if chk.evaluations < 6 else None, json.dumps(case))
        if not core.close(EZ, Z, 1e-11):
            chk.fail("the expectation of the evidence estimate is the true evidence", case,
                     f"sum over all {K ** N} outcomes of q(outcome)*Z_hat = {EZ!r}, true Z = {Z!r} (ratio {EZ / Z:.6f})", {"level": "enumeration", "clause": "unbiased", "route": route})
        reps = drv.batch(lines)
        mEZ = math.fsum(pw * _evidence(rep) for pw, rep in zip(mtotal, reps))
        if not core.close(mEZ, EZ, 1e-11):
            chk.disagree("expected evidence", case, mEZ, EZ)


def _evidence(rep):
    if not rep.ok:
        raise core.HarnessError(rep.err)
    rep.fs(); rep.f(); rep.fs()
    return rep.f()


def check_step_enumeration(chk, r, n_targets):
    """exact enumeration for one SMC step: every population of N points of a K-point space, drawn i.i.d. from the tempered
    target p_b, through the real `SMCSamples.log_evidence_ratio`:  sum_pop p_b(pop) exp(ratio) = Z_b' / Z_b  (theorem
    `C01.smc_step_ratio`); the model (`ratio` op) computes the same sum."""
    from aspire.samples import SMCSamples

    drv = core.LeanDriver()
    for t in range(n_targets):
        K, N = int(r.choice([2, 3])), int(r.choice([1, 2, 3]))
        q = r.dirichlet(np.ones(K) * 2)
        logq, logL, logpi = np.log(q), r.normal(0, 3, K), np.log(r.dirichlet(np.ones(K)))
        b0 = float(r.choice([0.0, r.uniform(0, 0.8)]))
        b1 = float(r.choice([1.0, r.uniform(b0, 1.0)]))
        nsn = ("numpy", "torch", "jax")[t % 3]
        temp = lambda b: np.exp((1 - b) * logq + b * (logL + logpi))
        Z0, Z1 = float(temp(b0).sum()), float(temp(b1).sum())
        pb = temp(b0) / Z0
        acc, lines, pws = [], [], []
        for pop in itertools.product(range(K), repeat=N):
            idx = list(pop)
            s = SMCSamples(x=np.asarray(idx, float).reshape(-1, 1), log_likelihood=logL[idx], log_prior=logpi[idx], log_q=logq[idx], beta=b0,
                           xp=ns.get_xp(nsn), dtype=ns.native_dtype(nsn, "f64"))
            pw = float(np.prod(pb[idx]))
            acc.append(pw * math.exp(float(s.log_evidence_ratio(b1))))
            pws.append(pw)
            lines.append(f"f64 ratio {core.fh(b0)} {core.fh(b1)} {fl(logL[idx])} {fl(logpi[idx])} {fl(logq[idx])}")
        E = math.fsum(acc)
        case = {"level": "step_enumeration", "K": K, "N": N, "ns": nsn, "beta": b0, "beta_new": b1, "q": q.tolist(), "logL": logL.tolist(), "logpi": logpi.tolist()}
        chk.count("step_enumeration")
        chk.count("enumerated_populations", K ** N)
        chk.case({k: case[k] for k in ("K", "N", "ns", "beta", "beta_new")} if t < 2 else None, json.dumps(case))
        if not core.close(E, Z1 / Z0, 1e-11):
            chk.fail("the expectation of the per-step estimate is the ratio of normalising constants", case,
                     f"sum over {K ** N} populations = {E!r}, Z_b'/Z_b = {Z1 / Z0!r}", {"level": "step_enumeration", "clause": "step_ratio"})
        mE = math.fsum(pw * math.exp(rep.f()) for pw, rep in zip(pws, drv.batch(lines)))
        if not core.close(mE, E, 1e-11):
            chk.disagree("expected step estimate", case, mE, E)


# ----------------------------------------------------------------------------- (c) kernel target = tempered density (quadrature)
def check_kernel_quadrature(chk, r, n_cases):
    """The density the MCMC kernel is asked to leave invariant, exp(sampler.log_prob(z, beta)) on the preconditioned space, must be
    the image of  q^(1-b) (L pi)^b  under the preconditioning map: same normalising constant and same mean of x(z).  The left side
    uses ONLY sampler.log_prob on a uniform z grid (midpoint rule), the right side ONLY the user's functions and the proposal on
    the prior box; nothing of the transform's own Jacobian enters the comparison.  Deterministic — no Monte-Carlo error."""
    from . import c05

    pre_opts = [("none", None), ("logit", {"bounded_to_unbounded": True, "bounded_transform": "logit", "affine_transform": False}),
                ("probit", {"bounded_to_unbounded": True, "bounded_transform": "probit", "affine_transform": False}),
                ("probit+affine", {"bounded_to_unbounded": True, "bounded_transform": "probit", "affine_transform": True}),
                ("logit+affine", {"bounded_to_unbounded": True, "bounded_transform": "logit", "affine_transform": True}),
                ("affine", {"bounded_to_unbounded": False, "affine_transform": True}),
                ("periodic", {"bounded_to_unbounded": False, "affine_transform": False, "periodic": [0]}),
                ("periodic+affine", {"bounded_to_unbounded": False, "affine_transform": True, "periodic": [0]})]
    for t in range(n_cases):
        pname, pc = pre_opts[t % len(pre_opts)]
        sampler = ("minipcn_smc", "emcee_smc")[(t // len(pre_opts)) % 2]
        nsn = ("numpy", "torch", "jax")[t % 3]
        if sampler == "emcee_smc" and nsn == "jax" and pc is None:
            nsn = "numpy"
        half = float(r.choice([3.0, 4.0]))
        cfg = {"sampler": sampler, "ns": nsn, "width": "f64", "dims": 1, "precond": pc, "half": half,
               "like_center": float(r.choice([r.uniform(-1, 1), half - 0.15, -half + 0.3])), "like_width": float(r.choice([0.3, 0.8])),
               "prop_kind": "gauss", "prop_mu": float(r.normal(0, 0.5)), "prop_sigma": float(r.choice([1.5, 3.0])),
               "fit_seed": int(r.integers(1 << 30))}
        betas = [float(r.uniform(0.05, 0.95)), float(10 ** r.uniform(-3, -1)), 1.0]
        case = {"level": "kernel_quadrature", **cfg, "preconditioning": pname, "betas": betas}
        chk.count(f"kernel_quadrature:{sampler}/{pname}")
        chk.case(None, json.dumps(case))
        try:
            s, flow, target = c05.make(cfg)
            xp = ns.get_xp(nsn)
            tr = s.preconditioning_transform
            # the preconditioning is fitted to the current particles: spread over the prior range at first, concentrated later
            # (a fitted scale below one makes the preconditioned coordinate LARGER than the native one)
            spread = 0.9 if t % 2 == 0 else 0.12
            xfit = np.random.default_rng(cfg["fit_seed"]).uniform(-spread * half, spread * half, (40, 1))
            if t % 4 >= 2:
                # the preconditioning object is REFITTED at every iteration: an earlier fit, on particles with another spread, came first
                s.fit_preconditioning_transform(xp.asarray(xfit * (0.35 if spread > 0.5 else 3.0)))
            s.fit_preconditioning_transform(xp.asarray(xfit))
            unbounded = bool(pc and pc.get("bounded_to_unbounded"))
            eps = 1e-13 * 2 * half if unbounded else 1e-12 * half   # (the upper edge itself wraps under the periodic map)
            ends, _ = tr.forward(tr.xp.asarray(np.array([[-half + eps], [half - eps]])))
            zlo, zhi = sorted(float(v) for v in ns.to_np(ends).reshape(-1))
            M = 40000
            hz = (zhi - zlo) / M
            z = zlo + hz * (np.arange(M) + 0.5)
            zin = tr.xp.asarray(z.reshape(-1, 1))
            xz = ns.to_np(tr.inverse(zin)[0]).reshape(-1)
            xg = -half + (2 * half / M) * (np.arange(M) + 0.5)
            with np.errstate(all="ignore"):
                ll, lp, lq = target.like_np(xg.reshape(-1, 1)), target.prior_np(xg.reshape(-1, 1)), flow._lp(xg.reshape(-1, 1))
            bad = None
            for b in betas:
                with np.errstate(all="ignore"):
                    lz = ns.to_np(s.log_prob(zin, b)).reshape(-1)
                    lx = (1 - b) * lq + b * (ll + lp)
                off = float(np.max(lx))
                nz, nx = float(np.sum(np.exp(lz - off)) * hz), float(np.sum(np.exp(lx - off)) * (2 * half / M))
                mz = float(np.sum(np.exp(lz - off) * xz) * hz) / nz if nz > 0 else float("nan")
                mx = float(np.sum(np.exp(lx - off) * xg) * (2 * half / M)) / nx
                if not (abs(nz / nx - 1) < 2e-4 and abs(mz - mx) < 2e-4 * half):
                    bad = (b, nz / nx, mz, mx)
                    break
            if bad:
                chk.fail("kernel target is the tempered density carried to the preconditioned space (quadrature)", case,
                         f"beta={bad[0]}: integral of exp(log_prob) dz / integral of q^(1-b)(L pi)^b dx = {bad[1]:.6f}; mean x under the kernel target {bad[2]:.6f}, "
                         f"under the tempered density {bad[3]:.6f}", {"level": "kernel_quadrature", "clause": "kernel_density", "sampler": sampler, "preconditioning": pname})
        except Exception as e:  # noqa
            chk.fail("run total", case, repr(e)[:200], {"level": "kernel_quadrature", "clause": "raise"})


# ----------------------------------------------------------------------------- (b) replicates (exploration)
def true_values(cfg):
    from scipy.stats import norm

    d, w = cfg["dims"], cfg["like_width"]
    cs = np.broadcast_to(np.asarray(cfg["like_center"], dtype=float), (d,))
    hs = np.broadcast_to(np.asarray(cfg["half"], dtype=float), (d,))
    Z, mean0 = 1.0, None
    for c, h in zip(cs.tolist(), hs.tolist()):
        a, b = (-h - c) / w, (h - c) / w
        mass = norm.cdf(b) - norm.cdf(a)
        Z *= w * math.sqrt(2 * math.pi) * mass / (2 * h)
        if mean0 is None:
            mean0 = c + w * (norm.pdf(a) - norm.pdf(b)) / mass
    return Z, mean0


def true_variance(cfg):
    from scipy.stats import truncnorm

    c, w, h = (float(np.atleast_1d(np.asarray(cfg[k], dtype=float))[0]) for k in ("like_center", "like_width", "half"))
    return float(truncnorm.var((-h - c) / w, (h - c) / w, loc=c, scale=w))


def check_replicates(chk, r, quick):
    base_seed = int(r.integers(1, 10 ** 6))
    R = 20 if quick else 64
    targets = [("gauss_in_box", dict(like_center=0.7, like_width=0.2, half=4.0, dims=2, prop_kind="gauss", prop_mu=0.4, prop_sigma=0.9)),
               ("truncated_at_bound", dict(like_center=3.85, like_width=0.3, half=4.0, dims=1, prop_kind="uniform", prop_mu=0.0, prop_sigma=4.0)),
               # a proposal leaking outside the prior support: the initial SMC population is drawn from the truncated proposal
               ("truncated_leaking_proposal", dict(like_center=3.6, like_width=0.8, half=4.0, dims=1, prop_kind="gauss", prop_mu=2.5, prop_sigma=2.5))]
    preconds = [("none", None), ("logit", {"bounded_to_unbounded": True, "bounded_transform": "logit", "affine_transform": False}),
                ("probit+affine", {"bounded_to_unbounded": True, "bounded_transform": "probit", "affine_transform": True}),
                ("periodic", {"bounded_to_unbounded": False, "affine_transform": False, "periodic": [0]})]
    # a box with DIFFERENT sides and two periodic parameters, named in `periodic_parameters` in another order than in `parameters`; the mode
    # of the first coordinate lies outside the range of the second one
    two_periodic = dict(like_center=[3.0, -0.6], like_width=0.3, half=[4.0, 2.0], dims=2, prop_kind="gauss", prop_mu=[2.6, -0.5], prop_sigma=[0.5, 0.45])
    configs = [("two_periodic_ranges", "minipcn_smc", "periodic[1,0]", {"bounded_to_unbounded": False, "affine_transform": False, "periodic": [1, 0]}, two_periodic),
               ("two_periodic_ranges", "minipcn_smc", "periodic[1,0]+affine", {"bounded_to_unbounded": False, "affine_transform": True, "periodic": [1, 0]}, two_periodic)]
    for tname, tc in targets:
        configs.append((tname, "importance", "none", None, tc))
        for pname, pc in preconds:
            if tname != "gauss_in_box" and pname == "periodic":
                continue
            if tname == "truncated_leaking_proposal" and pname != "logit":
                continue
            configs.append((tname, "minipcn_smc", pname, pc, tc))
        if tname != "truncated_leaking_proposal":
            configs.append((tname, "emcee_smc", "logit", preconds[1][1], tc))
        if tname == "gauss_in_box":
            # schedule options must not change what the run converges to either: step cap with the adaptive minimum step, explicit floor
            for cap in (3, 4, 5, 6):
                configs.append((tname, "minipcn_smc", f"none/max_n_steps={cap}", None, {**tc, "max_n_steps": cap}))
            for ms in (0.3, 0.45):
                configs.append((tname, "minipcn_smc", f"logit/min_step={ms}", preconds[1][1], {**tc, "min_step": ms}))
            # the estimate of a run must not depend on what the sampler OBJECT did before: second fresh run on the same object
            configs.append((tname, "minipcn_smc", "none/second-run=1", None, {**tc, "second_run": True}))
            # ... nor on whether the run was interrupted on the way: every replicate dies inside the kernel of a middle iteration and is
            # finished from the checkpoint the dying run left behind (bytes), or is rewound to the FIRST in-memory checkpoint
            # dictionary a callback kept, after the sampler that produced it had gone on for several iterations
            configs.append((tname, "minipcn_smc", "none/interrupted=resumed-from-last", None, {**tc, "interrupted": "last"}))
            configs.append((tname, "minipcn_smc", "logit/interrupted=rewound-to-first-dict", preconds[1][1], {**tc, "interrupted": "first-dict"}))
    if quick:
        configs = [c for i, c in enumerate(configs) if i % 2 == 0 or c[2] in ("logit",) or "=" in c[2] or c[0] == "two_periodic_ranges"]
    summary = []
    for tname, sampler, pname, pc, tc in configs:
        cfg0 = {"sampler": sampler, "n_samples": 400 if sampler == "importance" else 64, "kernel_steps": 6, "precond": pc, **tc}
        Z, mu = true_values(cfg0)
        ratios, means, variances = [], [], []
        failed = None
        for k in range(R):
            cfg = {**cfg0, "seed": base_seed + 1009 * k}
            how = cfg.pop("interrupted", None)
            if how is not None:
                cfg["checkpoint_every"] = 1
                cfg.pop("second_run", None)
                probe = smcrun.run_smc(cfg)
                res = probe
                if probe["status"] == "done" and probe["target"].n_like >= 4:
                    k_f = (probe["target"].n_like * (2 if how == "last" else 3)) // 4
                    r1 = smcrun.run_smc(cfg, fault_at=k_f, record_checkpoints=True)
                    if r1["status"] == "fault" and r1["ckpts"]:
                        src = r1["ckpts"][-1]["bytes"] if how == "last" else r1["ckpts"][0]["state"]
                        res = smcrun.resume_smc(cfg, src)
                        chk.count("replicates:interrupted_and_resumed")
            elif cfg.pop("second_run", False):
                first = smcrun.run_smc({**cfg, "seed": cfg["seed"] + 500_000})
                res = smcrun.run_smc(cfg, reuse=first) if first["status"] == "done" else first
            else:
                res = smcrun.run_sampler(cfg)
            if res["status"] != "done":
                failed = res
                break
            s = res["samples"]
            ratios.append(math.exp(float(s.log_evidence)) / Z)
            x = ns.to_np(s.x)[:, 0]
            if sampler == "importance":
                wts = ns.to_np(s.weights); means.append(float(np.sum(wts * x) / np.sum(wts)))
                variances.append(float(np.sum(wts * (x - means[-1]) ** 2) / np.sum(wts)))
            else:
                means.append(float(np.mean(x)))
                variances.append(float(np.var(x)))
        case = {"level": "replicates", "target": tname, "sampler": sampler, "preconditioning": pname, "replicates": R, "base_seed": base_seed}
        chk.count(f"replicates:{sampler}/{pname}")
        chk.case(None, json.dumps(case))
        if failed is not None:
            chk.fail("run total", case, repr(failed.get("exc"))[:200], {"level": "replicates", "clause": "raise"})
            continue
        ratios, means = np.asarray(ratios), np.asarray(means)
        se = max(float(np.std(ratios, ddof=1)) / math.sqrt(R), 0.01)
        sem = max(float(np.std(means, ddof=1)) / math.sqrt(R), 0.01 * cfg0["like_width"])
        summary.append({**{k: case[k] for k in ("target", "sampler", "preconditioning")}, "mean_Zhat_over_Z": round(float(ratios.mean()), 4), "se": round(se, 4),
                        "posterior_mean": round(float(means.mean()), 4), "true_mean": round(mu, 4)})
        if abs(ratios.mean() - 1) > 6 * se + 0.03:
            from scipy.stats import norm
            p_in = 1.0
            if cfg0.get("prop_kind") == "gauss":
                bc = lambda k: np.broadcast_to(np.asarray(cfg0[k], dtype=float), (cfg0["dims"],))   # noqa: E731
                p_in = float(np.prod(norm.cdf((bc("half") - bc("prop_mu")) / bc("prop_sigma")) - norm.cdf((-bc("half") - bc("prop_mu")) / bc("prop_sigma"))))
            chk.fail("replicate-averaged Z_hat/Z inside calibrated bounds (exploration)", case,
                     f"mean Z_hat/Z = {ratios.mean():.4f} +- {se:.4f} over {R} replicates (proposal mass inside the prior support {p_in:.3f}, 1/that = {1 / p_in:.3f})",
                     {"level": "replicates", "clause": "evidence", "sampler": sampler, "preconditioning": pname, "leaking_proposal": p_in < 0.98,
                      "consistent_with_one_over_p_inside": abs(ratios.mean() - 1 / p_in) <= 6 * se + 0.03})
        if abs(means.mean() - mu) > 6 * sem + 0.05 * cfg0["like_width"]:
            chk.fail("replicate-averaged posterior mean inside calibrated bounds (exploration)", case,
                     f"posterior mean {means.mean():.4f} +- {sem:.4f}, true {mu:.4f}", {"level": "replicates", "clause": "mean", "sampler": sampler, "preconditioning": pname})
        # second moment: the replicate-averaged (weighted) variance of the first coordinate against the closed-form variance.  The
        # allowance covers what is NOT a defect: the 1/N bias of a sample variance, duplicated particles after resampling with a
        # kernel of a few steps, self-normalisation of importance weights
        var_true = true_variance(cfg0)
        variances = np.asarray(variances)
        sev = float(np.std(variances, ddof=1)) / math.sqrt(R)
        summary[-1].update(posterior_variance=round(float(variances.mean()), 5), true_variance=round(var_true, 5))
        if abs(variances.mean() - var_true) > 6 * sev + 0.35 * var_true:
            chk.fail("replicate-averaged posterior variance inside calibrated bounds (exploration)", case,
                     f"posterior variance {variances.mean():.5f} +- {sev:.5f}, true {var_true:.5f}", {"level": "replicates", "clause": "variance", "sampler": sampler, "preconditioning": pname})
    chk.extra["replicate_summary"] = summary


def check_pool_replicates(chk, quick):
    """the documented multiprocessing pattern: the same closed-form problem run through `Aspire.sample_posterior` inside `enable_pool`, with a
    pool of several workers whose tasks finish out of submission order (the cost of a likelihood call depends on the point) - evidence
    and posterior moments are those of the serial run (exploration, calibrated bounds)"""
    import time
    from multiprocessing.pool import ThreadPool

    from .. import aspire_level as al

    cfg0 = dict(like_center=0.7, like_width=0.4, half=4.0, dims=2)
    Z, mu = true_values(cfg0)

    def one(x):
        if x[0] > 0.3:
            time.sleep(0.0005)
        return float(-0.5 * np.sum((x - cfg0["like_center"]) ** 2) / cfg0["like_width"] ** 2)

    def log_likelihood(samples, map_fn=map):
        logl = -np.inf * np.ones(len(samples.x))
        mask = np.isfinite(np.asarray(samples.log_prior), dtype=bool)
        logl[mask] = np.fromiter(map_fn(one, np.asarray(samples.x)[mask, :]), dtype=float)
        return logl

    R = 8 if quick else 24
    serial = None
    for workers in (1, 4):
        ratios, means = [], []
        case = {"level": "pool_replicates", "sampler": "importance", "workers": workers, "replicates": R}
        chk.count("pool_replicates")
        chk.case(None, json.dumps(case))
        try:
            for k in range(R):
                t = smcrun.Target(2, center=cfg0["like_center"], width=cfg0["like_width"], half=cfg0["half"])
                a = al.make_aspire(t, dims=2, half=cfg0["half"], flow_seed=100 + k)
                a.log_likelihood = log_likelihood
                a.fit(al.training_samples(2, 40 + k, center=-0.2, spread=1.3))      # a proposal well off the posterior: the weights vary by orders of magnitude
                with al.orng_seed(10 + k), ThreadPool(workers) as pool, a.enable_pool(pool, close_pool=False):
                    s = a.sample_posterior(n_samples=300, sampler="importance")
                ratios.append(math.exp(float(s.log_evidence)) / Z)
                w_, x_ = ns.to_np(s.weights), ns.to_np(s.x)[:, 0]
                means.append(float(np.sum(w_ * x_) / np.sum(w_)))
        except Exception as e:   # noqa
            chk.fail("run total", case, repr(e)[:200], {"level": "pool_replicates", "clause": "raise"})
            continue
        ratios, means = np.asarray(ratios), np.asarray(means)
        if serial is None:
            serial = (ratios, means)
        elif not (np.allclose(ratios, serial[0], rtol=1e-9) and np.allclose(means, serial[1], rtol=1e-9, atol=1e-12)):
            # same seeds, same draws: a pool only changes WHERE a likelihood value is computed, so every replicate gives the serial numbers
            k_ = int(np.argmax(np.abs(ratios - serial[0])))
            chk.fail("replicate-averaged Z_hat/Z inside calibrated bounds (exploration)", case,
                     f"replicate {k_}: Z_hat/Z = {ratios[k_]:.6f} inside a pool of {workers} workers, {serial[0][k_]:.6f} with one worker (same seeds and draws); "
                     f"posterior mean {means[k_]:.4f} vs {serial[1][k_]:.4f}", {"level": "pool_replicates", "clause": "evidence", "sampler": "importance", "preconditioning": f"pool{workers}"})
            continue
        se = max(float(np.std(ratios, ddof=1)) / math.sqrt(R), 0.01)
        sem = max(float(np.std(means, ddof=1)) / math.sqrt(R), 0.01 * cfg0["like_width"])
        chk.extra.setdefault("pool_replicates", []).append({"workers": workers, "mean_Zhat_over_Z": round(float(ratios.mean()), 4), "se": round(se, 4),
                                                            "posterior_mean": round(float(means.mean()), 4), "true_mean": round(mu, 4)})
        if abs(ratios.mean() - 1) > 6 * se + 0.05:
            chk.fail("replicate-averaged Z_hat/Z inside calibrated bounds (exploration)", case,
                     f"inside a pool of {workers} worker(s): mean Z_hat/Z = {ratios.mean():.4f} +- {se:.4f} over {R} replicates",
                     {"level": "pool_replicates", "clause": "evidence", "sampler": "importance", "preconditioning": f"pool{workers}"})
        if abs(means.mean() - mu) > 6 * sem + 0.05 * cfg0["like_width"]:
            chk.fail("replicate-averaged posterior mean inside calibrated bounds (exploration)", case,
                     f"inside a pool of {workers} worker(s): posterior mean {means.mean():.4f} +- {sem:.4f}, true {mu:.4f}",
                     {"level": "pool_replicates", "clause": "mean", "sampler": "importance", "preconditioning": f"pool{workers}"})


def check_resumed_from_file_real_flow(chk, quick):
    """a REAL proposal (zuko, bounded parameters mapped with the default logit) fitted once; SMC runs inside `auto_checkpoint` that die in the
    middle and are finished by `Aspire.resume_from_file(...)` - which rebuilds the proposal FROM THE FILE - give the same evidence and moments
    as the closed form (exploration, calibrated bounds): the particles of the checkpoint were weighted under the proposal the file holds"""
    import tempfile

    import torch

    from aspire import Aspire
    from aspire.samples import Samples

    from .. import aspire_level as al

    cfg0 = dict(like_center=0.7, like_width=0.2, half=4.0, dims=2)
    Z, mu = true_values(cfg0)
    R = 5 if quick else 12
    case = {"level": "resumed_from_file_real_flow", "backend": "zuko", "replicates": R}
    chk.count("resumed_from_file_real_flow")
    chk.case(None, json.dumps(case))
    tmp = tempfile.mkdtemp(prefix="aspire_verif_")
    try:
        t0 = smcrun.Target(2, center=0.7, width=0.2, half=4.0)
        a = Aspire(log_likelihood=t0.log_likelihood, log_prior=t0.log_prior, dims=2, parameters=["p0", "p1"],
                   prior_bounds={"p0": [-4.0, 4.0], "p1": [-4.0, 4.0]}, flow_backend="zuko", dtype="float64", seed=2)
        a.fit(Samples(x=np.random.default_rng(6).normal(0.5, 0.9, (400, 2)).clip(-3.9, 3.9), parameters=["p0", "p1"]), n_epochs=3)
        # many temperature steps (a high target efficiency), the fault early: several steps remain after the resume, each weighting mutated
        # particles (log q of the proposal in use) against the checkpointed ones
        skw = dict(n_samples=250, sampler="smc", sampler_kwargs={"n_steps": 4}, adaptive=True, target_efficiency=0.9)
        ratios, means = [], []
        for k in range(R):
            path = os.path.join(tmp, f"r{k}.h5")
            t0.fault_at = None
            with al.orng_seed(50 + k), torch.no_grad():
                n_before = t0.n_like
                t0.fault_at = n_before + 9          # inside the kernel of the second iteration
                try:
                    with a.auto_checkpoint(path, every=1):
                        a.sample_posterior(**skw)
                    continue                         # the run finished before the planted fault
                except smcrun.FAULTS:
                    pass
            t1 = smcrun.Target(2, center=0.7, width=0.2, half=4.0)
            b = Aspire.resume_from_file(path, log_likelihood=t1.log_likelihood, log_prior=t1.log_prior)
            with al.orng_seed(150 + k), torch.no_grad():
                s = b.sample_posterior(sampler_kwargs={"n_steps": 4}, target_efficiency=0.9)
            ratios.append(math.exp(float(s.log_evidence)) / Z)
            means.append(float(np.mean(ns.to_np(s.x)[:, 0])))
        if len(ratios) < 3:
            chk.count("resumed_from_file_real_flow:too_few_interrupted")
            return
        ratios, means = np.asarray(ratios), np.asarray(means)
        se = max(float(np.std(ratios, ddof=1)) / math.sqrt(len(ratios)), 0.02)
        chk.extra["resumed_from_file_real_flow"] = {"mean_Zhat_over_Z": round(float(ratios.mean()), 4), "se": round(se, 4), "n": len(ratios)}
        if abs(ratios.mean() - 1) > 6 * se + 0.1:
            chk.fail("replicate-averaged Z_hat/Z inside calibrated bounds (exploration)", case,
                     f"interrupted SMC runs finished through resume_from_file (real zuko proposal rebuilt from the file): mean Z_hat/Z = {ratios.mean():.4f} +- {se:.4f} over {len(ratios)} replicates",
                     {"level": "resumed_from_file_real_flow", "clause": "evidence", "sampler": "smc", "preconditioning": "resume_from_file"})
    except Exception as e:   # noqa
        chk.fail("run total", case, repr(e)[:300], {"level": "resumed_from_file_real_flow", "clause": "raise"})
    finally:
        import shutil

        shutil.rmtree(tmp, ignore_errors=True)


def m_all_zero_nan(rec, sig):
    s = rec["signature"]
    return s.get("clause") == "all_zero_prior" and s.get("is_nan")


def m_smc_truncated_proposal(rec, sig):
    s = rec["signature"]
    return s.get("clause") == "evidence" and s.get("leaking_proposal") and s.get("consistent_with_one_over_p_inside") and str(s.get("sampler", "")).endswith("smc")


MATCHERS = {"importance_all_draws_zero_prior_gives_nan": m_all_zero_nan, "smc_evidence_biased_by_rejected_initial_draws": m_smc_truncated_proposal}


def run(chk: core.Check):
    r = np.random.default_rng(chk.seed + 1001)
    quick = chk.tier == "quick"
    chk.rule = ("(a) discrete targets on 2-4 points (random q, L with offsets to +-300, one zero-prior point) x N = 1..4 draws: ALL K^N outcomes through the real "
                "ImportanceSampler / Aspire.sample_posterior in 3 namespaces; (b) replicate runs (exploration) on two analytic targets x importance / MiniPCNSMC / EmceeSMC x "
                "preconditioning {none, logit, probit+affine, periodic}; every enumerated target and every replicate configuration counts as non-trivial")
    chk.trusted += ["(b) is exploration supporting the tie, never a stand-in for the theorems; the MCMC kernels are test doubles (valid Metropolis kernels), the real kernels' mixing is outside every theorem",
                    "analytic truth from scipy.stats.norm"]
    check_enumeration(chk, r, 18 if quick else 150, quick)
    check_step_enumeration(chk, r, 12 if quick else 100)
    check_kernel_quadrature(chk, np.random.default_rng(chk.seed + 1003), 16 if quick else 144)
    check_replicates(chk, r, quick)
    check_pool_replicates(chk, quick)
    check_resumed_from_file_real_flow(chk, quick)

    def search():
        return None

    return search


def replay(chk: core.Check, path: str) -> int:
    run(chk)
    for f in chk.failures[:10]:
        print("FAIL", f["clause"], f["detail"])
    print(f"re-ran both sections: {len(chk.failures)} oracle failure(s), {len(chk.disagreements)} disagreement(s)")
    return 1 if (chk.failures or chk.disagreements) else 0
