"""C08 — SMC evidence is the accumulated product of incremental ratios.

Whole runs (kernel doubles): every recorded ratio / variance is recomputed from the stored
pre-resampling population and the temperatures actually used, the returned evidence is their sum and the
uncertainty the root of the summed variances; paired runs differing only in checkpoint cadence, in the final
enlargement, or in the resampling draws of one step must agree as the property says.  The Lean model
(`ratio` op = Model/Tempering.lean; `smcloop` = Model/Smc.lean) must reproduce every ratio and the sum.
"""
from __future__ import annotations

import json
import math

import numpy as np

from .. import core, ns, smcrun
from ..core import fh, fl
from . import c06, c18


class PerturbRng(smcrun.RecRng):
    """like RecRng but the `at`-th choice() is answered from an unrelated stream"""

    def __init__(self, seed, at):
        super().__init__(seed)
        self.at = at
        self.other = np.random.default_rng(seed + 987654321)

    def choice(self, a, size=None, replace=True, p=None, **kw):
        if len(self.choices) == self.at:
            self._g.choice(a, size=size, replace=replace, p=p, **kw)      # keep the main stream aligned
            idx = self.other.choice(a, size=size, replace=replace, p=p, **kw)
            self.choices.append({"a": a, "size": size, "p": np.asarray(p, float).copy(), "idx": np.asarray(idx).copy(), "perturbed": True})
            return idx
        return super().choice(a, size=size, replace=replace, p=p, **kw)


def run_with_rng(cfg, rng_factory, **extra):
    orig = smcrun.RecRng
    try:
        smcrun.RecRng = rng_factory
        return smcrun.run_smc(cfg, **extra)
    finally:
        smcrun.RecRng = orig


def gen_cfg(r, i):
    cfg, mode = c18.gen_cfg(r, i)
    cfg.pop("checkpoint_every", None)
    # the same estimator in every array namespace (double precision throughout: the clauses are checked to rounding error)
    cfg["ns"] = ("numpy", "torch", "jax")[i % 3]
    cfg["width"] = "f64"
    if i % 4 == 3:
        cfg["like_cut"] = float(r.choice([0.0, 0.5, -1.0]))      # log L = -inf on part of the support: zero-weight particles
        cfg["target_efficiency"] = 0.25
        cfg["n_samples"] = 24
    if i % 5 == 2:
        cfg["sampler"] = "emcee_smc"
        for k in ("min_step", "max_n_steps"):
            cfg.pop(k, None)
    return cfg, mode


def check_run(chk, cfg, mode, lines, keep):
    res = smcrun.run_smc(cfg)
    case = {"cfg": cfg, "mode": mode}
    chk.count(f"mode:{mode}")
    chk.count(f"sampler:{res['cfg']['sampler']}")
    h = res["sampler"].history
    its = len(h.beta) if h else 0
    chk.case({"cfg": cfg, "status": res["status"], "iterations": its} if chk.evaluations < 8 else None,
             json.dumps(cfg) if its >= 2 else None)
    if res["status"] != "done":
        # a target with many zero-weight particles may legitimately abort with "Log weights contain NaN": not C08's subject
        chk.count("aborted:" + type(res.get("exc")).__name__)
        return
    rec = c06.record_run(res)
    betas = [0.0] + rec["beta"]
    sig = {"sampler": res["cfg"]["sampler"]}
    ninf = int(np.sum(~np.isfinite(rec["pops"][0]["ll"])))
    if ninf:
        chk.count("runs_with_zero_weight_particles")
    # every per-step ratio and variance from the recorded (pre-resampling) population and the temperatures used
    for t in range(len(rec["beta"])):
        pop = rec["pops"][t]
        r_, v_, _, _ = c18.ref_step(pop, betas[t], betas[t + 1])
        scale = abs(betas[t + 1] - betas[t]) * float(np.max(np.abs(pop["ll"][np.isfinite(pop["ll"])])) + 10) + 1
        if not core.close(rec["ratio"][t], r_, 0, 1e-9 * scale):
            chk.fail("per-step ratio = log mean incremental weight of the pre-resampling population", case,
                     f"iteration {t + 1}: recorded {rec['ratio'][t]!r}, recomputed {r_!r}", {**sig, "clause": "ratio"})
        # relative accuracy of a two-pass variance of weights that are uniform to a relative spread delta is ~ eps / delta
        delta = math.sqrt(max(v_ * len(pop["ll"]), 0.0))
        vtol = 1e-6 * scale + (16 * 2.0 ** -52 / delta if delta > 0 else 1.0)
        if not core.close(rec["var"][t], v_, vtol, 1e-300):
            chk.fail("per-step variance", case, f"iteration {t + 1}: recorded {rec['var'][t]!r}, recomputed {v_!r}", {**sig, "clause": "var"})
        if res["cfg"]["ns"] == "numpy":
            lines.append(f"f64 ratio {fh(betas[t])} {fh(betas[t + 1])} {fl(pop['ll'])} {fl(pop['lp'])} {fl(pop['lq'])}")
            keep.append((case, t, rec["ratio"][t], rec["var"][t], rec["ess"][t], scale))
    z, ze = rec["final"]["logZ"], rec["final"]["logZerr"]
    if not core.close(z, math.fsum(rec["ratio"]), 1e-12, 1e-12):
        chk.fail("evidence = sum of the recorded ratios", case, f"{z!r} vs {math.fsum(rec['ratio'])!r}", {**sig, "clause": "sum"})
    if not core.close(ze, math.sqrt(math.fsum(rec["var"])), 1e-10, 1e-14):
        chk.fail("uncertainty = root of the summed variances", case, f"{ze!r} vs {math.sqrt(math.fsum(rec['var']))!r}", {**sig, "clause": "root"})
    if len(rec["ratio"]) != len(rec["beta"]):
        chk.fail("each step enters the sum once", case, f"{len(rec['ratio'])} ratios for {len(rec['beta'])} iterations", {**sig, "clause": "once"})
    if res["cfg"]["sampler"] != "minipcn_smc":
        return
    # ---- a second fresh run on the SAME sampler object: its evidence is the sum over ITS iterations only ----------------
    if int(cfg["seed"]) % 2 == 0:
        r6 = smcrun.run_smc({**cfg, "seed": int(cfg["seed"]) + 11}, reuse=res)
        chk.count("paired:second_run_same_object")
        if r6["status"] == "done":
            rec6 = c06.record_run(r6)
            b6 = [0.0] + rec6["beta"]
            if len(rec6["pops"]) == len(rec6["beta"]) + 1:
                tot = math.fsum(c18.ref_step(rec6["pops"][t], b6[t], b6[t + 1])[0] for t in range(len(rec6["beta"])))
                vtot = math.sqrt(math.fsum(c18.ref_step(rec6["pops"][t], b6[t], b6[t + 1])[1] for t in range(len(rec6["beta"]))))
            else:
                tot = vtot = float("nan")
            z6, e6 = rec6["final"]["logZ"], rec6["final"]["logZerr"]
            if not core.close(z6, tot, 1e-9, 1e-9 * (abs(tot) + 1)) or not core.close(e6, vtot, 1e-6, 1e-12):
                chk.fail("evidence = sum of the recorded ratios", dict(case, second_run_on_same_sampler=True),
                         f"second run on the same sampler object: evidence {z6!r} +- {e6!r}, sum over its own {len(rec6['beta'])} iterations recomputed from its "
                         f"populations {tot!r} +- {vtot!r} ({len(rec6['pops'])} stored populations)", {**sig, "clause": "sum", "reuse": True})
        else:
            chk.fail("run total", dict(case, second_run_on_same_sampler=True), repr(r6.get("exc")), {**sig, "clause": "raise", "reuse": True})
    # ---- paired runs -------------------------------------------------------------------------
    for every in (1, 3):
        r2 = smcrun.run_smc({**cfg, "checkpoint_every": every})
        chk.count("paired:cadence")
        if r2["status"] != "done" or float(r2["samples"].log_evidence) != z or [float(b) for b in r2["sampler"].history.beta] != rec["beta"]:
            chk.fail("estimate does not depend on checkpointing", case, f"checkpoint_every={every}: {r2['status']} "
                     f"{float(r2['samples'].log_evidence) if r2['status'] == 'done' else None!r} vs {z!r}", {**sig, "clause": "cadence"})
    # interrupted between two checkpoints and resumed from the live checkpoint dictionary / its bytes
    n_like = res["target"].n_like
    for route, k in (("dict", max(1, (2 * n_like) // 3)), ("bytes", max(1, n_like // 2))):
        r1 = smcrun.run_smc({**cfg, "checkpoint_every": 2}, fault_at=k, record_checkpoints=True)
        if r1["status"] == "fault" and r1["ckpts"]:
            src = r1["ckpts"][-1]["state"] if route == "dict" else r1["ckpts"][-1]["bytes"]
            # the resumed call restores the population from the checkpoint; `n_samples` of the resumed call (the top-level
            # default is 1000) is not the size of that population and must not enter any recorded quantity
            n_res = res["cfg"]["n_samples"] if route == "bytes" else 3 * res["cfg"]["n_samples"] + 1
            r5 = smcrun.resume_smc({**cfg, "checkpoint_every": 2, "n_samples": n_res}, src, record_checkpoints=True)
            chk.count(f"paired:resumed_{route}")
            if r5["status"] == "done" and float(r5["samples"].log_evidence) == z and float(r5["samples"].log_evidence_error) != ze:
                chk.fail("estimate does not depend on checkpointing", case,
                         f"fault at likelihood call {k}, resumed from the checkpoint {route} (n_samples={n_res} on the resumed call): "
                         f"uncertainty {float(r5['samples'].log_evidence_error)!r} vs {ze!r}", {**sig, "clause": "resumed_error", "route": route})
            if r5["status"] != "done" or float(r5["samples"].log_evidence) != z:
                chk.fail("estimate does not depend on checkpointing", case,
                         f"fault at likelihood call {k}, resumed from the checkpoint {route}: "
                         f"{float(r5['samples'].log_evidence) if r5['status'] == 'done' else r5['status']!r} vs {z!r}",
                         {**sig, "clause": "resumed", "route": route})
    nf = res["cfg"]["n_final_samples"]
    alt = None if nf is not None else 2 * res["cfg"]["n_samples"]
    r3 = smcrun.run_smc({**cfg, "n_final_samples": alt})
    chk.count("paired:enlargement")
    if r3["status"] != "done" or float(r3["samples"].log_evidence) != z:
        chk.fail("estimate does not depend on the final enlargement", case,
                 f"n_final_samples={alt}: {float(r3['samples'].log_evidence) if r3['status'] == 'done' else r3['status']!r} vs {z!r}", {**sig, "clause": "enlargement"})
    if len(rec["beta"]) >= 2:
        t = int(cfg["seed"]) % len(rec["beta"])
        r4 = run_with_rng(cfg, lambda seed: PerturbRng(seed, t))
        chk.count("paired:resampling_noise")
        if r4["status"] == "done":
            rr = [float(v) for v in r4["sampler"].history.log_norm_ratio]
            if rr[: t + 1] != rec["ratio"][: t + 1]:
                chk.fail("ratio of a step does not depend on that step's resampling noise", case,
                         f"step {t + 1} resampled differently: ratios {rr[:t + 1]} vs {rec['ratio'][:t + 1]}", {**sig, "clause": "noise"})


def verify_history(chk, case, res, sig, what):
    """every per-step ratio recomputed from the recorded (pre-resampling) populations and temperatures, and the final sum"""
    rec = c06.record_run(res)
    betas = [0.0] + rec["beta"]
    if len(rec["pops"]) != len(rec["beta"]) + 1:
        chk.fail("each step enters the sum once", case, f"{what}: {len(rec['pops'])} stored populations for {len(rec['beta'])} iterations", {**sig, "clause": "once", "scenario": what})
        return
    for t in range(len(rec["beta"])):
        pop = rec["pops"][t]
        r_, v_, _, _ = c18.ref_step(pop, betas[t], betas[t + 1])
        fin = pop["ll"][np.isfinite(pop["ll"])]
        scale = abs(betas[t + 1] - betas[t]) * float((np.max(np.abs(fin)) if len(fin) else 0.0) + 10) + 1
        if not core.close(rec["ratio"][t], r_, 0, 1e-9 * scale):
            chk.fail("per-step ratio = log mean incremental weight of the pre-resampling population", case,
                     f"{what}: iteration {t + 1}: recorded {rec['ratio'][t]!r}, recomputed from the recorded population {r_!r}", {**sig, "clause": "ratio", "scenario": what})
            return
    z = rec["final"]["logZ"]
    if not core.close(z, math.fsum(rec["ratio"]), 1e-12, 1e-12):
        chk.fail("evidence = sum of the recorded ratios", case, f"{what}: {z!r} vs {math.fsum(rec['ratio'])!r}", {**sig, "clause": "sum", "scenario": what})


def check_special_runs(chk, quick):
    """(a) a proposal that puts mass outside the prior support (the initial draw rejects and redraws): the evidence is still the sum of
    the recorded ratios, on a fresh run and on a resumed one; (b) a run interrupted by Ctrl-C INSIDE the mutation step of an iteration and
    resumed from whatever the dying run left behind (`last_checkpoint_bytes`, `last_checkpoint_state`): every ratio of the finished run is
    the one recomputed from the recorded populations"""
    for j in range(4 if quick else 16):
        cfg = {"seed": 400 + j, "dims": 2, "n_samples": 16, "kernel_steps": 2, "like_center": 0.4, "like_width": 0.5, "half": 2.0,
               "prop_mu": 0.0, "prop_sigma": float((2.5, 4.0)[j % 2]), "checkpoint_every": 1, "ns": ("numpy", "torch", "jax")[j % 3], "width": "f64"}
        sig = {"sampler": "minipcn_smc"}
        case = {"cfg": cfg, "mode": "leaking_proposal"}
        chk.count("special:leaking_proposal")
        chk.case(None, json.dumps(case))
        res = smcrun.run_smc(cfg, record_checkpoints=True)
        if res["status"] != "done":
            chk.count("aborted:" + type(res.get("exc")).__name__)
            continue
        verify_history(chk, case, res, sig, "proposal leaking outside the prior support")
        if res["ckpts"]:
            r2 = smcrun.resume_smc(cfg, res["ckpts"][0]["bytes"])
            if r2["status"] == "done":
                verify_history(chk, dict(case, resumed_from_first_checkpoint=True), r2, sig, "leaking proposal, resumed on a fresh sampler")
                if float(r2["samples"].log_evidence) != float(res["samples"].log_evidence):
                    chk.fail("estimate does not depend on checkpointing", case,
                             f"leaking proposal: resumed {float(r2['samples'].log_evidence)!r} vs uninterrupted {float(res['samples'].log_evidence)!r}", {**sig, "clause": "resumed", "route": "bytes"})
    for j in range(6 if quick else 24):
        cfg = {"seed": 500 + j, "dims": 2, "n_samples": 12, "kernel_steps": 3, "like_width": float((0.3, 0.6)[j % 2]), "checkpoint_every": (1, 2, 3)[j % 3],
               "fault_kind": ("interrupt", "exception")[j % 4 == 3]}
        sig = {"sampler": "minipcn_smc"}
        ref = smcrun.run_smc(cfg, record_checkpoints=True)
        if ref["status"] != "done" or ref["target"].n_like < 6:
            continue
        its = len(ref["sampler"].history.beta)
        # likelihood calls of one iteration happen inside the kernel: pick a call in the middle of iteration 2 (or later)
        k = int(ref["target"].n_like * (0.35 + 0.1 * (j % 5)))
        r1 = smcrun.run_smc(cfg, fault_at=k, record_checkpoints=True)
        if r1["status"] != "fault":
            continue
        s1 = r1["sampler"]
        for route in ("bytes", "dict"):
            src = s1.last_checkpoint_bytes if route == "bytes" else s1.last_checkpoint_state
            case = {"cfg": cfg, "mode": "interrupted_in_kernel", "fault_at_likelihood_call": k, "route": route, "iterations_uninterrupted": its}
            chk.count("special:interrupted_in_kernel")
            chk.case(None, json.dumps(case))
            if src is None:
                continue
            r2 = smcrun.resume_smc(cfg, src)
            if r2["status"] != "done":
                chk.fail("run total", case, repr(r2.get("exc"))[:200], {**sig, "clause": "raise"})
                continue
            verify_history(chk, case, r2, sig, f"interrupted ({cfg['fault_kind']}) inside the kernel, resumed from what the run left behind ({route})")
            if float(r2["samples"].log_evidence) != float(ref["samples"].log_evidence):
                chk.fail("estimate does not depend on checkpointing", case,
                         f"interrupted inside the kernel at likelihood call {k} and resumed: {float(r2['samples'].log_evidence)!r} vs uninterrupted {float(ref['samples'].log_evidence)!r}",
                         {**sig, "clause": "resumed", "route": route})


def run(chk: core.Check):
    r = np.random.default_rng(chk.seed + 8008)
    quick = chk.tier == "quick"
    chk.rule = ("whole SMC runs over targets (incl. likelihoods hugging a prior bound, so that zero-weight particles occur) x schedule "
                "options x n_final_samples x sampler x seed, plus 4 paired runs each (two cadences, enlargement toggled, one step's "
                "resampling draws replaced); non-trivial = at least two iterations; distinct = different configuration")
    chk.trusted += ["kernel doubles; numpy exp/log/sum"]
    drv = core.LeanDriver()
    lines, keep = [], []
    for i in range(24 if quick else 400):
        cfg, mode = gen_cfg(r, i)
        check_run(chk, cfg, mode, lines, keep)
    check_special_runs(chk, quick)
    # a numeric regime of its own: the proposal is (almost) exactly the posterior, so every incremental weight is the same to a relative
    # spread of 1e-5 .. 1e-7 and the run is one jump 0 -> 1; the per-step variance is then tiny, and it is still the variance of THESE weights
    # (to the accuracy a two-pass variance has: eps / spread)
    for j, rel in enumerate((3e-6, 1e-6, 3e-7, 1e-7) if quick else (1e-5, 3e-6, 1e-6, 3e-7, 1e-7, 3e-8)):
        for nsn in ("numpy", "torch", "jax")[: 1 if quick and j % 2 else 3]:
            cfg = {"seed": 900 + j, "dims": 2, "n_samples": 32, "kernel_steps": 1, "like_center": 0.5, "like_width": 0.7, "half": 10.0,
                   "prop_mu": 0.5, "prop_sigma": 0.7 * (1 + rel), "ns": nsn, "width": "f64"}
            check_run(chk, cfg, "near_exact_proposal", lines, keep)
    reps = drv.batch(lines)
    for (case, t, ratio, var, ess, scale), rep in zip(keep, reps):
        if not rep.ok:
            raise core.HarnessError(rep.err)
        mr = rep.f()
        mv = rep.f() if rep.tok() == "1" else float("nan")
        me = rep.f()
        if not core.close(mr, ratio, 0, 1e-9 * scale):
            chk.disagree("log_evidence_ratio", {**case, "iteration": t + 1}, mr, ratio)
        if not core.close(mv, var, 1e-6 * scale, 1e-13):
            chk.disagree("log_evidence_ratio_variance", {**case, "iteration": t + 1}, mv, var)
        if not core.close(me, ess, 1e-7 * scale):
            chk.disagree("ess", {**case, "iteration": t + 1}, me, ess)

    def search():
        sub = core.Check(chk.pid, chk.tier, chk.seed)
        sub.known, sub.matchers = chk.known, chk.matchers
        rr = np.random.default_rng(chk.seed + 123)
        for i in range(80):
            cfg, mode = gen_cfg(rr, i)
            check_run(sub, cfg, mode, [], [])
            if sub.failures:
                return sub.failures[0]
        return None

    return search


def replay(chk: core.Check, path: str) -> int:
    doc = json.loads(open(path).read())
    p = doc["payload"]
    cases = [p["case"]] if "case" in p else [d["case"] for d in p.get("correspondence", [])]
    for c in cases:
        check_run(chk, dict(c["cfg"]), c.get("mode", "replay"), [], [])
    for f in chk.failures[:10]:
        print("FAIL", f["clause"], f["detail"])
    print(f"replayed {len(cases)} case(s): {len(chk.failures)} oracle failure(s)")
    return 1 if chk.failures else 0
