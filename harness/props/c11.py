"""C11 — resuming from any checkpoint reproduces the uninterrupted run.

For each configuration: a reference run, then one run per likelihood-call index with a fault injected
at that call, resumed from the last checkpoint written (as bytes / the live dictionary / a .pkl path /
an .h5 path, fresh sampler, same arguments, same seeds) and compared bit-for-bit with the reference:
temperature schedule, every stored population, final samples, evidence, every history series.
The loop model (Model/Smc.lean, `smcloop` with cut + resume) predicts which checkpoint is resumed from
and must reproduce the same final evidence for the interrupted-and-resumed run as for the uninterrupted one.
The resume-from-file constructor route is exercised by the C12 / C14 machinery (needs a saved proposal).
"""
from __future__ import annotations

import json
import shutil
import tempfile

import numpy as np

from .. import core, ns, smcrun
from . import c06, c18


def gen_cfg(r, i):
    cfg, mode = c18.gen_cfg(r, i)
    # EmceeSMC draws from NumPy's GLOBAL random state (emcee copies it when the kernel is built): there is no random source a
    # checkpoint could carry or a caller could hand in again, so its runs are outside this property's quantifier (as in C20)
    cfg.pop("sampler", None)
    cfg["n_samples"] = int(r.choice([8, 12]))
    cfg["kernel_steps"] = int(r.choice([2, 3]))
    if i % 3 == 1:
        cfg["fault_kind"] = "interrupt"        # the interruption arrives as a KeyboardInterrupt instead of an Exception
    if cfg.get("n_final_samples") is not None and i % 2 == 0:
        # the final enlargement runs its kernel for another number of steps than the loop (sampler_kwargs["n_final_steps"])
        cfg["final_kernel_steps"] = cfg["kernel_steps"] + 2
    if i % 5 == 4:
        cfg["precond"] = {"bounded_to_unbounded": True, "bounded_transform": "logit", "affine_transform": bool(i % 2)}
    return cfg, mode


def snapshot(res) -> dict:
    rec = smcrun.history_record(res["sampler"].history)
    s = res["samples"]
    rec["final"] = {"x": ns.to_np(s.x), "ll": ns.to_np(s.log_likelihood), "lp": ns.to_np(s.log_prior),
                    "logZ": float(s.log_evidence), "logZerr": float(s.log_evidence_error)}
    return rec


def diff(ref: dict, got: dict) -> list[str]:
    bad = []
    for k in ("beta", "ess", "ess_target", "eff_target", "ratio", "var", "accept"):
        if len(ref[k]) != len(got[k]):
            bad.append(f"{k}: length {len(got[k])} vs {len(ref[k])}")
        elif ref[k] != got[k] and not np.array_equal(np.asarray(ref[k]), np.asarray(got[k]), equal_nan=True):
            j = int(np.argmax(np.asarray(ref[k]) != np.asarray(got[k])))
            bad.append(f"{k}[{j}]: {got[k][j]!r} vs {ref[k][j]!r}")
    if len(ref["pops"]) != len(got["pops"]):
        bad.append(f"sample_history: {len(got['pops'])} populations vs {len(ref['pops'])}")
    else:
        for t, (a, b) in enumerate(zip(ref["pops"], got["pops"])):
            for f in ("x", "ll", "lp", "lq"):
                if a[f].shape != b[f].shape or not np.array_equal(a[f], b[f], equal_nan=True):
                    bad.append(f"sample_history[{t}].{f} differs")
                    break
            if a["beta"] != b["beta"]:
                bad.append(f"sample_history[{t}].beta {b['beta']} vs {a['beta']}")
    for f in ("x", "ll", "lp"):
        if ref["final"][f].shape != got["final"][f].shape or not np.array_equal(ref["final"][f], got["final"][f], equal_nan=True):
            bad.append(f"final.{f} differs")
    for f in ("logZ", "logZerr"):
        if ref["final"][f] != got["final"][f] and not (np.isnan(ref["final"][f]) and np.isnan(got["final"][f])):
            bad.append(f"final.{f}: {got['final'][f]!r} vs {ref['final'][f]!r}")
    return bad


def run_cfg(chk, cfg, mode, drv_lines, keep, all_faults=True):
    ev = cfg.get("checkpoint_every") or 1
    ref = smcrun.run_smc(cfg, record_checkpoints=True)
    case0 = {"cfg": cfg, "mode": mode}
    chk.count(f"mode:{mode}")
    if smcrun.collapsed_population(ref):
        chk.count("skipped:population_collapsed_rejected_by_library")
        return
    if ref["status"] != "done":
        chk.fail("run total", case0, repr(ref.get("exc")), {"clause": "raise"})
        return
    R = snapshot(ref)
    rec0 = c06.record_run(ref)
    n_like = ref["target"].n_like
    ks = list(range(n_like)) if all_faults else sorted(set(int(v) for v in np.linspace(0, n_like - 1, 6)))
    tmp = tempfile.mkdtemp(prefix="aspire_verif_")
    try:
        # (a) every checkpoint written during the (uninterrupted) run, the forced final one included
        for j, ck in enumerate(ref["ckpts"]):
            route = smcrun.ROUTES[(j + cfg["seed"] + 1) % 4]
            src = smcrun.make_source({"ckpts": [ck], "sampler": ref["sampler"]}, route, tmp)
            case = {"cfg": cfg, "mode": mode, "resume_from_checkpoint_index": j, "route": route, "resumed_from_iteration": ck["iteration"],
                    "last": j == len(ref["ckpts"]) - 1}
            chk.count("resume_every_checkpoint")
            chk.case(None, json.dumps(cfg) + f"/ckpt{j}")
            r2 = smcrun.resume_smc(cfg, src, record_checkpoints=True)
            if r2["status"] != "done":
                chk.fail("resumed run completes", case, repr(r2.get("exc")), {"clause": "raise", "route": route})
                continue
            bad = diff(R, snapshot(r2))
            if bad:
                chk.fail("resumed run equals the uninterrupted run", case, "; ".join(bad[:6]),
                         {"clause": "equal", "route": route, "from": "checkpoint", "fields": sorted({b.split(":")[0].split("[")[0].split(".")[0] for b in bad})})
                continue
            # the same source used a second time (a resumed run that is itself interrupted before its next checkpoint is
            # resumed from the very same bytes / dictionary / file again)
            if route == "dict" or j % 3 == 0:
                chk.count("resume_same_source_twice")
                r3 = smcrun.resume_smc(cfg, src, record_checkpoints=True)
                case3 = dict(case, second_resume_from_same_source=True)
                if r3["status"] != "done":
                    chk.fail("resumed run completes", case3, repr(r3.get("exc")), {"clause": "raise", "route": route})
                    continue
                bad = diff(R, snapshot(r3))
                if bad:
                    chk.fail("resumed run equals the uninterrupted run", case3, "; ".join(bad[:6]),
                             {"clause": "equal", "route": route, "from": "checkpoint-second-use",
                              "fields": sorted({b.split(":")[0].split("[")[0].split(".")[0] for b in bad})})
        # (b) every interruption point between two checkpoints
        for j, k in enumerate(ks):
            r1 = smcrun.run_smc(cfg, fault_at=k, record_checkpoints=True)
            key = json.dumps(cfg) + f"/fault{k}"
            if r1["status"] != "fault":
                chk.case(None, None)
                continue
            route = smcrun.ROUTES[(j + cfg["seed"]) % 4]
            src = smcrun.make_source(r1, route, tmp)
            from_iter = r1["ckpts"][-1]["iteration"] if r1["ckpts"] else None
            done_iters = max(0, len(r1["sampler"].history.sample_history) - 1) if r1["sampler"].history else 0
            chk.count(f"route:{route}")
            chk.count("resume_from:" + ("none" if from_iter is None else "mid-run" if from_iter < len(R["beta"]) else "last"))
            case = {"cfg": cfg, "mode": mode, "fault_at_likelihood_call": k, "route": route, "resumed_from_iteration": from_iter}
            chk.case(case if chk.evaluations < 6 else None, key if from_iter is not None else None)
            r2 = smcrun.resume_smc(cfg, src, record_checkpoints=True) if src is not None else smcrun.run_smc(cfg, record_checkpoints=True)
            if r2["status"] != "done":
                chk.fail("resumed run completes", case, repr(r2.get("exc")), {"clause": "raise", "route": route})
                continue
            bad = diff(R, snapshot(r2))
            if bad:
                chk.fail("resumed run equals the uninterrupted run", case, "; ".join(bad[:6]),
                         {"clause": "equal", "route": route, "fields": sorted({b.split(":")[0].split("[")[0].split(".")[0] for b in bad})})
            # retry IN PLACE: the very sampler object whose run died continues from its own last checkpoint (what a `try: ... except: s.sample(...,
            # resume_from=s.last_checkpoint_bytes)` loop does) - nothing the aborted iteration left on the object may leak into the rest
            if j % 3 == 1 and r1["ckpts"]:
                chk.count("resume_in_place")
                r4 = smcrun.run_smc(cfg, reuse=r1, resume_from=r1["ckpts"][-1]["bytes"], record_checkpoints=True)
                case4 = dict(case, resumed_on_the_same_sampler_object=True, route="bytes")
                if r4["status"] != "done":
                    chk.fail("resumed run completes", case4, repr(r4.get("exc")), {"clause": "raise", "route": "bytes", "in_place": True})
                else:
                    bad4 = diff(R, snapshot(r4))
                    if bad4:
                        chk.fail("resumed run equals the uninterrupted run", case4, "retry in place: " + "; ".join(bad4[:6]),
                                 {"clause": "equal", "route": "bytes", "in_place": True, "fields": sorted({b.split(":")[0].split("[")[0].split(".")[0] for b in bad4})})
            # model: interrupted after `done_iters` completed iterations, resumed from its last checkpoint
            if len(drv_lines) < 400 and j % 3 == 0:
                drv_lines.append(c06.loop_line(cfg, rec0, ref["rng"], cut=done_iters, resume=True, every=ev))
                keep.append((case, R, from_iter, done_iters, ev))
    finally:
        shutil.rmtree(tmp, ignore_errors=True)


class _ResumeFromFileOnly:
    """view of the check object that keeps, of the C12 machinery's findings, only the fourth resume route of C11
    (`Aspire.resume_from_file` finishes like the uninterrupted run); everything else is C12's own subject"""

    KEEP = ("resume-from-file finishes like the uninterrupted run", "loadable by the documented resume route")

    def __init__(self, chk):
        self._chk = chk

    def fail(self, clause, case, detail, signature=None):
        if clause in self.KEEP:
            self._chk.fail("resumed run equals the uninterrupted run" if clause == self.KEEP[0] else "resumed run completes",
                           dict(case, route="resume_from_file"), detail, {**(signature or {}), "route": "resume_from_file"})

    def count(self, key, k=1):
        self._chk.count("file_route:" + key, k)

    def case(self, desc, key=None):
        self._chk.case(None, None if key is None else "file_route:" + key)

    def __getattr__(self, name):
        return getattr(self._chk, name)


def check_resume_from_file(chk, r, n):
    """route 4: interrupt a run that writes to a checkpoint file (explicit path, context, earlier work in the same context, periodic
    parameters), rebuild the object with Aspire.resume_from_file, finish with the default arguments"""
    from . import c12

    view = _ResumeFromFileOnly(chk)
    base = {"seed": 62965, "dims": 2, "n_samples": 12, "kernel_steps": 2, "every": 1, "like_width": 0.6, "pre_existing": False,
            "fault_kind": "exception", "periodic": False}
    corpus = [dict(base, route="auto", auto_pre="refit"), dict(base, route="auto", auto_pre="refit", periodic=True, seed=4711),
              dict(base, route="path", auto_pre="none", periodic=True), dict(base, route="auto", auto_pre="importance", every=2, n_final_samples=6)]
    for cfg in corpus:
        c12.check_cfg(view, cfg, all_faults=True)
    for i in range(n):
        c12.check_cfg(view, c12.gen_cfg(r, i), all_faults=True)


def check_state_dictionary(chk, r, n, lines, keep_state):
    """behavioural side of the ninth translator vocabulary (`Gen/SrcState.lean`): what the real `build_checkpoint_state` put into the
    dictionary the callback was handed, after the run went on, and what the real `restore_from_checkpoint` reads from it (live dictionary or
    the bytes pickled when the checkpoint was built) on ANOTHER sampler object, against the translated functions run by the Lean driver
    (`ckstate`) on the same history / temperature / iteration / minimum step / generator state"""
    import pickle

    for i in range(n):
        cfg = {"seed": int(r.integers(1, 10**5)), "dims": 2, "n_samples": 10, "kernel_steps": 1, "checkpoint_every": 1,
               "like_width": float(r.choice([0.3, 0.6])), **([{}, {"min_step": 0.05}, {"max_n_steps": 6}, {"adaptive": False, "n_steps": 4}][i % 4])}
        res = smcrun.run_smc(cfg, record_checkpoints=True)
        if res["status"] != "done" or not res["ckpts"]:
            continue
        betas = [float(b) for b in res["sampler"].history.beta]
        code = {}
        enc = lambda v: code.setdefault(float(v), len(code) + 1)     # noqa: E731
        for b in betas:
            enc(b)
        for j, ck in enumerate(res["ckpts"][:-1] if len(res["ckpts"]) > 1 else res["ckpts"]):
            st = ck["state"]
            it = int(st["iteration"])
            route = ("dict", "bytes")[(i + j) % 2]
            has_rng2 = (i + j) % 3 != 2
            s2, _ = smcrun.make_sampler(cfg, smcrun.Target(2))
            s2.rng = np.random.default_rng(4242) if has_rng2 else np.random.RandomState(7)     # RandomState has no `bit_generator`
            case = {"level": "state_dictionary", "cfg": cfg, "checkpoint_index": j, "route": route, "restorer_has_bit_generator": has_rng2}
            chk.count("state_dictionary")
            chk.case(None, json.dumps(case))
            try:
                smp, beta, iteration = s2.restore_from_checkpoint(st if route == "dict" else ck["bytes"])
            except Exception as e:   # noqa
                chk.fail("resumed run completes", case, repr(e)[:200], {"clause": "raise", "level": "state_dictionary"})
                continue
            saved_rng = pickle.loads(ck["bytes"])["rng_state"]
            rng_now = s2.rng.bit_generator.state if has_rng2 else None
            fresh_rng = np.random.default_rng(4242).bit_generator.state
            rng_code = "none" if not has_rng2 else ("some 41" if pickle.dumps(rng_now) == pickle.dumps(saved_rng) else "some 0" if pickle.dumps(rng_now) == pickle.dumps(fresh_rng) else "some 99")
            ms = s2._restored_min_step
            pop_ok = np.array_equal(ns.to_np(smp.x), ns.to_np(pickle.loads(ck["bytes"])["samples"].x))
            h2 = [enc(b) for b in s2.history.beta]
            hd = [enc(b) for b in st["history"].beta]
            impl = " ".join(["5" if pop_ok else "0", str(enc(beta)), str(iteration), str(len(h2))] + [str(v) for v in h2]) + " | " + rng_code + " | " + \
                   ("none" if ms is None else f"some {enc(ms)}") + " | " + " ".join(str(v) for v in hd)
            later = [[enc(b) for b in betas[:k]] for k in range(it + 1, len(betas) + 1)]
            line = " ".join(["f64", "ckstate", str(it)] + [str(enc(b)) for b in betas[:it]] + ["5", str(it), str(enc(betas[it - 1]) if it else 0)]
                            + [str(-1 if ck["state"]["meta"]["min_step"] is None else enc(ck["state"]["meta"]["min_step"])), "41", str(len(later))]
                            + [" ".join([str(len(h))] + [str(v) for v in h]) for h in later] + ["0" if has_rng2 else "-1", route])
            lines.append(line)
            keep_state.append((case, " ".join(impl.split())))


def check_reused_sampler(chk, r, n):
    """the SAME sampler object serves a second `sample()` run (another seed: a second chain, a repeat with more steps): every checkpoint
    the second run writes - in particular its first one, also when it falls on the iteration count at which the first run ended - resumes,
    on a fresh object, to what the second run itself produced"""
    for i in range(n):
        T = int(r.choice([1, 2, 3, 4]))
        every = [T, 1, T, 2][i % 4]
        cfg = {"seed": int(r.integers(1, 10**5)), "dims": 2, "n_samples": int(r.choice([8, 12])), "kernel_steps": 2, "adaptive": False, "n_steps": T,
               "checkpoint_every": every, "like_width": float(r.choice([0.5, 1.0])), "n_final_samples": (None, 10)[i % 2]}
        cfg2 = dict(cfg, seed=cfg["seed"] + 1000, n_steps=T if i % 3 else T + (i % 2))
        reused_one(chk, cfg, cfg2)


def reused_one(chk, cfg, cfg2):
    if True:
        case0 = {"level": "reused_sampler", "cfg": cfg, "cfg2": cfg2}
        chk.count("reused_sampler")
        chk.case(None, json.dumps(case0))
        first = smcrun.run_smc(cfg, record_checkpoints=True)
        if first["status"] != "done":
            chk.fail("run total", case0, repr(first.get("exc")), {"clause": "raise", "level": "reused_sampler"})
            return
        second = smcrun.run_smc(cfg2, record_checkpoints=True, reuse=first)
        if second["status"] != "done":
            chk.fail("run total", case0, repr(second.get("exc")), {"clause": "raise", "level": "reused_sampler"})
            return
        R = snapshot(second)
        for j, ck in enumerate(second["ckpts"]):
            case = dict(case0, resume_from_checkpoint_index=j, resumed_from_iteration=ck["iteration"], iterations_of_first_run=len(first["sampler"].history.beta) if hasattr(first["sampler"].history, "beta") else None)
            chk.count("reused_sampler_checkpoints")
            r2 = smcrun.resume_smc(cfg2, ck["bytes"], record_checkpoints=True)
            if r2["status"] != "done":
                chk.fail("resumed run completes", case, repr(r2.get("exc")), {"clause": "raise", "route": "bytes", "level": "reused_sampler"})
                continue
            bad = diff(R, snapshot(r2))
            if bad:
                chk.fail("resumed run equals the uninterrupted run", case, "second run of one sampler object, checkpoint %d (iteration %s): " % (j, ck["iteration"]) + "; ".join(bad[:6]),
                         {"clause": "equal", "route": "bytes", "level": "reused_sampler", "fields": sorted({b.split(":")[0].split("[")[0].split(".")[0] for b in bad})})
                break


def run(chk: core.Check):
    r = np.random.default_rng(chk.seed + 11011)
    quick = chk.tier == "quick"
    chk.rule = ("MiniPCNSMC configurations (schedule options x cadence 1-3 x n_final_samples x preconditioning) x a fault at EVERY "
                "likelihood-call index x resume route (bytes, live dict, .pkl path, .h5 path); non-trivial = a checkpoint existed at the "
                "fault; distinct = different (configuration, fault index)")
    chk.trusted += ["kernel doubles; pickle and h5py store bytes faithfully; numpy Generator state round-trips through pickle",
                    "EmceeSMC draws its kernel randomness from numpy's global state (not a source handed to aspire): excluded"]
    chk.assumptions += ["user likelihood/prior are deterministic functions of the coordinates"]
    drv = core.LeanDriver()
    lines, keep = [], []
    for i in range(30 if quick else 300):
        cfg, mode = gen_cfg(r, i)
        run_cfg(chk, cfg, mode, lines, keep, all_faults=True)
    # schedules decided by the minimum-step floor at EVERY step: the accumulated multiples of min_step stop one ulp short of 1 (ten additions
    # of 0.1 give 0.9999999999999999), the uninterrupted run then makes one more iteration to exactly 1 - and so must a run resumed from
    # the checkpoint taken just before it
    for j, ms in enumerate((0.1, 1 / 6, 1 / 7) if quick else (0.1, 1 / 6, 1 / 7, 1 / 13, 0.05, 1 / 3)):
        cfg = {"seed": 700 + j, "n_samples": 10, "dims": 3, "like_width": 0.05, "kernel_steps": 1, "min_step": ms, "target_efficiency": 0.95,
               "checkpoint_every": 1}
        run_cfg(chk, cfg, "floor_bound", lines, keep, all_faults=False)
    check_resume_from_file(chk, r, 8 if quick else 60)
    check_reused_sampler(chk, np.random.default_rng(chk.seed + 1109), 12 if quick else 120)
    st_lines, st_keep = [], []
    check_state_dictionary(chk, np.random.default_rng(chk.seed + 1110), 8 if quick else 80, st_lines, st_keep)
    for (case, impl), rep in zip(st_keep, drv.batch(st_lines)):
        if not rep.ok:
            raise core.HarnessError(rep.err)
        model = " ".join(rep.rest()) if hasattr(rep, "rest") else None
        if model != impl:
            chk.disagree("checkpoint_state_dictionary", case, model, impl)
    reps = drv.batch(lines)
    for (case, R, from_iter, done_iters, ev), rep in zip(keep, reps):
        if not rep.ok:
            raise core.HarnessError(rep.err)
        m = c06.parse_loop(rep)
        if m["status"] != "done":
            chk.disagree("smcloop.resume.status", case, m["status"], "done")
            continue
        exp_kind = "resumed" if from_iter is not None else "resumed-fresh"
        if m.get("resume_kind") not in (exp_kind, "not-interrupted"):
            chk.disagree("smcloop.resume.checkpoint", case, m.get("resume_kind"), exp_kind)
        if len(m["beta"]) != len(R["beta"]) or m["npops"] != len(R["pops"]):
            if not c06.knife_edge_run(case, {"pops": R["pops"]}, m["beta"], R["beta"]):
                chk.disagree("smcloop.resume.history", case, [len(m["beta"]), m["npops"]], [len(R["beta"]), len(R["pops"])])
        elif not core.close(m["logZ"], R["final"]["logZ"], 0, 1e-4 + 1e-6 * abs(m["logZ"])):
            chk.disagree("smcloop.resume.log_evidence", case, m["logZ"], R["final"]["logZ"])

    def search():
        sub = core.Check(chk.pid, chk.tier, chk.seed)
        sub.known, sub.matchers = chk.known, chk.matchers
        rr = np.random.default_rng(chk.seed + 808)
        for i in range(20):
            cfg, mode = gen_cfg(rr, i)
            run_cfg(sub, cfg, mode, [], [], all_faults=True)
            if sub.failures:
                return sub.failures[0]
        return None

    return search


def replay(chk: core.Check, path: str) -> int:
    doc = json.loads(open(path).read())
    p = doc["payload"]
    cases = [p["case"]] if "case" in p else [d["case"] for d in p.get("correspondence", [])]
    for c in cases:
        if c.get("level") == "reused_sampler":
            reused_one(chk, dict(c["cfg"]), dict(c["cfg2"]))
            continue
        run_cfg(chk, dict(c["cfg"]), c.get("mode", "replay"), [], [], all_faults=True)
    for f in chk.failures[:10]:
        print("FAIL", f["clause"], f["case"].get("fault_at_likelihood_call"), f["detail"])
    print(f"replayed {len(cases)} configuration(s): {len(chk.failures)} oracle failure(s)")
    return 1 if chk.failures else 0
