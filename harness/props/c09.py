"""C09 — resampling selects by incremental weight and copies particles intact.

The generator handed to the real `SMCSamples.resample` is wrapped so that the probability vector
and the drawn indices are captured; the vector is compared with the Lean model
(Model/Tempering.lean `resampleP`) and with the normalised incremental weights, every output row
with the source row at the captured index.  Also checked inside whole runs (the sampler's own
generator is wrapped the same way).
"""
from __future__ import annotations

import json
import math

import numpy as np

from .. import core, ns, smcrun
from ..core import fh, fl
from . import c06

NSS = ("numpy", "torch", "jax")


def gen_case(r, i, tier):
    kind = ["moderate", "moderate", "peaked", "ties", "dominant", "flat"][i % 6]
    nsn = NSS[(i // 6) % 3]
    width = "f64" if (i // 18) % 2 == 0 else "f32"
    n = int(r.choice([2, 3, 8, 25, 60]))
    d = int(r.integers(1, 4))
    ll, lp, lq = c06.gen_population(r, n, kind)
    if width == "f32":
        ll, lp, lq = (np.clip(v, -1e30, 1e30).astype(np.float32).astype(np.float64) for v in (ll, lp, lq))
    b0 = float(r.choice([0.0, 0.0, r.uniform(0, 0.9)]))
    b1 = float(r.choice([1.0, r.uniform(b0, 1.0), min(1.0, b0 + 10 ** r.uniform(-6, -1)), min(1.0, b0 + 10 ** r.uniform(-12, -7))]))
    if b1 - b0 < 1e-6 and kind in ("moderate", "peaked"):
        # a tiny temperature move is only visible in the weights when the log-weights are huge
        ll = ll * (10 ** r.uniform(8, 11) / max(1.0, float(np.max(np.abs(ll)))))
    if b1 <= b0:
        b1 = min(1.0, b0 + 0.1)
    if i % 7 == 3:
        # only the SIZE changes (the enlargement to n_final_samples at beta = 1, a thinning): the incremental weights are all equal
        b0 = b1 = float(r.choice([1.0, b0, 0.5]))
    x = r.normal(0, 1, (n, d))
    if r.random() < 0.3:
        x = x * 1e9 + 1.1e9          # large coordinates: a float32 round trip would be visible
    if width == "f32":
        x = x.astype(np.float32).astype(np.float64)
    return {"kind": kind, "ns": nsn, "width": width, "n": n, "d": d, "x": x.tolist(), "ll": ll.tolist(), "lp": lp.tolist(),
            "lq": lq.tolist(), "beta": b0, "beta_new": b1,
            # the requested size: default, any size up to twice the population, and the boundary request of an EMPTY population
            # (with an unchanged temperature and no size the call is documented to hand back the population itself: a size is always given then)
            "n_out": 0 if i % 11 == 5 else (None if r.random() < 0.5 and b1 != b0 else int(r.integers(1, 2 * n + 2))),
            "seed": int(r.integers(1 << 30)), "touch": bool(r.random() < 0.3),
            "ll_first": (ll + r.normal(0, 1, n)).tolist()}


def run_impl(c):
    from aspire.samples import SMCSamples

    xp = ns.get_xp(c["ns"])
    dt = ns.native_dtype(c["ns"], c["width"])
    first = np.asarray(c["ll_first"] if c.get("touch") else c["ll"])
    pop = SMCSamples(x=np.asarray(c["x"]), log_likelihood=first, log_prior=np.asarray(c["lp"]),
                     log_q=np.asarray(c["lq"]), beta=c["beta"], xp=xp, dtype=dt, parameters=[f"p{i}" for i in range(c["d"])])
    if c.get("touch"):
        # the library's own idiom (mutate, initial draw): build, query, then assign the log-likelihood column;
        # the resampling must use the values present when it is called
        with np.errstate(all="ignore"):
            pop.log_weights(min(1.0, c["beta"] + 0.05))
        pop.log_likelihood = pop.array_to_namespace(np.asarray(c["ll"]))
    rng = smcrun.RecRng(c["seed"])
    with np.errstate(all="ignore"):
        out = pop.resample(c["beta_new"], n_samples=c["n_out"], rng=rng)
    return pop, out, rng


def check_cases(chk, cases):
    drv = core.LeanDriver()
    lines, res = [], []
    for c in cases:
        try:
            res.append(run_impl(c))
        except Exception as e:   # noqa
            res.append(e)
        lines.append(f"{c['width']} resample {fh(c['beta'])} {fh(c['beta_new'])} {fl(c['ll'])} {fl(c['lp'])} {fl(c['lq'])}")
    reps = drv.batch(lines)
    for c, rres, rep in zip(cases, res, reps):
        chk.count(f"ns:{c['ns']}/{c['width']}")
        chk.count(f"pop:{c['kind']}")
        chk.count("n_out:" + ("default" if c["n_out"] is None else "zero" if c["n_out"] == 0 else "given"))
        key = json.dumps([c["ns"], c["width"], c["ll"][:5], c["beta"], c["beta_new"], c["n_out"], c["seed"]])
        lw = np.asarray(c["ll"]) + np.asarray(c["lp"]) - np.asarray(c["lq"])
        chk.case({k: c[k] for k in ("kind", "ns", "width", "n", "d", "beta", "beta_new", "n_out")} if chk.evaluations < 10 else None,
                 key if len(set(lw.tolist())) > 1 else None)
        case = dict(c)
        sig = {"ns": c["ns"], "width": c["width"]}
        if isinstance(rres, Exception):
            chk.fail("resample total", case, repr(rres), {**sig, "clause": "raise", "exc": type(rres).__name__})
            continue
        pop, out, rng = rres
        if not rng.choices and rng.uniform_draws and rng.uniform_draws[-1]["low"] == 0:
            rng.choices.append(rng.uniform_draws[-1])        # a uniform index draw is a selection with equal probabilities
        if not rng.choices:
            chk.fail("resample draws from the population", case, "generator.choice was not called", {**sig, "clause": "nochoice"})
            continue
        ch = rng.choices[-1]
        if not ch.get("replace", True) or ch.get("a") != c["n"]:
            chk.fail("selection probability is the normalised incremental weight", case,
                     f"the generator was asked for draws over {ch.get('a')} items with replace={ch.get('replace')}: every new particle must be drawn "
                     f"independently from all {c['n']} particles with its weight as probability", {**sig, "clause": "iid_draws"})
            continue
        p, idx = ch["p"], np.asarray(ch["idx"]).reshape(-1)
        n_req = c["n"] if c["n_out"] is None else c["n_out"]
        eps = 2.0 ** -52 if c["width"] == "f64" else 2.0 ** -23
        # --- model vs implementation
        if not rep.ok:
            raise core.HarnessError(rep.err)
        mp = np.asarray(rep.fs())
        a = (c["beta_new"] - c["beta"]) * lw
        scale = abs(c["beta_new"] - c["beta"]) * float(np.max(np.abs(c["ll"])) + np.max(np.abs(c["lp"])) + np.max(np.abs(c["lq"]))) * 4 + 1
        if len(mp) != len(p) or not np.allclose(mp, p, rtol=64 * eps * scale * 4, atol=1e-300 if c["width"] == "f64" else 1e-36):
            chk.disagree("resample.p", case, mp[:5].tolist(), p[:5].tolist())
        # --- oracle: p_i proportional to the incremental weight
        u = np.exp(a - np.max(a))
        pref = u / math.fsum(u)
        if len(p) != c["n"] or not np.allclose(p, pref, rtol=256 * eps * scale, atol=1e-300 if c["width"] == "f64" else 1e-36):
            j = int(np.argmax(np.abs(p - pref))) if len(p) == c["n"] else -1
            chk.fail("selection probability is the normalised incremental weight", case,
                     f"p[{j}]={p[j] if j >= 0 else None} expected {pref[j] if j >= 0 else None}", {**sig, "clause": "p"})
        if abs(float(np.sum(p)) - 1.0) > max(1e-8, 8 * eps * len(p)):
            chk.fail("probabilities sum to one", case, f"sum p = {np.sum(p)!r}", {**sig, "clause": "psum"})
        # --- rows copied intact from the same source row
        src = {"x": ns.to_np(pop.x), "ll": ns.to_np(pop.log_likelihood), "lp": ns.to_np(pop.log_prior), "lq": ns.to_np(pop.log_q)}
        got = {"x": ns.to_np(out.x), "ll": ns.to_np(out.log_likelihood), "lp": ns.to_np(out.log_prior), "lq": ns.to_np(out.log_q)}
        if len(got["x"]) != n_req or len(idx) != n_req:
            chk.fail("requested size", case, f"{len(got['x'])} rows, {len(idx)} indices, requested {n_req}", {**sig, "clause": "size"})
            continue
        for f in ("x", "ll", "lp", "lq"):
            if not np.array_equal(got[f], src[f][idx], equal_nan=True):
                bad = int(np.argmax(np.any(np.atleast_2d((got[f] != src[f][idx]).T).T.reshape(n_req, -1), axis=1)))
                chk.fail("each drawn particle is an exact copy of one source row", case,
                         f"field {f}: output row {bad} differs from source row {idx[bad]}", {**sig, "clause": "copy", "field": f})
                break
        if out.beta is None or float(out.beta) != c["beta_new"]:
            chk.fail("resampled population carries the new temperature", case, f"beta={out.beta!r}", {**sig, "clause": "beta"})
        if ns.ns_of(out.x) != c["ns"] or ns.width_of(out.x) != c["width"]:
            chk.fail("each drawn particle is an exact copy of one source row", case,
                     f"namespace/dtype {ns.ns_of(out.x)}/{ns.width_of(out.x)} != {c['ns']}/{c['width']}", {**sig, "clause": "copy", "field": "dtype"})


def check_in_runs(chk, r, n_runs):
    """the same clauses on the choices made inside whole runs"""
    for i in range(n_runs):
        cfg = {"seed": int(r.integers(1, 10000)), "n_samples": int(r.choice([12, 24])), "dims": 2, "kernel_steps": 2,
               "n_final_samples": None if i % 2 else int(r.choice([6, 40]))}
        res = smcrun.run_smc(cfg)
        chk.case(None, json.dumps(cfg))
        chk.count("in-run")
        if smcrun.collapsed_population(res):
            chk.count("skipped:population_collapsed_rejected_by_library")
            continue
        if res["status"] != "done":
            chk.fail("run total", {"level": "run", "cfg": cfg}, repr(res.get("exc")), {"clause": "raise"})
            continue
        rec = smcrun.history_record(res["sampler"].history)
        betas = [0.0] + rec["beta"]
        for t, ch in enumerate(res["rng"].choices):
            if t < len(rec["beta"]):
                pop, b0, b1 = rec["pops"][t], betas[t], betas[t + 1]
            else:
                pop, b0, b1 = rec["pops"][-1], 1.0, 1.0
            lw = pop["ll"] + pop["lp"] - pop["lq"]
            a = (b1 - b0) * lw
            u = np.exp(a - np.max(a))
            pref = u / math.fsum(u)
            if len(ch["p"]) != len(pref) or not np.allclose(ch["p"], pref, rtol=1e-9):
                chk.fail("selection probability is the normalised incremental weight", {"level": "run", "cfg": cfg, "iteration": t + 1},
                         "probability vector of the run's resampling step differs", {"clause": "p", "level": "run"})


def run(chk: core.Check):
    r = np.random.default_rng(chk.seed + 9009)
    quick = chk.tier == "quick"
    chk.rule = ("SMCSamples.resample on generated populations (moderate / peaked / ties / dominant / flat, optional large common "
                "offset) x temperature pair x requested size x namespace x width, with a generator proxy capturing p and the indices; "
                "non-trivial = at least two distinct log-weights; distinct = different (namespace, width, population, temperatures, size, seed)")
    chk.trusted += ["numpy Generator.choice draws index i with the probability p[i] it is handed (the captured vector is what is checked)"]
    cases = [gen_case(r, i, chk.tier) for i in range(360 if quick else 14400)]
    for i in range(0, len(cases), 360):
        check_cases(chk, cases[i:i + 360])
    check_in_runs(chk, r, 10 if quick else 200)

    def search():
        sub = core.Check(chk.pid, chk.tier, chk.seed)
        sub.known, sub.matchers = chk.known, chk.matchers
        rr = np.random.default_rng(chk.seed + 31337)
        check_cases(sub, [gen_case(rr, i, "thorough") for i in range(1800)])
        return sub.failures[0] if sub.failures else None

    return search


def replay(chk: core.Check, path: str) -> int:
    doc = json.loads(open(path).read())
    p = doc["payload"]
    cases = [p["case"]] if "case" in p else [d["case"] for d in p.get("correspondence", [])]
    check_cases(chk, [c for c in cases if "ll" in c])
    for f in chk.failures:
        print("FAIL", f["clause"], f["detail"])
    for d in chk.disagreements:
        print("DISAGREE", d["op"], d["model"], d["impl"])
    print(f"replayed {len(cases)} case(s): {len(chk.failures)} oracle failure(s), {len(chk.disagreements)} disagreement(s)")
    return 1 if (chk.failures or chk.disagreements) else 0
