"""C13 — saved samples, histories, transforms, flows and configuration reload unchanged.

(1) generic codec: random nested dictionaries (None, empty dicts, nested dicts, string lists, numpy scalars and arrays, bools, ints, floats) through
    the real `recursively_save_to_h5_file` / `load_from_h5_file`  vs  the Lean model (Model/Codec.lean, op `codec`) and vs the original (oracle);
(2) sample sets: every class x namespace x dtype x optional-field subset x flat/nested layout x parameter-name order: save -> load -> observational equality;
(3) histories (FlowHistory, SMCHistory with stored populations), (4) every transform class with fitted state, (5) zuko and flowjax flows with
    default and custom options: same maps / densities after reload;
(6) an `Aspire` rebuilt by `resume_from_file` has the same settings (bounds, periodic parameters, flow options, namespace, precision).
"""
from __future__ import annotations

import json
import os
import shutil
import tempfile

import numpy as np

from .. import aspire_level as al
from .. import core, ns, smcrun
from ..core import fh

NSS = ("numpy", "torch", "jax")


# ----------------------------------------------------------------------------- (1) generic codec
def hx(s: str) -> str:
    return "-" if s == "" else s.encode().hex()


def gen_tree(r, depth=0):
    """a random configuration-like dictionary and its wire form"""
    n = int(r.integers(1, 5))
    d = {}
    for i in range(n):
        k = str(r.choice(["alpha", "b", "key_1", "Zed", "x_10", "x_2", "mass", "n"])) + (str(i) if r.random() < 0.5 else "")
        kind = r.choice(["none", "empty", "bool", "int", "float", "str", "strs", "nums", "npscalar", "nparray", "zerod", "dict"])
        if kind == "dict" and depth >= 2:
            kind = "int"
        if kind == "none":
            d[k] = None
        elif kind == "empty":
            d[k] = {}
        elif kind == "bool":
            d[k] = bool(r.random() < 0.5)
        elif kind == "int":
            d[k] = int(r.integers(-5, 100))
        elif kind == "float":
            d[k] = float(r.normal())
        elif kind == "str":
            d[k] = str(r.choice(["logit", "zuko", "cpu", "", "a.b", "None", "\u03c3-clip"]))
        elif kind == "strs":
            d[k] = [str(v) for v in r.choice(["m1", "m2", "chirp", "x", "\u03b8_jn", "\u0394m"], int(r.integers(1, 4)))]
        elif kind == "nums":
            d[k] = [float(v) for v in r.normal(size=int(r.integers(1, 4)))] if r.random() < 0.5 else tuple(float(v) for v in r.normal(size=2))
        elif kind == "npscalar":
            d[k] = np.float64(r.normal()) if r.random() < 0.5 else np.int64(r.integers(10))
        elif kind == "nparray":
            d[k] = r.normal(size=int(r.integers(1, 4)))
        elif kind == "zerod":
            # a scalar held as a 0-d array (what torch / jax sample sets carry as log-evidence, beta, ...)
            val = float(r.normal())
            which = int(r.integers(3))
            if which == 0:
                d[k] = np.asarray(val)
            elif which == 1:
                import torch

                d[k] = torch.tensor(val, dtype=torch.float64)
            else:
                import jax.numpy as jnp

                ns.enable_x64()
                d[k] = jnp.asarray(val)
        else:
            d[k] = gen_tree(r, depth + 1)
    return d


def wire(v) -> str:
    if isinstance(v, dict):
        if not v:
            return "L empty"
        return " ".join(["D", str(len(v))] + [hx(k) + " " + wire(x) for k, x in v.items()])
    if v is None:
        return "L none"
    if isinstance(v, (bool, np.bool_)):
        return f"L bool {int(v)}"
    if isinstance(v, (int, np.integer)):
        return f"L int {int(v)}"
    if isinstance(v, (float, np.floating)):
        return "L num " + fh(float(v))
    if hasattr(v, "shape") and tuple(v.shape) == ():          # a 0-d array / tensor IS a number
        return "L num " + fh(float(v))
    if isinstance(v, str):
        return "L str " + hx(v)
    if isinstance(v, (list, tuple)) and v and all(isinstance(x, str) for x in v):
        return " ".join(["L strs", str(len(v))] + [hx(x) for x in v])
    arr = np.asarray(v, dtype=float).reshape(-1)
    return " ".join(["L nums", str(len(arr))] + [fh(x) for x in arr])


def canon(v):
    """observational form: numbers as floats, sequences of numbers as tuples, dict entries sorted"""
    if isinstance(v, dict):
        return {k: canon(x) for k, x in sorted(v.items())}
    if v is None or isinstance(v, (bool, np.bool_, str)):
        return bool(v) if isinstance(v, (bool, np.bool_)) else v
    if isinstance(v, (int, np.integer)):
        return int(v)
    if isinstance(v, (float, np.floating)):
        return float(v)
    if hasattr(v, "shape") and not isinstance(v, (str, bytes)) and tuple(v.shape) == () and getattr(getattr(v, "dtype", None), "kind", "f") in "fiu":
        return float(v)
    if isinstance(v, (list, tuple)) and all(isinstance(x, str) for x in v):
        return [str(x) for x in v]
    if isinstance(v, bytes):
        return ("bytes", v)                       # a string that came back undecoded is NOT observationally a string
    a = np.asarray(v)
    if a.dtype.kind in "SOU":
        return ("undecoded-array", tuple(x if isinstance(x, str) else ("bytes", bytes(x)) for x in a.reshape(-1).tolist()))
    return tuple(float(x) for x in np.asarray(v, dtype=float).reshape(-1))


def parse_wire(toks):
    t = toks.pop(0)
    if t == "D":
        n = int(toks.pop(0))
        out = {}
        for _ in range(n):
            k = toks.pop(0)
            out[bytes.fromhex(k).decode() if k != "-" else ""] = parse_wire(toks)
        return out
    kind = toks.pop(0)
    if kind == "none":
        return None
    if kind == "empty":
        return {}
    if kind == "bool":
        return toks.pop(0) == "1"
    if kind == "int":
        return int(toks.pop(0))
    if kind == "num":
        return core.hf(toks.pop(0))
    if kind == "str":
        k = toks.pop(0)
        return bytes.fromhex(k).decode() if k != "-" else ""
    if kind == "strs":
        n = int(toks.pop(0))
        return [bytes.fromhex(toks.pop(0)).decode() for _ in range(n)]
    n = int(toks.pop(0))
    return tuple(core.hf(toks.pop(0)) for _ in range(n))


def wf(v, top=True) -> bool:
    if isinstance(v, dict):
        return all(k and "." not in k and wf(x, False) for k, x in v.items())
    if isinstance(v, str):
        return v not in ("__none__", "__empty_dict__")
    return True


def check_codec(chk, r, n, tmp):
    import h5py

    from aspire.utils import load_from_h5_file, recursively_save_to_h5_file

    drv = core.LeanDriver()
    trees = [gen_tree(r) for _ in range(n)]
    trees = [t for t in trees if wf(t)]
    reps = drv.batch(["f64 codec " + wire(t) for t in trees])
    for i, (t, rep) in enumerate(zip(trees, reps)):
        p = os.path.join(tmp, f"codec{i}.h5")
        case = {"level": "codec", "tree": json.loads(json.dumps(t, default=lambda o: o.tolist() if hasattr(o, "tolist") else str(o)))}
        chk.count("codec_trees")
        depth = lambda v: 1 + max([depth(x) for x in v.values() if isinstance(x, dict)] + [0]) if isinstance(v, dict) else 0
        chk.count(f"codec_depth:{depth(t)}")
        chk.case(case if chk.evaluations < 4 else None, json.dumps(case["tree"], sort_keys=True) if depth(t) >= 2 or any(v is None or (isinstance(v, dict) and not v) for v in t.values()) else None)
        try:
            with h5py.File(p, "w") as f:
                recursively_save_to_h5_file(f, "cfg", t)
            with h5py.File(p, "r") as f:
                back = load_from_h5_file(f, "cfg")
            os.remove(p)
        except Exception as e:   # noqa
            chk.fail("a saved dictionary reloads", case, repr(e)[:200], {"level": "codec", "clause": "raise"})
            continue
        if canon(back) != canon(t):
            chk.fail("a saved dictionary reloads to an observationally equal one", case,
                     f"reloaded {json.dumps(canon(back), default=str)[:300]}", {"level": "codec", "clause": "equal"})
        if not rep.ok:
            raise core.HarnessError(rep.err)
        m = parse_wire(list(rep.t))
        if canon(m) != canon(back):
            chk.disagree("codec", case, json.dumps(canon(m), default=str)[:300], json.dumps(canon(back), default=str)[:300])


# ----------------------------------------------------------------------------- (2) sample sets
def check_samples(chk, r, tmp, quick):
    import h5py

    from aspire.samples import BaseSamples, Samples, SMCSamples

    # parameter names as users write them: short, non-alphabetical, more than ten generated ones, and non-ASCII (Greek letters, \u0394m)
    names_sets = [["a", "b"], ["mass", "distance", "chirp"], [f"x_{i}" for i in range(12)], ["\u03b1", "mass", "\u0394m_21"]]
    # a model whose parameters are called like fields of the containers (a temperature `beta`, a `log_q`), saved with DEFAULT arguments
    combos = [(K, n, w, flds, flat, nm) for K in (BaseSamples, Samples, SMCSamples) for n in NSS for w in ("f32", "f64")
              for flds in ((), ("log_likelihood",), ("log_likelihood", "log_prior", "log_q")) for flat in (False, True) for nm in range(4)]
    if quick:
        idx = r.permutation(len(combos))[:110]
        combos = [combos[i] for i in sorted(idx)]
    col_lines, col_keep = [], []
    combos += [(K, n, "f64", ("log_likelihood",), None, -1) for K in (BaseSamples, Samples, SMCSamples) for n in NSS]
    for j, (K, n, w, flds, flat, nm) in enumerate(combos):
        names = names_sets[nm] if nm >= 0 else ["beta", "log_q", "tau"]
        d, N = len(names), 4
        x = r.normal(size=(N, d))
        kw = {f: r.normal(size=N) for f in flds}
        if K is SMCSamples:
            kw.update(beta=0.25, log_evidence=1.5, log_evidence_error=0.5)
            if j % 2 == 1:       # the scalars as the samplers produce them in this namespace: 0-d arrays
                xp_ = ns.get_xp(n)
                kw.update(log_evidence=xp_.asarray(1.5), log_evidence_error=xp_.asarray(0.5))
        s = K(x, xp=ns.get_xp(n), dtype=ns.native_dtype(n, w), parameters=list(names), **kw)
        case = {"level": "samples", "cls": K.__name__, "ns": n, "width": w, "fields": list(flds), "flat": flat, "parameters": names[:4]}
        chk.count(f"samples:{K.__name__}")
        chk.case(case if j < 2 else None, json.dumps(case))
        p = os.path.join(tmp, f"s{j}.h5")
        try:
            with h5py.File(p, "w") as f:
                if flat is None:
                    s.save(f)
                else:
                    s.save(f, flat=flat)
            listed = None
            with h5py.File(p, "r") as f:
                t = K.load(f)
                if flat is False:
                    listed = [k.split(".", 1)[1] for k in f["samples"].keys() if k.startswith("samples.")]
            os.remove(p)
        except Exception as e:   # noqa
            chk.fail("a saved sample set reloads", case, repr(e)[:200], {"level": "samples", "clause": "raise", "cls": K.__name__, "exc": type(e).__name__})
            continue
        if listed is not None and len(set(listed)) == len(names):
            # the model (`colsByName`, Model/CodecSamples.lean) rebuilds the columns from the dictionary AS LISTED BY THE FILE
            xs, xt = ns.to_np(s.x), ns.to_np(t.x)
            got_ids = [next((i for i in range(len(names)) if xt.shape == xs.shape and np.array_equal(xt[:, c], xs[:, i])), -1) for c in range(xt.shape[1])] \
                if xt.ndim == 2 else None
            col_lines.append("f64 samplecols " + " ".join([str(len(names))] + [hx(nm) for nm in names] + [str(len(listed))]
                                                      + [f"{hx(nm)} {names.index(nm)}" for nm in listed]))
            col_keep.append((case, got_ids))
        bad = []
        if ns.ns_of(t.x) != n:
            bad.append(f"namespace {ns.ns_of(t.x)}")
        if ns.width_of(t.x) != w:
            bad.append(f"dtype {ns.width_of(t.x)}")
        if list(t.parameters) != list(names):
            bad.append("parameter names")
        tol = 1e-6 if w == "f32" else 0
        if ns.to_np(t.x).shape != ns.to_np(s.x).shape or not np.allclose(ns.to_np(t.x), ns.to_np(s.x), rtol=tol, atol=tol):
            bad.append("x values (columns under the wrong names?)")
        for f in ("log_likelihood", "log_prior", "log_q"):
            a, b = getattr(s, f), getattr(t, f)
            if (a is None) != (b is None) or (a is not None and not np.allclose(ns.to_np(a), ns.to_np(b), rtol=tol, atol=tol)):
                bad.append(f)
        def _num(v):
            try:
                return float(v)
            except Exception:      # noqa - a value that is no longer a number (e.g. came back as text) is a mismatch, not a crash
                return ("not-a-number", repr(v)[:40])

        if K is SMCSamples and (t.beta != s.beta or _num(t.log_evidence) != _num(s.log_evidence) or _num(t.log_evidence_error) != _num(s.log_evidence_error)):
            bad.append("beta/evidence")
        if K is Samples and s.log_w is not None and (t.log_w is None or not np.allclose(ns.to_np(t.log_w), ns.to_np(s.log_w), rtol=1e-6, atol=1e-6)):
            bad.append("weights")
        if bad:
            chk.fail("a saved sample set reloads to an observationally equal one", case, "; ".join(bad), {"level": "samples", "clause": "equal", "cls": K.__name__, "what": bad})
    if col_lines:
        drv = core.LeanDriver()
        for (case, got_ids), rep in zip(col_keep, drv.batch(col_lines)):
            if not rep.ok:
                raise core.HarnessError(rep.err)
            kind = rep.tok()
            model_ids = [int(v) for v in rep.rest()] if kind == "some" else None
            chk.count("samples:column_order_vs_model")
            if got_ids is not None and model_ids != got_ids:
                chk.disagree("samplecols", case, model_ids, got_ids)


# ----------------------------------------------------------------------------- (3) histories
def check_histories(chk, tmp):
    import h5py

    from aspire.history import FlowHistory, SMCHistory

    res = smcrun.run_smc({"seed": 2, "n_samples": 8, "kernel_steps": 1, "dims": 3})
    res_b = smcrun.run_smc({"seed": 9, "n_samples": 6, "kernel_steps": 1, "dims": 2, "adaptive": False, "n_steps": 3})
    p = os.path.join(tmp, "hist.h5")

    def compare(h, g):
        bad = []
        for k in ("beta", "ess", "ess_target", "eff_target", "log_norm_ratio", "log_norm_ratio_var", "mcmc_acceptance"):
            a, b = np.asarray([float(v) for v in getattr(h, k)]), np.asarray(getattr(g, k), dtype=float).reshape(-1)
            if a.shape != b.shape or not np.allclose(a, b):
                bad.append(k)
        if len(g.sample_history) != len(h.sample_history):
            bad.append("number of stored populations")
        else:
            for t, (a, b) in enumerate(zip(h.sample_history, g.sample_history)):
                if ns.to_np(a.x).shape != ns.to_np(b.x).shape or not np.allclose(ns.to_np(a.x), ns.to_np(b.x)) or not np.allclose(ns.to_np(a.log_q), ns.to_np(b.log_q)) \
                        or a.beta != b.beta or list(a.parameters) != list(b.parameters):
                    bad.append(f"population {t}")
        return bad

    # one history under the default group; then TWO runs in one file, the second under a group name of the caller's choice
    for layout in ("default group", "default group + custom group", "custom group only"):
        case = {"level": "history", "cls": "SMCHistory", "layout": layout}
        chk.case(case, "history:smc:" + layout); chk.count("histories")
        try:
            with h5py.File(p, "w") as f:
                if layout != "custom group only":
                    res["sampler"].history.save(f)
                if layout != "default group":
                    res_b["sampler"].history.save(f, path="run_b_history")
            bad = []
            with h5py.File(p, "r") as f:
                if layout != "custom group only":
                    bad += compare(res["sampler"].history, SMCHistory.load(f))
                if layout != "default group":
                    bad += ["run_b: " + x for x in compare(res_b["sampler"].history, SMCHistory.load(f, path="run_b_history"))]
            if bad:
                chk.fail("a saved history reloads with every series and every stored population", case, "; ".join(bad), {"level": "history", "clause": "equal"})
        except Exception as e:   # noqa
            chk.fail("a saved history reloads", case, repr(e)[:200], {"level": "history", "clause": "raise"})
    with h5py.File(p, "w") as f:
        res["sampler"].history.save(f)
    fhist = FlowHistory(training_loss=[1.0, 0.5, 0.25], validation_loss=[1.5, 0.75, 0.5])
    case = {"level": "history", "cls": "FlowHistory"}
    chk.case(case, "history:flow"); chk.count("histories")
    try:
        with h5py.File(p, "a") as f:
            fhist.save(f)
        with h5py.File(p, "r") as f:
            g = FlowHistory.load(f, "flow_history")
        if list(np.asarray(g.training_loss, float)) != fhist.training_loss or list(np.asarray(g.validation_loss, float)) != fhist.validation_loss:
            chk.fail("a saved history reloads with every series and every stored population", case, "losses differ", {"level": "history", "clause": "equal"})
    except Exception as e:   # noqa
        chk.fail("a saved history reloads", case, repr(e)[:200], {"level": "history", "clause": "raise"})


# ----------------------------------------------------------------------------- (4) transforms
def check_transforms(chk, r, tmp, quick):
    import h5py

    from aspire import transforms as T

    from . import c04

    j = 0
    for i in range(48 if quick else 480):
        c = c04.gen_case(r, i, "quick")
        case = {"level": "transform", "cls": c04.combo(c), "ns": c["ns"], "width": c["width"], "parameters": "non-alphabetical"}
        chk.count("transforms")
        chk.case(case if i < 2 else None, json.dumps([case, c["lo"]]))
        try:
            t = c04.build(c)
            if c["cls"] == "composite":
                # declared order of the parameters is not the alphabetical one, bounds are unequal
                names = (["zeta", "alpha", "mu", "beta"] + [f"q{k}" for k in range(c["d"])])[: c["d"]]
                bounds = {n: [float(a), float(b)] for n, a, b in zip(names, c["lo"], c["hi"])}
                # the clipping margin is an OPTION of the saved object: the default, a wider one, none at all (`eps=None`: no clamping)
                eps_opt = (1e-6, None, 1e-3, 1e-6)[i % 4] if c["bounded_kind"] == "logit" else 1e-6
                case["eps"] = eps_opt
                chk.count(f"transform_eps:{eps_opt}")
                t = T.CompositeTransform(parameters=names, periodic_parameters=[names[k] for k in c["periodic_idx"]] if c["periodic_on"] else [], prior_bounds=bounds,
                                         bounded_to_unbounded=c["bounded_on"], bounded_transform=c["bounded_kind"], affine_transform=c["affine_on"],
                                         xp=ns.get_xp(c["ns"]), eps=eps_opt, dtype=ns.native_dtype(c["ns"], c["width"]))
            xp, dt = ns.get_xp(c["ns"]), ns.native_dtype(c["ns"], c["width"])
            t.fit(xp.asarray(np.asarray(c["fit"]), dtype=dt))
            xs_ = np.asarray(c["x"], dtype=float)
            if c["cls"] == "composite" and c["bounded_on"]:
                # points ON and next to the bounds, where the clipping margin decides the image
                lo_, hi_ = np.asarray(c["lo"], float), np.asarray(c["hi"], float)
                edge = np.vstack([lo_, hi_, lo_ + 1e-9 * (hi_ - lo_), hi_ - 1e-9 * (hi_ - lo_)])
                xs_ = np.vstack([xs_, edge])
                c = {**c, "x": xs_.tolist()}
            x = xp.asarray(xs_, dtype=dt)
            with np.errstate(all="ignore"):
                y0, lj0 = t.forward(x)
            p = os.path.join(tmp, f"t{j}.h5"); j += 1
            with h5py.File(p, "w") as f:
                t.save(f, "data_transform")
            with h5py.File(p, "r") as f:
                t2 = T.BaseTransform.load(f, "data_transform")
            os.remove(p)
            with np.errstate(all="ignore"):
                y1, lj1 = t2.forward(xp.asarray(np.asarray(c["x"]), dtype=dt))
            tol = 1e-5 if c["width"] == "f32" else 1e-12
            # the settings of the object (what `config` saves), not only its action on interior points
            sa, sb = getattr(t, "eps", "absent"), getattr(t2, "eps", "absent")
            if sa != sb and not (sa is None and sb is None):
                chk.fail("a saved transform reproduces the same map", case, f"option eps = {sa!r} reloads as {sb!r}", {"level": "transform", "clause": "settings", "cls": c04.combo(c)})
            if type(t2) is not type(t) or not np.allclose(ns.to_np(y0), ns.to_np(y1), rtol=tol, atol=tol, equal_nan=True) or \
               not np.allclose(ns.to_np(lj0), ns.to_np(lj1), rtol=tol, atol=tol, equal_nan=True):
                chk.fail("a saved transform reproduces the same map", case, f"max |dy| = {np.nanmax(np.abs(ns.to_np(y0) - ns.to_np(y1))):.3g}", {"level": "transform", "clause": "equal", "cls": c04.combo(c)})
        except Exception as e:   # noqa
            chk.fail("a saved transform reloads", case, repr(e)[:200], {"level": "transform", "clause": "raise", "cls": c04.combo(c), "exc": type(e).__name__})


# ----------------------------------------------------------------------------- (5) flows
def flow_parameters(f):
    """the floating-point parameter arrays of a flow wrapper (zuko: state_dict; flowjax: the array leaves of the equinox module)"""
    fl = getattr(f, "_flow", None)
    if fl is None:
        return None
    try:
        if hasattr(fl, "state_dict"):
            return [v.detach().cpu().numpy() for v in fl.state_dict().values()]
        import equinox as eqx
        import jax

        return [np.asarray(v) for v in jax.tree_util.tree_leaves(eqx.filter(fl, eqx.is_inexact_array))]
    except Exception:   # noqa
        return None


def check_narrow_transform(chk, tmp):
    """a composite transform whose declared precision is NARROWER than the data its affine stage was fitted on (float32 / torch's default
    against float64 data a thousand widths from the origin): the reloaded object computes what the saved one computed - its fitted state is
    what the file holds, not a rounded copy"""
    import h5py

    from aspire import transforms as T

    for nsn, dt in (("numpy", "float32"), ("torch", None), ("torch", "float32"), ("numpy", "float64")):
        for off in (1000.0, 1.0e6):
            case = {"level": "transform", "cls": "composite:A(narrow dtype)", "ns": nsn, "dtype": dt, "offset": off}
            chk.count("transforms:narrow_dtype")
            chk.case(None, json.dumps(case))
            try:
                xp = ns.get_xp(nsn)
                t = T.CompositeTransform(parameters=["a", "b"], prior_bounds=None, bounded_to_unbounded=False, affine_transform=True, xp=xp, dtype=dt)
                data = np.random.default_rng(2).normal(off, 0.01, (50, 2))
                t.fit(xp.asarray(data))
                p = os.path.join(tmp, f"narrow_{nsn}_{dt}_{int(off)}.h5")
                with h5py.File(p, "w") as f:
                    t.save(f, "data_transform")
                with h5py.File(p, "r") as f:
                    t2 = type(t).load(f, "data_transform")
                os.remove(p)
                pts = xp.asarray(data[:8])
                y0, j0 = t.forward(pts)
                y1, j1 = t2.forward(pts)
                a0, a1 = ns.to_np(y0).astype(float), ns.to_np(y1).astype(float)
                if a0.shape != a1.shape or not np.allclose(a0, a1, rtol=1e-12, atol=1e-9 * (1 + np.abs(a0))) or not np.allclose(ns.to_np(j0), ns.to_np(j1), rtol=1e-9, atol=1e-9):
                    chk.fail("a saved transform reproduces the same map", case, f"max |dy| = {np.nanmax(np.abs(a0 - a1)):.3g} (values of order {np.nanmax(np.abs(a0)):.3g})",
                             {"level": "transform", "clause": "equal", "cls": "composite:A(narrow dtype)"})
            except Exception as e:   # noqa
                chk.fail("a saved transform reloads", case, repr(e)[:200], {"level": "transform", "clause": "raise", "cls": "composite:A(narrow dtype)", "exc": type(e).__name__})


def check_flows(chk, tmp, quick):
    import h5py
    import torch

    from aspire.flows import get_flow_wrapper

    data = np.random.default_rng(3).normal(0.2, 0.6, (80, 2))
    specs = [("zuko", {}), ("zuko", {"hidden_features": [16, 16], "transforms": 2}), ("flowjax", {}), ("flowjax", {"nn_depth": 1, "nn_width": 8}),
             # options holding a nested dictionary of Python scalars (a float that must come back as a float)
             ("flowjax", {"bijection_type": "RationalQuadraticSpline", "bijection_kwargs": {"knots": 4, "interval": 4.0}, "nn_width": 8, "flow_layers": 2})]
    if quick:
        specs = specs[:3] + specs[3:]
    from aspire.transforms import FlowTransform

    for backend, opts in specs:
        case = {"level": "flow", "backend": backend, "options": opts}
        chk.count(f"flows:{backend}")
        chk.case(case, json.dumps(case))
        try:
            F, xp = get_flow_wrapper(backend)
            tr = FlowTransform(parameters=["zeta", "alpha"], prior_bounds={"zeta": [-4.0, 5.0], "alpha": [-3.0, 3.5]}, bounded_to_unbounded=True,
                               bounded_transform="logit", affine_transform=True, xp=xp, eps=1e-6)
            if backend == "zuko":
                f = F(dims=2, seed=1, device="cpu", data_transform=tr, **opts)
                f.fit(data, n_epochs=1)
            else:
                import jax

                ns.enable_x64()
                f = F(dims=2, key=jax.random.key(1), data_transform=tr, **opts)
                f.fit(data, max_epochs=1)
            with torch.no_grad():
                ref = ns.to_np(f.log_prob(data[:10]))
            p = os.path.join(tmp, f"flow_{backend}_{len(opts)}_{abs(hash(json.dumps(opts, sort_keys=True))) % 10**6}.h5")
            # the same object is saved more than once (fit with a checkpoint path, then every sample_posterior re-writes the proposal):
            # EVERY file must reload to the same density
            for nth in (1, 2, 3):
                with h5py.File(p, "w") as h:
                    f.save(h, "flow")
                with h5py.File(p, "r") as h:
                    g = F.load(h, "flow")
                os.remove(p)
                with torch.no_grad():
                    got = ns.to_np(g.log_prob(data[:10]))
                # the reloaded network holds the weights that were saved: the same density to (nearly) the last bit of the precision it is
                # evaluated in, not merely to single precision
                # the reloaded network holds exactly the parameter values that were in memory (same precision, same bits): anything
                # else is another density, however close (the density itself is compared at single precision because the
                # data transform's constant log-Jacobian is recomputed on load)
                pa, pb = flow_parameters(f), flow_parameters(g)
                if pa is not None and pb is not None:
                    chk.count("flows:parameter_leaves_compared", len(pa))
                    badp = [i_ for i_, (u_, v_) in enumerate(zip(pa, pb)) if u_.dtype != v_.dtype or u_.shape != v_.shape or not np.array_equal(u_, v_, equal_nan=True)]
                    if len(pa) != len(pb) or badp:
                        i_ = badp[0] if badp else -1
                        chk.fail("a saved flow reproduces the same density", dict(case, save_number=nth),
                                 f"save number {nth}: {len(badp)} of {len(pa)} parameter arrays differ after reload (first: #{i_}, "
                                 f"{pa[i_].dtype} -> {pb[i_].dtype}, max |d| = {float(np.max(np.abs(pa[i_].astype(float) - pb[i_].astype(float)))) if pa[i_].shape == pb[i_].shape and pa[i_].size else 'shape'})",
                                 {"level": "flow", "clause": "parameters", "backend": backend, "save_number": nth})
                        break
                if not np.allclose(ref, got, rtol=1e-5, atol=1e-5):
                    chk.fail("a saved flow reproduces the same density", dict(case, save_number=nth),
                             f"save number {nth} of the same object: max |d log_prob| = {np.max(np.abs(ref - got)):.3g}",
                             {"level": "flow", "clause": "equal", "backend": backend, "save_number": nth})
                    break
                if nth == 3:
                    # second generation: the LOADED proposal is saved again (what `resume_from_file` + a checkpoint of the continued run does)
                    # and that file is loaded
                    with h5py.File(p, "w") as h:
                        g.save(h, "flow")
                    with h5py.File(p, "r") as h:
                        g2 = F.load(h, "flow")
                    os.remove(p)
                    with torch.no_grad():
                        got2 = ns.to_np(g2.log_prob(data[:10]))
                    chk.count("flows:second_generation")
                    if not np.allclose(ref, got2, rtol=1e-5, atol=1e-5):
                        chk.fail("a saved flow reproduces the same density", dict(case, generation=2),
                                 f"a loaded proposal saved again and loaded: max |d log_prob| = {np.max(np.abs(ref - got2)):.3g}",
                                 {"level": "flow", "clause": "equal", "backend": backend, "generation": 2})
        except Exception as e:   # noqa
            chk.fail("a saved flow reloads", case, repr(e)[:200], {"level": "flow", "clause": "raise", "backend": backend, "custom_options": bool(opts), "exc": type(e).__name__})


def check_flow_precision(chk, tmp):
    """the precision of a saved torch flow belongs to the FILE, not to the process that reads it: a flow built with `dtype` left
    unset under one torch default dtype, reloaded under the other, has the precision it was saved with and the same density"""
    import h5py
    import torch

    from aspire.flows import get_flow_wrapper
    from aspire.transforms import FlowTransform

    F, xp = get_flow_wrapper("zuko")
    data64 = np.random.default_rng(5).normal(0.3, 0.8, (60, 2))
    old = torch.get_default_dtype()
    try:
        for at_save, at_load, explicit in ((torch.float64, torch.float32, None), (torch.float32, torch.float64, None),
                                           (torch.float64, torch.float32, torch.float64), (torch.float32, torch.float32, None)):
            case = {"level": "flow_precision", "default_at_save": str(at_save), "default_at_load": str(at_load), "dtype_option": str(explicit)}
            chk.count("flows:precision")
            chk.case(case, json.dumps(case))
            try:
                torch.set_default_dtype(at_save)
                tr = FlowTransform(parameters=["zeta", "alpha"], prior_bounds={"zeta": [-4.0, 5.0], "alpha": [-3.0, 3.5]}, bounded_to_unbounded=True,
                                   bounded_transform="logit", affine_transform=True, xp=xp, eps=1e-6)
                kw = {} if explicit is None else {"dtype": explicit}
                f = F(dims=2, seed=3, device="cpu", data_transform=tr, **kw)
                data = torch.as_tensor(data64, dtype=f.dtype if getattr(f, "dtype", None) is not None else at_save)
                f.fit(data, n_epochs=1)
                with torch.no_grad():
                    ref = ns.to_np(f.log_prob(data[:10])).astype(float)
                dt_saved = next(f._flow.parameters()).dtype if hasattr(f, "_flow") else None
                p = os.path.join(tmp, f"flowprec_{len(case['default_at_save'])}_{len(case['default_at_load'])}_{explicit}.h5")
                with h5py.File(p, "w") as h:
                    f.save(h, "flow")
                torch.set_default_dtype(at_load)
                with h5py.File(p, "r") as h:
                    g = F.load(h, "flow")
                os.remove(p)
                dt_loaded = next(g._flow.parameters()).dtype if hasattr(g, "_flow") else None
                with torch.no_grad():
                    got = ns.to_np(g.log_prob(data[:10])).astype(float)
                if dt_saved is not None and dt_loaded != dt_saved:
                    chk.fail("a saved flow reproduces the same density", case, f"weights saved as {dt_saved}, reloaded as {dt_loaded}",
                             {"level": "flow", "clause": "precision", "backend": "zuko"})
                elif not np.allclose(ref, got, rtol=1e-5, atol=1e-5):
                    chk.fail("a saved flow reproduces the same density", case, f"max |d log_prob| = {np.max(np.abs(ref - got)):.3g}",
                             {"level": "flow", "clause": "equal", "backend": "zuko", "precision": True})
            except Exception as e:   # noqa
                chk.fail("a saved flow reloads", case, repr(e)[:200], {"level": "flow", "clause": "raise", "backend": "zuko", "precision": True, "exc": type(e).__name__})
    finally:
        torch.set_default_dtype(old)


# ----------------------------------------------------------------------------- (6) configuration rebuild
def check_config(chk, tmp):
    from aspire import Aspire

    j = 0
    for nsn in NSS:
        for dtype in (None, "float32", "float64"):
            for opts in ({}, {"sigma": 3.0, "mu": 0.5}):
                for periodic, b2u, eps_ in ((None, True, 1e-5), (["p1"], True, 1e-5), (None, False, 0.0)):
                    t = smcrun.Target(2)
                    params = ["p1", "p0"]          # declared order is not the alphabetical one
                    a = Aspire(log_likelihood=t.log_likelihood, log_prior=t.log_prior, dims=2, parameters=params, periodic_parameters=periodic,
                               prior_bounds={"p1": [-10.0, 10.0], "p0": [-3.0, 7.0]}, flow_backend="verifstub", xp=ns.get_xp(nsn), dtype=dtype,
                               bounded_transform="probit", eps=eps_, bounded_to_unbounded=b2u, **opts)     # (False and 0.0 are settings, not "unset")
                    p = os.path.join(tmp, f"cfg{j}.h5"); j += 1
                    case = {"level": "config", "ns": nsn, "dtype": dtype, "flow_options": opts, "periodic": periodic, "bounded_to_unbounded": b2u, "eps": eps_}
                    chk.count("configs")
                    chk.case(case if j <= 2 else None, json.dumps(case))
                    try:
                        a.fit(al.training_samples(2, 1), checkpoint_path=p)
                        b = Aspire.resume_from_file(p, log_likelihood=t.log_likelihood, log_prior=t.log_prior)
                    except Exception as e:   # noqa
                        chk.fail("an instance can be rebuilt from a saved configuration", case, repr(e)[:200], {"level": "config", "clause": "raise"})
                        continue
                    bad = []
                    if b.xp is not a.xp:
                        bad.append(f"namespace {getattr(b.xp, '__name__', b.xp)} instead of {a.xp.__name__}")
                    if (b.dtype if b.dtype is None else str(b.dtype).split('.')[-1]) != (a.dtype if a.dtype is None else str(a.dtype).split('.')[-1]):
                        bad.append(f"precision {b.dtype!r} instead of {a.dtype!r}")
                    if dict(b.flow_kwargs) != dict(a.flow_kwargs):
                        bad.append(f"flow options {b.flow_kwargs!r} instead of {a.flow_kwargs!r}")
                    if list(b.parameters) != list(a.parameters):
                        bad.append("parameter names")
                    if (b.periodic_parameters or None) != (a.periodic_parameters or None):
                        bad.append("periodic parameters")
                    pb = {k: [float(v) for v in np.asarray(vs).reshape(-1)] for k, vs in (b.prior_bounds or {}).items()}
                    if pb != {k: list(v) for k, v in a.prior_bounds.items()}:
                        bad.append(f"bounds {pb}")
                    if b.bounded_transform != a.bounded_transform or b.eps != a.eps or b.dims != a.dims or b.flow_backend != a.flow_backend \
                            or b.bounded_to_unbounded != a.bounded_to_unbounded:
                        bad.append(f"scalar settings (bounded_to_unbounded {b.bounded_to_unbounded!r} / {a.bounded_to_unbounded!r}, eps {b.eps!r} / {a.eps!r})")
                    if bad:
                        chk.fail("an instance rebuilt from a saved configuration has the same settings", case, "; ".join(bad),
                                 {"level": "config", "clause": "equal", "what": sorted(x.split()[0] for x in bad)})


def run(chk: core.Check):
    r = np.random.default_rng(chk.seed + 13013)
    quick = chk.tier == "quick"
    chk.rule = ("random nested configuration dictionaries through the real HDF5 save/load and the model; sample sets over class x namespace x dtype x field subset x layout x "
                "parameter-name order (incl. non-alphabetical and x_0..x_11); SMC and flow histories; every transform class with fitted state and non-alphabetical parameter names; "
                "zuko/flowjax flows with default and custom options; Aspire rebuilt from file over namespace x precision x flow options x periodic parameters")
    chk.trusted += ["h5py stores datasets faithfully and lists keys alphabetically", "the stub proposal's own save/load (configuration rebuild)"]
    tmp = tempfile.mkdtemp(prefix="aspire_verif_")
    try:
        check_codec(chk, r, 150 if quick else 3000, tmp)
        check_samples(chk, r, tmp, quick)
        check_histories(chk, tmp)
        check_transforms(chk, r, tmp, quick)
        check_narrow_transform(chk, tmp)
        check_flows(chk, tmp, quick)
        check_flow_precision(chk, tmp)
        check_config(chk, tmp)
    finally:
        shutil.rmtree(tmp, ignore_errors=True)

    def search():
        return None

    return search


def replay(chk: core.Check, path: str) -> int:
    return run_all_again(chk)


def run_all_again(chk):
    run(chk)
    for f in chk.failures[:10]:
        print("FAIL", f["clause"], f["detail"])
    print(f"re-ran all sections: {len(chk.failures)} oracle failure(s), {len(chk.disagreements)} disagreement(s)")
    return 1 if (chk.failures or chk.disagreements) else 0
