"""C16 — slicing, concatenating, pickling and dict-converting samples keep rows aligned.

Correspondence: random op sequences run on the real classes and on the Lean model
(Model/Rows.lean, `rows` op of the driver).  Oracle: a plain-array reference model in
this file (every per-row column gathered with the same index list; carried scalars).
"""
from __future__ import annotations

import json
import math
import pickle

import numpy as np

from .. import core, ns
from ..core import fh, fl

NSS = ("numpy", "torch", "jax")
ROWCOLS = ("x", "ll", "lp", "lq", "log_w", "weights")
SCALARS = ("logZ", "logZerr", "evidence", "evidenceErr", "ess", "beta")


# ----------------------------------------------------------------------------- generation
def gen_case(r: np.random.Generator, i: int, tier: str) -> dict:
    cls = ("base", "samples", "smc")[i % 3]
    nsn = NSS[(i // 3) % 3]
    width = "f64" if (i // 9) % 2 == 0 else "f32"
    n = int(r.integers(3, 13))
    d = int(r.integers(1, 4))
    present = [bool(b) for b in (r.random(3) < 0.8)]
    if cls == "samples" and r.random() < 0.6:
        present = [True, True, True]
    c = {"cls": cls, "ns": nsn, "width": width, "n": n, "d": d,
         "x": r.normal(0, 3, (n, d)).tolist(),
         "ll": r.normal(0, 2, n).tolist() if present[0] else None,
         "lp": r.normal(0, 2, n).tolist() if present[1] else None,
         "lq": r.normal(0, 2, n).tolist() if present[2] else None,
         "beta": float(r.choice([0.0, 0.25, 1.0])) if cls == "smc" else None,
         "logZ": (0.0 if r.random() < 0.3 else float(r.normal())) if cls == "smc" and r.random() < 0.7 else None,
         "logZerr": None}
    if c["logZ"] is not None:
        c["logZerr"] = 0.0 if r.random() < 0.2 else float(abs(r.normal()))
    if width == "f32":
        for k in ("x", "ll", "lp", "lq"):
            if c[k] is not None:
                c[k] = np.asarray(c[k], np.float32).astype(float).tolist()
        for k in ("beta", "logZ", "logZerr"):
            if c[k] is not None:
                c[k] = float(np.float32(c[k]))
    ops = []
    cur = n
    nops = int(r.integers(1, 5 if tier == "quick" else 8))
    for _ in range(nops):
        kind = str(r.choice(["sel", "int", "slice", "nslice", "mask", "partcat", "cat3", "pickle", "dict", "dict_nested", "dict_nested_sorted"]))
        if kind == "sel":
            k = int(r.integers(1, cur + 3))
            idxs = [int(v) for v in r.integers(0, cur, k)]
            ops.append({"op": "sel", "idxs": idxs, "neg": bool(r.random() < 0.3),
                        "spell": str(r.choice(["xp", "xp", "np", "list"])) if nsn != "jax" else str(r.choice(["xp", "np"]))})
            cur = k
        elif kind == "int":
            if cur >= 1 and len(ops) == nops - 1:      # an integer index only as the last op
                ops.append({"op": "int", "i": int(r.integers(0, cur))})
                cur = 1
                break
            continue
        elif kind == "slice":
            a = int(r.integers(0, cur))
            b = int(r.integers(a + 1, cur + 1))
            s = int(r.choice([1, 1, 2, 3]))
            ops.append({"op": "slice", "a": a, "b": b, "s": s})
            cur = len(range(a, b, s))
        elif kind == "nslice":
            # a slice as users write it: negative step, bounds omitted, negative, or beyond the ends (torch tensors do not support
            # negative steps; the library says so by raising, which is not this property's subject)
            if nsn == "torch" or cur < 2:
                continue
            opts = [None, -1, -2, -(cur + 2), cur - 1, cur + 5, int(r.integers(0, cur))]
            a, b = opts[int(r.integers(len(opts)))], opts[int(r.integers(len(opts)))]
            st = int(r.choice([-1, -1, -2, -3]))
            idxs = list(range(*slice(a, b, st).indices(cur)))
            if not idxs:
                continue
            ops.append({"op": "nslice", "a": a, "b": b, "s": st, "idxs": idxs})
            cur = len(idxs)
        elif kind == "mask":
            m = [bool(v) for v in (r.random(cur) < 0.6)]
            if not any(m):
                m[int(r.integers(cur))] = True
            ops.append({"op": "mask", "m": m,
                        "spell": str(r.choice(["xp", "xp", "np", "list"])) if nsn != "jax" else str(r.choice(["xp", "np"]))})
            cur = sum(m)
        elif kind == "partcat":
            if cur < 2:
                continue
            m = [bool(v) for v in (r.random(cur) < 0.5)]
            if all(m) or not any(m):
                m[0] = not m[0]
                if all(m) or not any(m):
                    m[1] = not m[1]
            ops.append({"op": "partcat", "m": m})
        elif kind == "cat3":
            if cur < 3:
                continue
            a = int(r.integers(1, cur - 1))
            b = int(r.integers(a + 1, cur))
            ops.append({"op": "cat3", "a": a, "b": b})
        else:
            ops.append({"op": kind})
    if not ops:
        ops = [{"op": "pickle"}]
    c["ops"] = ops
    # parameter names as models have them: Greek-letter style names that coincide with FIELD names of the sample classes
    # ("beta" is a temperature field of SMCSamples, "log_q" a density column).  The flat dictionary layout cannot represent such
    # names (a documented limitation: columns and fields share one namespace), so they are used with the other operations only.
    c["parameters"] = None
    if not any(o["op"] == "dict" for o in ops) and r.random() < 0.4:
        pool = ["alpha", "beta", "log_q", "mass", "dtype", "gamma"]
        c["parameters"] = [pool[(i + j) % len(pool)] for j in range(d)]
    return c


# ----------------------------------------------------------------------------- implementation
def build(c: dict):
    from aspire.samples import BaseSamples, Samples, SMCSamples

    xp = ns.get_xp(c["ns"])
    dt = ns.native_dtype(c["ns"], c["width"])
    K = {"base": BaseSamples, "samples": Samples, "smc": SMCSamples}[c["cls"]]
    kw = dict(x=np.asarray(c["x"]), xp=xp, dtype=dt)
    if c.get("parameters"):
        kw["parameters"] = list(c["parameters"])
    for k, name in (("ll", "log_likelihood"), ("lp", "log_prior"), ("lq", "log_q")):
        if c[k] is not None:
            kw[name] = np.asarray(c[k])
    if c["cls"] == "smc":
        kw["beta"] = c["beta"]
        if c["logZ"] is not None:
            kw["log_evidence"] = c["logZ"]
            kw["log_evidence_error"] = c["logZerr"]
    return K, K(**kw), xp


def fnum(v):
    if v is None:
        return None
    if hasattr(v, "detach"):
        v = v.detach().cpu().numpy()
    return float(np.asarray(v, dtype=np.float64).reshape(-1)[0]) if np.size(v) == 1 else ns.to_np(v)


def dump(s, cls: str) -> dict:
    g = lambda a: getattr(s, a, None)
    d = {"n": int(np.atleast_2d(ns.to_np(s.x)).shape[0]) if np.ndim(ns.to_np(s.x)) > 1 else None,
         "x": ns.to_np(s.x).reshape(-1),
         "ll": None if g("log_likelihood") is None else ns.to_np(s.log_likelihood).reshape(-1),
         "lp": None if g("log_prior") is None else ns.to_np(s.log_prior).reshape(-1),
         "lq": None if g("log_q") is None else ns.to_np(s.log_q).reshape(-1),
         "log_w": None if g("log_w") is None else ns.to_np(s.log_w).reshape(-1),
         "weights": None if g("weights") is None else ns.to_np(s.weights).reshape(-1),
         "logZ": fnum(g("log_evidence")) if cls != "base" else None,
         "logZerr": fnum(g("log_evidence_error")) if cls != "base" else None,
         "evidence": fnum(g("evidence")) if cls == "samples" else None,
         "evidenceErr": fnum(g("evidence_error")) if cls == "samples" else None,
         "ess": fnum(g("effective_sample_size")) if cls == "samples" else None,
         "beta": fnum(g("beta")) if cls == "smc" else None,
         "ns": ns.ns_of(s.x), "width": ns.width_of(s.x), "type": type(s).__name__}
    return d


def apply_impl(K, s, xp, op: dict):
    k = op["op"]
    if k == "sel":
        idxs = list(op["idxs"])
        if op.get("neg"):
            n = len(s)
            idxs = [i - n if j % 2 else i for j, i in enumerate(idxs)]   # mix negative spellings
        sp = op.get("spell", "xp")
        if sp == "list":
            return s[[int(i) for i in idxs]]
        if sp == "np":
            return s[np.asarray(idxs, dtype=np.int64)]
        return s[xp.asarray(np.asarray(idxs, dtype=np.int64))]
    if k == "int":
        return s[op["i"]]
    if k == "slice":
        return s[op["a"]:op["b"]:op["s"]]
    if k == "nslice":
        return s[slice(op["a"], op["b"], op["s"])]
    if k == "mask":
        sp = op.get("spell", "xp")
        if sp == "list":
            return s[[bool(b) for b in op["m"]]]
        if sp == "np":
            return s[np.asarray(op["m"], dtype=bool)]
        return s[xp.asarray(np.asarray(op["m"], dtype=bool))]
    if k == "partcat":
        m = np.asarray(op["m"], dtype=bool)
        return K.concatenate([s[xp.asarray(m)], s[xp.asarray(~m)]])
    if k == "cat3":
        return K.concatenate([s[:op["a"]], s[op["a"]:op["b"]], s[op["b"]:]])
    if k == "pickle":
        return pickle.loads(pickle.dumps(s))
    if k == "dict":
        return K.from_dict(s.to_dict(flat=True))
    if k == "dict_nested":
        return K.from_dict(s.to_dict(flat=False))
    if k == "dict_nested_sorted":
        # the nested dictionary after a trip through a container that lists its members alphabetically (an HDF5 group, a JSON
        # document written with sort_keys): a dictionary is the same dictionary whatever the order of its entries
        d = s.to_dict(flat=False)
        if isinstance(d.get("samples"), dict):
            d["samples"] = dict(sorted(d["samples"].items()))
        return K.from_dict(dict(sorted(d.items())))
    raise ValueError(k)


# ----------------------------------------------------------------------------- reference model
def ref_apply(ref: dict, op: dict, d: int) -> dict:
    """plain-array reference: every row column gathered alike; carried scalars kept"""
    k = op["op"]
    out = dict(ref)
    n = ref["n"]
    if k in ("sel", "int", "slice", "nslice", "mask", "partcat"):
        if k == "sel":
            idx = np.asarray(op["idxs"], dtype=int)
        elif k == "int":
            idx = np.asarray([op["i"]])
        elif k == "slice":
            idx = np.arange(n)[op["a"]:op["b"]:op["s"]]
        elif k == "nslice":
            idx = np.arange(n)[slice(op["a"], op["b"], op["s"])]
        elif k == "mask":
            idx = np.nonzero(np.asarray(op["m"]))[0]
        else:
            m = np.asarray(op["m"], dtype=bool)
            idx = np.concatenate([np.nonzero(m)[0], np.nonzero(~m)[0]])
        out["x"] = ref["x"].reshape(n, d)[idx].reshape(-1)
        for c in ("ll", "lp", "lq", "log_w", "weights"):
            out[c] = None if ref[c] is None else ref[c][idx]
        out["n"] = len(idx)
        if k != "partcat":
            out["ess"] = "recompute"     # the ESS of a selection is that of the selected rows
            out["carried"] = ref["cls"] == "samples" and ref["logZ"] is not None
    return out


FIELDS_CMP = ROWCOLS + SCALARS


def cmp_dump(got: dict, exp: dict, tol: float, ess_tol: float) -> list[str]:
    bad = []
    for c in ROWCOLS:
        a, b = got.get(c), exp.get(c)
        if (a is None) != (b is None):
            bad.append(c)
        elif a is not None and not core.all_close(a, b, tol, 0.0):
            bad.append(c)
    for c in SCALARS:
        a, b = got.get(c), exp.get(c)
        if isinstance(b, str):      # "recompute"
            continue
        if (a is None) != (b is None):
            bad.append(c)
        elif a is not None and not core.close(float(a), float(b), ess_tol if c == "ess" else tol, 0.0):
            bad.append(c)
    return bad


# ----------------------------------------------------------------------------- driver line
def opt_col(v):
    return "0" if v is None else "1 " + fl(v)


def opt_s(v):
    return "0" if v is None else "1 " + fh(v)


def model_line(c: dict, ops: list[dict]) -> str:
    parts = [c["width"], "rows", c["cls"], str(c["n"]), str(c["d"])]
    parts += [fh(v) for row in c["x"] for v in row]
    parts += [opt_col(c["ll"]), opt_col(c["lp"]), opt_col(c["lq"]), opt_s(c["beta"]), opt_s(c["logZ"]), opt_s(c["logZerr"])]
    for op in ops:
        k = op["op"]
        if k == "sel":
            parts += ["sel", str(len(op["idxs"]))] + [str(i) for i in op["idxs"]]
        elif k == "int":
            parts += ["sel", "1", str(op["i"])]
        elif k == "slice":
            parts += ["slice", str(op["a"]), str(op["b"]), str(op["s"])]
        elif k == "nslice":
            parts += ["sel", str(len(op["idxs"]))] + [str(i) for i in op["idxs"]]
        elif k in ("mask", "partcat"):
            parts += [k, str(len(op["m"]))] + ["1" if b else "0" for b in op["m"]]
        elif k == "cat3":
            parts += ["cat3", str(op["a"]), str(op["b"])]
        elif k == "pickle":
            parts += ["pickle"]
        else:
            parts += ["dict"]
    return " ".join(parts)


def parse_model(rep: core.Reply) -> dict:
    cls = rep.tok()
    n = rep.n()
    x = np.asarray(rep.fs())
    def oc():
        return np.asarray(rep.fs()) if rep.tok() == "1" else None
    def os_():
        return rep.f() if rep.tok() == "1" else None
    d = {"cls": cls, "n": n, "x": x}
    for c in ("ll", "lp", "lq", "log_w", "weights"):
        d[c] = oc()
    for c in ("logZ", "logZerr", "evidence", "evidenceErr", "ess", "beta"):
        d[c] = os_()
    return d


# ----------------------------------------------------------------------------- run
def run_cases(chk: core.Check, cases: list[dict]):
    drv = core.LeanDriver()
    results = []
    lines = []
    for c in cases:
        res = run_one_impl(chk, c)
        results.append(res)
        lines.append(model_line(c, c["ops"][: res["done"]]))
    reps = drv.batch(lines)
    for c, res, rep in zip(cases, results, reps):
        if not rep.ok:
            raise core.HarnessError(f"driver: {rep.err} for {lines[0][:200]}")
        if res["final"] is None:
            continue
        m = parse_model(rep)
        tol = 1e-9 if c["width"] == "f64" else 2e-4
        bad = cmp_dump(res["final"], m, tol, 50 * tol)
        if bad:
            chk.disagree("rows", lite(c), {k: _j(m.get(k)) for k in bad}, {k: _j(res["final"].get(k)) for k in bad},
                         f"fields {bad} after ops {[o['op'] for o in c['ops'][:res['done']]]}")


def _j(v):
    return v.tolist() if isinstance(v, np.ndarray) else v


def lite(c):
    return {k: c.get(k) for k in ("cls", "ns", "width", "n", "d", "x", "ll", "lp", "lq", "beta", "logZ", "logZerr", "ops", "parameters")}


def run_one_impl(chk: core.Check, c: dict) -> dict:
    chk.count(f"cls:{c['cls']}")
    chk.count(f"ns:{c['ns']}/{c['width']}")
    for op in c["ops"]:
        chk.count(f"op:{op['op']}")
    key = json.dumps([c["cls"], c["ns"], c["width"], c["x"][:3], [o["op"] for o in c["ops"]], str(c["ops"])[:200]])
    desc = {"cls": c["cls"], "ns": c["ns"], "width": c["width"], "n": c["n"], "d": c["d"],
            "fields": [k for k in ("ll", "lp", "lq") if c[k] is not None], "ops": c["ops"]} if chk.evaluations < 30 else None
    chk.case(desc, key if len(c["ops"]) >= 1 else None)
    case = lite(c)
    tol = 1e-12 if c["width"] == "f64" else 1e-5
    try:
        K, s, xp = build(c)
    except Exception as exc:
        chk.fail("constructor total", case, repr(exc), {"cls": c["cls"], "op": "build"})
        return {"done": 0, "final": None}
    ref = dump(s, c["cls"])
    ref["cls"] = c["cls"]
    ref["n"] = c["n"]
    ref["carried"] = False
    done = 0
    for j, op in enumerate(c["ops"]):
        try:
            s2 = apply_impl(K, s, xp, op)
        except Exception as exc:
            chk.fail(f"{op['op']} total", case, f"op #{j} {op['op']} raised {exc!r}",
                     {"cls": c["cls"], "op": op["op"], "exc": type(exc).__name__})
            break
        got = dump(s2, c["cls"])
        exp = ref_apply(ref, op, c["d"])
        bad = cmp_dump(got, exp, tol, 1e-9 if c["width"] == "f64" else 1e-3)
        if got["ns"] != c["ns"] or got["width"] != c["width"] or got["type"] != type(s).__name__:
            bad.append("namespace/dtype/class")
        if exp.get("ess") == "recompute" and got["log_w"] is not None and got["ess"] is not None and got["n"] != 1:
            lw = got["log_w"]
            u = np.exp(lw - lw.max())
            ess_ref = math.fsum(u) ** 2 / math.fsum(u * u)
            if not core.close(got["ess"], ess_ref, 1e-9 if c["width"] == "f64" else 1e-3):
                bad.append("ess")
        if bad:
            clause = {"sel": "selection keeps rows aligned", "int": "selection keeps rows aligned", "slice": "selection keeps rows aligned",
                      "nslice": "selection keeps rows aligned",
                      "mask": "selection keeps rows aligned", "partcat": "partition restores", "cat3": "partition restores",
                      "pickle": "pickle round trip", "dict": "dict round trip", "dict_nested": "dict round trip", "dict_nested_sorted": "dict round trip"}[op["op"]]
            chk.fail(clause, case, f"op #{j} {op}: fields {sorted(set(bad))} differ from the plain-array reference",
                     {"cls": c["cls"], "op": op["op"], "fields": sorted(set(bad)), "carried": bool(ref.get("carried"))})
        # continue from the implementation's actual state
        carried = exp.get("carried", ref.get("carried", False))
        ref = got
        ref["cls"] = c["cls"]
        ref["n"] = len(got["x"]) // c["d"]
        ref["carried"] = carried
        s = s2
        done = j + 1
    return {"done": done, "final": dump(s, c["cls"]) if done else None}


# ----------------------------------------------------------------------------- known-finding matchers
def m_smc_concat(rec, sig):
    s = rec["signature"]
    return s.get("cls") == "smc" and s.get("op") in ("cat3", "partcat") and set(s.get("fields", [])) <= {"beta", "logZ", "logZerr"} and s.get("fields")


def m_carried_evidence(rec, sig):
    s = rec["signature"]
    return (s.get("cls") == "samples" and s.get("op") in ("cat3", "partcat", "dict", "dict_nested", "dict_nested_sorted") and s.get("carried")
            and set(s.get("fields", [])) <= {"logZ", "logZerr", "evidence", "evidenceErr"} and s.get("fields"))


def m_empty_weighted(rec, sig):
    s = rec["signature"]
    return s.get("corpus") == "empty" and s.get("cls") == "samples" and s.get("weighted") is True and s.get("exc") in ("ValueError", "RuntimeError")


MATCHERS = {"empty_weighted_samples_cannot_be_built": m_empty_weighted, "smc_concatenate_drops_beta_evidence": m_smc_concat,
            "constructor_recomputes_carried_evidence": m_carried_evidence}


def check_corpus(chk: core.Check):
    """deterministic edge cases of the same clauses, checked against plain arrays (no model in between):
       (a) a per-sample field that is NaN in EVERY row (the likelihood failed everywhere) survives the dictionary round trip as a field;
       (b) an empty selection keeps every field (as an empty column) through the dictionary round trip and a partition through
           dictionaries concatenates back to the original;
       (c) a set WITHOUT importance weights that has an evidence attached (what `SMCSamples.to_standard_samples()` returns when a
           density column is missing, or an attribute set by the user) carries it through every kind of selection."""
    from aspire.samples import BaseSamples, Samples, SMCSamples

    n, d = 6, 2
    r = np.random.default_rng(7)
    xs = r.normal(0, 1, (n, d))
    cols = {"log_likelihood": r.normal(0, 1, n), "log_prior": r.normal(0, 1, n), "log_q": r.normal(0, 1, n)}

    def npf(v):
        return None if v is None else ns.to_np(v).astype(float)

    for nsn in NSS:
        xp = ns.get_xp(nsn)
        dt = ns.native_dtype(nsn, "f64")
        for cname, K in (("base", BaseSamples), ("samples", Samples), ("smc", SMCSamples)):
            extra = {"beta": 0.5} if cname == "smc" else {}
            # (a) all-NaN field
            for fld in ("log_likelihood", "log_prior", "log_q"):
                kw = {k: (np.full(n, np.nan) if k == fld else v) for k, v in cols.items()}
                case = {"level": "corpus", "what": "all-NaN field", "cls": cname, "ns": nsn, "field": fld}
                chk.count("corpus:all_nan_field")
                try:
                    with np.errstate(all="ignore"):
                        s = K(x=xs, xp=xp, dtype=dt, **kw, **extra)
                        for flat in (True, False):
                            t = K.from_dict(s.to_dict(flat=flat))
                            bad = [k for k in cols if (getattr(t, k) is None) or not np.array_equal(npf(getattr(t, k)), npf(getattr(s, k)), equal_nan=True)]
                            if bad or not np.array_equal(npf(t.x), npf(s.x)):
                                chk.fail("dict round trip restores every field", {**case, "flat": flat},
                                         f"fields {bad} lost or changed by to_dict/from_dict when {fld} is NaN in every row",
                                         {"cls": cname, "op": "dict", "fields": bad, "corpus": "all_nan"})
                    chk.case(case if chk.evaluations < 40 else None, json.dumps(case))
                except Exception as e:   # noqa
                    chk.fail("dict round trip total", case, repr(e)[:300], {"cls": cname, "op": "dict", "corpus": "all_nan", "exc": type(e).__name__})
            # (b) empty selection and a partition taken through dictionaries
            case = {"level": "corpus", "what": "empty selection / partition through dictionaries", "cls": cname, "ns": nsn}
            chk.count("corpus:empty_and_partition")
            try:
                with np.errstate(all="ignore"):
                    s = K(x=xs, xp=xp, dtype=dt, **cols, **extra)
                    e0 = s[:0]
                    for flat in (True, False):
                        t = K.from_dict(e0.to_dict(flat=flat))
                        bad = [k for k in cols if getattr(t, k) is None or len(npf(getattr(t, k))) != 0]
                        if bad or len(npf(t.x)) != 0:
                            chk.fail("dict round trip restores every field", {**case, "flat": flat}, f"empty selection: fields {bad} are not empty columns after the round trip",
                                     {"cls": cname, "op": "dict", "fields": bad, "corpus": "empty"})
                    parts = [K.from_dict(s[:2].to_dict(flat=False)), K.from_dict(s[2:2].to_dict(flat=False)), K.from_dict(s[2:].to_dict(flat=False))]
                    u = K.concatenate(parts)
                    bad = [k for k in cols if getattr(u, k) is None or not np.array_equal(npf(getattr(u, k)), npf(getattr(s, k)))]
                    if bad or not np.array_equal(npf(u.x), npf(s.x)):
                        chk.fail("concatenating the pieces of a partition restores the original", case, f"fields {bad} differ after a partition through dictionaries (one piece empty)",
                                 {"cls": cname, "op": "partcat", "fields": bad, "corpus": "empty"})
                chk.case(case if chk.evaluations < 40 else None, json.dumps(case))
            except Exception as e:   # noqa
                chk.fail("selection total" if cname == "samples" else "dict round trip total", case, repr(e)[:300],
                         {"cls": cname, "op": "dict", "corpus": "empty", "exc": type(e).__name__, "weighted": cname == "samples"})
            if cname == "samples":
                # the same on a set without importance weights (an empty WEIGHTED set cannot be built: known finding)
                case = {"level": "corpus", "what": "empty selection / partition through dictionaries (unweighted)", "cls": cname, "ns": nsn}
                chk.count("corpus:empty_and_partition")
                try:
                    kw2 = {k: v for k, v in cols.items() if k != "log_q"}
                    s = K(x=xs, xp=xp, dtype=dt, **kw2)
                    parts = [K.from_dict(s[:2].to_dict(flat=False)), K.from_dict(s[2:2].to_dict(flat=False)), K.from_dict(s[2:].to_dict(flat=True))]
                    u = K.concatenate(parts)
                    bad = [k for k in kw2 if getattr(u, k) is None or not np.array_equal(npf(getattr(u, k)), npf(getattr(s, k)))]
                    if bad or not np.array_equal(npf(u.x), npf(s.x)):
                        chk.fail("concatenating the pieces of a partition restores the original", case, f"fields {bad} differ after a partition through dictionaries (one piece empty)",
                                 {"cls": cname, "op": "partcat", "fields": bad, "corpus": "empty"})
                    chk.case(case if chk.evaluations < 40 else None, json.dumps(case))
                except Exception as e:   # noqa
                    chk.fail("dict round trip total", case, repr(e)[:300], {"cls": cname, "op": "dict", "corpus": "empty", "exc": type(e).__name__})
        # (d) pieces that do not all carry the same optional per-sample fields (rows that already have a likelihood joined with fresh
        #     draws that only have log q): a field some piece lacks is ABSENT in the result - never a column shorter than x
        for cname, K in (("base", BaseSamples), ("smc", SMCSamples)):
            extra = {"beta": 0.5} if cname == "smc" else {}
            case = {"level": "corpus", "what": "concatenation of pieces with different optional fields", "cls": cname, "ns": nsn}
            chk.count("corpus:mixed_fields")
            chk.case(case if chk.evaluations < 40 else None, json.dumps(case))
            try:
                a_ = K(x=xs[:4], xp=xp, dtype=dt, log_likelihood=cols["log_likelihood"][:4], log_q=cols["log_q"][:4], **extra)
                b_ = K(x=xs[4:], xp=xp, dtype=dt, log_q=cols["log_q"][4:], **extra)
                u = K.concatenate([a_, b_])
                nrow = len(npf(u.x))
                bad = [k for k in cols if getattr(u, k) is not None and len(npf(getattr(u, k))) != nrow]
                if nrow != n or bad or u.log_q is None or not np.array_equal(npf(u.log_q), cols["log_q"]):
                    chk.fail("concatenating the pieces of a partition restores the original", case,
                             f"{nrow} rows; columns of another length than x: {bad}; log_q kept: {u.log_q is not None}",
                             {"cls": cname, "op": "cat_mixed", "fields": bad, "corpus": "mixed_fields"})
            except Exception as e:   # noqa
                chk.fail("selection total", case, repr(e)[:300], {"cls": cname, "op": "cat_mixed", "corpus": "mixed_fields", "exc": type(e).__name__})
        # (e) ONE dictionary converted back more than once (the same exported dictionary feeds two consumers), in both layouts: every
        #     conversion gives the same set, and the dictionary itself is left as it was
        # (f) a partition with a ONE-ROW piece: each piece through save / load (both layouts) and through a pickle, then concatenated
        import tempfile

        import h5py

        for cname, K in (("base", BaseSamples), ("samples", Samples), ("smc", SMCSamples)):
            extra = {"beta": 0.5} if cname == "smc" else {}
            full = K(x=xs, xp=xp, dtype=dt, **cols, **extra)
            for flat in (True, False):
                case = {"level": "corpus", "what": "one dictionary converted back three times", "cls": cname, "ns": nsn, "flat": flat}
                chk.count("corpus:dict_reused")
                chk.case(case if chk.evaluations < 40 else None, json.dumps(case))
                try:
                    d_ = full[1:5].to_dict(flat=flat)
                    keys0 = sorted(d_.keys()); inner0 = sorted(d_["samples"].keys()) if not flat else None
                    outs = [K.from_dict(d_) for _ in range(3)]
                    bad = [j for j, o_ in enumerate(outs) if not (np.array_equal(npf(o_.x), xs[1:5]) and all(np.array_equal(npf(getattr(o_, k)), cols[k][1:5]) for k in cols))]
                    changed = sorted(d_.keys()) != keys0 or (not flat and sorted(d_["samples"].keys()) != inner0)
                    if bad or changed:
                        chk.fail("dict round trip keeps rows aligned", case, f"conversions {bad} of the same dictionary differ from the set it was made from; dictionary changed by from_dict: {changed}",
                                 {"cls": cname, "op": "dict", "fields": [], "corpus": "dict_reused"})
                except Exception as e:   # noqa
                    chk.fail("dict round trip total", case, repr(e)[:300], {"cls": cname, "op": "dict", "corpus": "dict_reused", "exc": type(e).__name__})
            for how in ("save_flat", "save_nested", "pickle", "dict"):
                case = {"level": "corpus", "what": "partition with a one-row piece, every piece through " + how, "cls": cname, "ns": nsn}
                chk.count("corpus:one_row_piece")
                chk.case(case if chk.evaluations < 40 else None, json.dumps(case))
                try:
                    pieces = [full[0:3], full[3:4], full[4:6]]
                    back = []
                    with tempfile.TemporaryDirectory(prefix="aspire_verif_") as td:
                        for j, pc in enumerate(pieces):
                            if how.startswith("save"):
                                with h5py.File(f"{td}/p{j}.h5", "w") as f:
                                    pc.save(f, "s", flat=(how == "save_flat"))
                                with h5py.File(f"{td}/p{j}.h5", "r") as f:
                                    back.append(K.load(f, "s"))
                            elif how == "pickle":
                                back.append(pickle.loads(pickle.dumps(pc)))
                            else:
                                back.append(K.from_dict(pc.to_dict(flat=False)))
                    lens = [len(b_) for b_ in back]
                    u = K.concatenate(back)
                    okc = np.array_equal(npf(u.x), xs) and all(getattr(u, k) is not None and np.array_equal(npf(getattr(u, k)), cols[k]) for k in cols)
                    if lens != [3, 1, 2] or not okc:
                        chk.fail("concatenating the pieces of a partition restores the original", case, f"piece lengths after {how}: {lens} (expected [3, 1, 2]); pooled set equals the original: {okc}",
                                 {"cls": cname, "op": "partcat", "fields": [], "corpus": "one_row_piece"})
                except Exception as e:   # noqa
                    chk.fail("selection total", case, repr(e)[:300], {"cls": cname, "op": "partcat", "corpus": "one_row_piece", "exc": type(e).__name__})
        # (g) a pickled set comes back in its OWN namespace, every field of it (the derived weights and evidence of a weighted set included),
        #     and can be used as before: selected, pickled again
        for cname, K in (("base", BaseSamples), ("samples", Samples), ("smc", SMCSamples)):
            extra = {"beta": 0.5} if cname == "smc" else {}
            case = {"level": "corpus", "what": "namespace of every field after a pickle round trip", "cls": cname, "ns": nsn}
            chk.count("corpus:pickle_namespace")
            chk.case(case if chk.evaluations < 40 else None, json.dumps(case))
            try:
                s0 = K(x=xs, xp=xp, dtype=dt, **cols, **extra)
                t1 = pickle.loads(pickle.dumps(s0))
                t2 = pickle.loads(pickle.dumps(t1[1:5]))
                bad = []
                for obj, nm in ((t1, "after one round trip"), (t2, "selected and pickled again")):
                    for fname, v in vars(obj).items():
                        if fname != "xp" and hasattr(v, "shape") and hasattr(v, "dtype") and not callable(v) and ns.ns_of(v) != nsn:
                            bad.append(f"{fname} {nm}: {ns.ns_of(v)}")
                if bad or not np.array_equal(npf(t2.x), xs[1:5]):
                    chk.fail("pickling keeps rows aligned", case, f"fields of a {nsn} set that came back in another namespace: {bad[:5]}",
                             {"cls": cname, "op": "pickle", "fields": [], "corpus": "pickle_namespace"})
            except Exception as e:   # noqa
                chk.fail("selection total", case, repr(e)[:300], {"cls": cname, "op": "pickle", "corpus": "pickle_namespace", "exc": type(e).__name__})
        # (c) evidence attached to a set without weights
        for missing in ("log_q", "log_likelihood", "log_prior"):
            for how in ("to_standard_samples", "attribute"):
                case = {"level": "corpus", "what": "evidence on an unweighted set", "ns": nsn, "missing": missing, "how": how}
                chk.count("corpus:unweighted_with_evidence")
                try:
                    kw = {k: v for k, v in cols.items() if k != missing}
                    if how == "to_standard_samples":
                        sm = SMCSamples(x=xs, xp=xp, dtype=dt, beta=1.0, log_evidence=-3.25, log_evidence_error=0.125, **kw)
                        s = sm.to_standard_samples()
                    else:
                        s = Samples(x=xs, xp=xp, dtype=dt, **kw)
                        s.log_evidence, s.log_evidence_error = -3.25, 0.125
                    if s.log_evidence is None:
                        chk.case(None, None)
                        continue
                    sels = {"slice": s[1:5], "step": s[::2], "mask": s[xp.asarray(np.array([True, False, True, True, False, True]))],
                            "index": s[xp.asarray(np.array([4, 0, 0, 2]))], "chained": s[1:][::2]}
                    for nm, t in sels.items():
                        ze, zr = t.log_evidence, t.log_evidence_error
                        if ze is None or zr is None or abs(float(ze) + 3.25) > 1e-6 or abs(float(zr) - 0.125) > 1e-6:
                            chk.fail("evidence attached to a set is carried by selection", {**case, "selection": nm},
                                     f"selection `{nm}` of an unweighted set with log_evidence=-3.25 +/- 0.125 has log_evidence={ze!r}, error={zr!r}",
                                     {"cls": "samples", "op": "sel", "fields": ["logZ", "logZerr"], "corpus": "unweighted_evidence"})
                            break
                    chk.case(case if chk.evaluations < 40 else None, json.dumps(case))
                except Exception as e:   # noqa
                    chk.fail("selection total", case, repr(e)[:300], {"cls": "samples", "op": "sel", "corpus": "unweighted_evidence", "exc": type(e).__name__})


def run(chk: core.Check):
    check_corpus(chk)
    n_cases = 540 if chk.tier == "quick" else 8100
    r = np.random.default_rng(chk.seed + 16_016)
    chk.rule = ("random op sequences (index array incl. negative spellings / int / slice / mask / mask-partition+concatenate / "
                "3-slice partition+concatenate / pickle / flat and nested dict round trip) on class x namespace x width x "
                "field subset; distinct = different (class, namespace, width, data, op list); all count as non-trivial")
    chk.trusted += ["numpy/torch/jax indexing and concatenate (the model's `pick`/`flatten`); pickle of arrays"]
    cases = [gen_case(r, i, chk.tier) for i in range(n_cases)]
    B = 270
    for i in range(0, len(cases), B):
        run_cases(chk, cases[i:i + B])

    def search():
        sub = core.Check(chk.pid, chk.tier, chk.seed)
        sub.known, sub.matchers = chk.known, chk.matchers
        rr = np.random.default_rng(chk.seed + 999)
        cs = [gen_case(rr, i, "thorough") for i in range(2000)]
        for i in range(0, len(cs), B):
            run_cases(sub, cs[i:i + B])
            if sub.failures:
                return sub.failures[0]
        return None

    return search


def replay(chk: core.Check, path: str) -> int:
    doc = json.loads(open(path).read())
    p = doc["payload"]
    cases = [p["case"]] if "case" in p else [d["case"] for d in p.get("correspondence", [])]
    run_cases(chk, cases)
    for f in chk.failures:
        print("FAIL", f["clause"], f["detail"])
    for d in chk.disagreements:
        print("DISAGREE", d["op"], d["detail"])
    print(f"replayed {len(cases)} case(s): {len(chk.failures)} oracle failure(s), {len(chk.disagreements)} disagreement(s), known-finding hits {chk.known_hits}")
    return 1 if (chk.failures or chk.disagreements) else 0
