"""C10 — cached per-particle log-densities always belong to the particle's coordinates.

Whole runs of every sampler class (importance, MiniPCN, Emcee, MiniPCNSMC, EmceeSMC) x preconditioning x namespace x
seed with a proposal that over-covers the prior box (so that out-of-prior draws are rejected), including final
enlargement, checkpoints and resumed runs: L, pi and q are recomputed at the coordinates of every row of every sample
set the library returns, records or checkpoints.  The initial population is additionally compared with the Lean model
of the rejection loop (Model/Eval.lean `drawInitialRows`, op `initial`) fed with the recorded proposal batches.
"""
from __future__ import annotations

import json

import numpy as np

from .. import core, ns, smcrun
from ..core import fh, fl

SAMPLERS = ("importance", "minipcn", "emcee", "minipcn_smc", "emcee_smc")
NSS = ("numpy", "torch", "jax")
PRECONDS = [None, {"bounded_to_unbounded": True, "bounded_transform": "logit", "affine_transform": False},
            {"bounded_to_unbounded": True, "bounded_transform": "probit", "affine_transform": True},
            {"bounded_to_unbounded": False, "affine_transform": False, "periodic": [0]}]


def gen_cfg(r, i):
    s = SAMPLERS[i % 5]
    nsn = NSS[(i // 5) % 3]
    pre = PRECONDS[(i // 15) % 4] if s != "importance" else None
    if nsn == "jax" and pre is None and s in ("minipcn", "emcee", "emcee_smc"):
        pre = PRECONDS[1]       # IdentityTransform(jax) cannot take the numpy arrays these kernels pass (noted in DESIGN)
    big = bool(r.random() < 0.25)
    cfg = {"sampler": s, "ns": nsn, "width": "f64" if r.random() < 0.75 else "f32", "dims": int(r.choice([1, 2, 3])),
           "n_samples": int(r.choice([10, 16])), "kernel_steps": 2, "seed": int(r.integers(1, 100000)),
           "half": float(r.choice([2.0, 3.0])), "prop_sigma": float(r.choice([2.0, 3.0])),      # ~20-45% of the draws fall outside the prior box
           "like_width": float(r.choice([0.5, 1.0])), "precond": pre}
    if big and pre is None:
        # large offset compared with widths: a relative 1e-5 "did not move" test would misfire here
        cfg.update(like_center=1.0e6, prop_mu=1.0e6, half=2.0e6, prop_sigma=3.0, like_width=1.0)
    if not big and r.random() < 0.3:
        # a proposal with compact support INSIDE the prior box: the kernel visits points with zero proposal density but finite prior
        cfg.update(prop_kind="uniform", prop_mu=0.0, prop_sigma=0.7 * cfg["half"], like_center=0.6 * cfg["half"], like_width=0.4)
    if not big and s != "importance" and r.random() < 0.25:
        # a likelihood with a hard cut INSIDE the prior support: a share of the proposal's draws has finite prior and log L = -inf
        # (they belong to the initial population like any other finite-prior draw)
        cfg["like_cut"] = -0.25 * cfg["half"]
    if i % 10 in (3, 4, 8) and (i // 10) % 2 == 1 and cfg["width"] == "f64":
        # parameters whose whole natural scale is far below 1e-12 (an amplitude of order 1e-13 in SI units), standardised by the affine
        # preconditioning so that the kernels move: every displacement is tiny in absolute terms, and every row still stores the
        # densities of ITS coordinates
        sc = float(r.choice([1e-13, 1e-15, 1e-20]))
        for k_ in ("prop_kind", "like_cut"):
            cfg.pop(k_, None)
        cfg.update(half=2.5 * sc, prop_sigma=2.0 * sc, prop_mu=0.0, like_center=0.8 * sc, like_width=0.6 * sc, tiny_scale=sc,
                   precond={"bounded_to_unbounded": False, "affine_transform": True})
    if s in ("emcee", "emcee_smc") and i % 15 >= 10 and "tiny_scale" not in cfg:
        # more dimensions than half the requested population (the real emcee has an opinion about that; aspire's contract is the size asked for)
        cfg.update(dims=int(r.choice([6, 8])), n_samples=int(r.choice([9, 12])), half=4.0, prop_sigma=2.0)
        for k_ in ("prop_kind", "like_cut", "like_center", "prop_mu"):
            cfg.pop(k_, None)
    if s.endswith("_smc") and r.random() < 0.4:
        cfg["n_final_samples"] = int(cfg["n_samples"] * r.choice([0.5, 2]))
    if s == "minipcn_smc":
        cfg["checkpoint_every"] = int(r.choice([1, 2]))
    return cfg


def coherent(chk, case, name, x, ll, lp, lq, target, flow, f32):
    """recompute L, pi, q on every row"""
    x = np.asarray(x, dtype=float)
    n = len(x)
    tol = dict(rtol=2e-4, atol=2e-3) if f32 else dict(rtol=1e-9, atol=1e-9)
    bad = []
    with np.errstate(all="ignore"):
        scale = float(np.max(np.abs(x))) if n else 1.0
        if scale > 1e4 and f32:
            return 0      # float32 cannot resolve O(1) widths at a 1e6 offset: not a coherence question
        if ll is not None and not np.allclose(np.asarray(ll).reshape(-1), target.like_np(x), equal_nan=True, **tol):
            bad.append("log_likelihood")
        if lp is not None and not np.allclose(np.asarray(lp).reshape(-1), target.prior_np(x), equal_nan=True, **tol):
            bad.append("log_prior")
        if lq is not None and not np.allclose(np.asarray(lq).reshape(-1), flow._lp(x), equal_nan=True, **tol):
            bad.append("log_q")
    if bad:
        chk.fail("stored log-densities are L, pi, q at the row's coordinates", case, f"{name}: {bad} do not match a recomputation at the stored coordinates",
                 {"where": name.split("[")[0], "fields": bad, "sampler": case["cfg"]["sampler"]})
    return n


def sset(s):
    g = lambda a: None if getattr(s, a, None) is None else ns.to_np(getattr(s, a))
    return ns.to_np(s.x), g("log_likelihood"), g("log_prior"), g("log_q")


def check_run(chk, cfg, lines, keep):
    flow_batches = []
    res = None
    orig = smcrun.make_proposal

    def spying(*a, **k):
        fl_ = orig(*a, **k)
        o = fl_.sample_and_log_prob

        def rec(n):
            x, lq = o(n)
            flow_batches.append((ns.to_np(x).copy(), ns.to_np(lq).copy()))
            return x, lq

        fl_.sample_and_log_prob = rec
        return fl_

    smcrun.make_proposal = spying
    try:
        res = smcrun.run_sampler({**cfg, "record_checkpoints": True})
    finally:
        smcrun.make_proposal = orig
    case = {"cfg": cfg}
    full = res["cfg"]
    chk.count(f"sampler:{cfg['sampler']}")
    chk.count(f"ns:{cfg['ns']}/{cfg['width']}")
    key = json.dumps(cfg)
    if smcrun.collapsed_population(res):
        chk.count("skipped:population_collapsed_rejected_by_library")
        return
    if res["status"] != "done":
        chk.case(None, None)
        chk.fail("run total", case, repr(res.get("exc"))[:300], {"clause": "raise", "sampler": cfg["sampler"], "exc": type(res.get("exc")).__name__})
        return
    f32 = cfg["width"] == "f32"
    target, flow = res["target"], res["flow"]
    rows = 0
    s = res["samples"]
    rows += coherent(chk, case, "final samples", *sset(s), target, flow, f32)
    sampler = res["sampler"]
    h = getattr(sampler, "history", None)
    if h is not None and getattr(h, "sample_history", None):
        for t, p in enumerate(h.sample_history):
            rows += coherent(chk, case, f"history[{t}]", *sset(p), target, flow, f32)
    for j, ck in enumerate(res.get("ckpts", [])):
        st = ck["state"]
        rows += coherent(chk, case, f"checkpoint[{j}].samples", *sset(st["samples"]), target, flow, f32)
        for t, p in enumerate(st["history"].sample_history):
            rows += coherent(chk, case, f"checkpoint[{j}].history[{t}]", *sset(p), target, flow, f32)
    chk.count("rows_recomputed", rows)
    chk.case({"cfg": cfg, "rows_recomputed": rows} if chk.evaluations < 8 else None, key)
    # ---- initial population (SMC / MCMC): exact size, finite prior, own proposal density, model of the rejection loop
    init = None
    if h is not None and getattr(h, "sample_history", None):
        init = h.sample_history[0]
    elif cfg["sampler"] in ("minipcn", "emcee"):
        t2 = smcrun.Target(full["dims"], center=full["like_center"], width=full["like_width"], half=full["half"])
        fl2 = orig(full["dims"], mu=full["prop_mu"], sigma=full["prop_sigma"], seed=full["seed"] + 17, xp_name=full["ns"])
        from aspire.samplers.mcmc import MiniPCN

        s2 = MiniPCN(log_likelihood=t2.log_likelihood, log_prior=t2.log_prior, dims=full["dims"], prior_flow=fl2, xp=ns.get_xp(full["ns"]),
                     dtype=ns.native_dtype(full["ns"], full["width"]), parameters=[f"p{i}" for i in range(full["dims"])])
        init = s2.draw_initial_samples(full["n_samples"])
    if init is not None:
        n_req = full["n_samples"]
        ix, ill, ilp, ilq = sset(init)
        if len(ix) != n_req:
            chk.fail("initial population has exactly the requested size", case, f"{len(ix)} rows, requested {n_req}", {"clause": "initial_size"})
        if ilp is not None and not np.all(np.isfinite(ilp)):
            chk.fail("initial population has only finite-prior particles", case, f"{int(np.sum(~np.isfinite(ilp)))} rows with non-finite prior", {"clause": "initial_finite"})
        # model of the rejection loop on the recorded batches (only those drawn for the initial population)
        nb = 0
        got = 0
        for bx, blq in flow_batches:
            nb += 1
            got += int(np.sum(np.isfinite(target.prior_np(bx))))
            if got >= n_req:
                break
        if nb > 1:
            chk.count("initial_draw_needed_several_batches")
        if any(not np.all(np.isfinite(target.prior_np(bx))) for bx, _ in flow_batches[:nb]):
            chk.count("initial_draw_rejected_points")
        if cfg["sampler"] in ("minipcn_smc", "emcee_smc") and not f32:
            toks = ["f64", "initial", str(n_req), str(nb)]
            for bx, blq in flow_batches[:nb]:
                m, d = bx.shape
                toks += [str(m), str(d)] + [fh(v) for v in bx.reshape(-1)] + [fh(v) for v in blq] + [fh(v) for v in target.prior_np(bx)]
            lines.append(" ".join(toks))
            keep.append((case, ix, ilq, ilp))


def check_pool(chk, quick):
    """the documented multiprocessing pattern (docs/multiprocessing.rst): a map-aware likelihood run inside `enable_pool` with a pool of
    several workers whose tasks finish OUT OF ORDER (the cost of one likelihood call depends on the point).  Row i of every returned or
    recorded set must still carry the likelihood of row i."""
    import time
    from multiprocessing.pool import ThreadPool

    from .. import aspire_level as al

    def one(x):
        if x[0] > 0.3:
            time.sleep(0.0004)          # the expensive part of parameter space
        return float(-0.5 * np.sum((x - 1.0) ** 2) / 0.25)

    def log_likelihood(samples, map_fn=map):
        logl = -np.inf * np.ones(len(samples.x))
        if samples.log_prior is None:
            raise RuntimeError("log-prior has not been evaluated!")
        mask = np.isfinite(np.asarray(samples.log_prior), dtype=bool)
        x = np.asarray(samples.x)[mask, :]
        logl[mask] = np.fromiter(map_fn(one, x), dtype=float)
        return logl

    for sampler, workers in (("importance", 4), ("smc", 4)) if quick else (("importance", 4), ("smc", 4), ("smc", 2), ("importance", 1)):
        t = smcrun.Target(2)
        a = al.make_aspire(t, dims=2)
        a.log_likelihood = log_likelihood
        a.fit(al.training_samples(2, 5))
        case = {"level": "pool", "sampler": sampler, "workers": workers}
        chk.count("pool_runs")
        chk.case(None, json.dumps(case))
        kw = dict(n_samples=48)
        if sampler == "smc":
            kw.update(sampler="smc", sampler_kwargs={"n_steps": 1}, adaptive=False, n_steps=2, return_history=True)
        else:
            kw.update(sampler="importance")
        try:
            with al.orng_seed(3), ThreadPool(workers) as pool, a.enable_pool(pool, close_pool=False):
                out = a.sample_posterior(**kw)
        except Exception as e:   # noqa
            chk.fail("run total", case, repr(e)[:300], {"clause": "raise", "level": "pool"})
            continue
        smp, hist = (out if isinstance(out, tuple) else (out, None))
        sets = [("returned samples", smp)] + ([(f"history[{i}]", p) for i, p in enumerate(hist.sample_history)] if hist is not None else [])
        for name, st in sets:
            x, ll = ns.to_np(st.x), ns.to_np(st.log_likelihood)
            ref = np.array([one(v) for v in x])
            lp = ns.to_np(st.log_prior)
            ok = np.where(np.isfinite(lp), np.isclose(ll, ref, rtol=1e-9, atol=1e-9), True)
            if not ok.all():
                j = int(np.argmin(ok))
                chk.fail("stored log-densities are L, pi, q at the row's coordinates", dict(case, where=name),
                         f"{name}: row {j} stores log L = {ll[j]!r}, the likelihood at its coordinates is {ref[j]!r} ({int((~ok).sum())} of {len(ok)} rows differ; "
                         f"pool of {workers} workers, tasks finishing out of order)", {"clause": "coherent", "level": "pool", "field": "ll"})
                break


def check_reload(chk):
    """a sample set the library hands back after a save / load cycle still pairs every row with its own log-densities, also when the
    declared parameter order is not the alphabetical one (HDF5 lists members alphabetically)"""
    import tempfile

    import h5py

    from aspire.samples import Samples, SMCSamples

    tmp = tempfile.mkdtemp(prefix="aspire_verif_")
    try:
        for j, (names, K) in enumerate(((["mass", "distance"], Samples), (["zeta", "alpha", "mu"], SMCSamples),
                                        ([f"x_{k}" for k in range(12)], Samples))):
            d = len(names)
            rr = np.random.default_rng(77 + j)
            x = rr.normal(0, 1, (9, d)) * np.arange(1, d + 1)
            like = lambda v: -0.5 * np.sum((v - np.arange(d)) ** 2 / (1 + np.arange(d)), axis=-1)
            prior = lambda v: -np.sum(np.abs(v) / (2 + np.arange(d)), axis=-1)
            q = lambda v: -0.5 * np.sum(v ** 2, axis=-1)
            kw = dict(x=x, parameters=list(names), log_likelihood=like(x), log_prior=prior(x), log_q=q(x))
            if K is SMCSamples:
                kw["beta"] = 0.5
            s = K(**kw)
            case = {"level": "reload", "cls": K.__name__, "parameters": names[:4]}
            chk.count("reload_sets")
            chk.case(None, json.dumps(case))
            for flat in (False, True):
                p = f"{tmp}/s{j}{int(flat)}.h5"
                try:
                    with h5py.File(p, "w") as f:
                        s.save(f, "samples", flat=flat)
                    with h5py.File(p, "r") as f:
                        t = K.load(f, "samples")
                except Exception as e:   # noqa
                    chk.fail("run total", dict(case, flat=flat), repr(e)[:200], {"clause": "raise", "level": "reload"})
                    continue
                xt = ns.to_np(t.x)
                for fname, fn in (("log_likelihood", like), ("log_prior", prior), ("log_q", q)):
                    got = ns.to_np(getattr(t, fname))
                    if xt.shape != x.shape or not np.allclose(got, fn(xt), rtol=1e-9, atol=1e-9):
                        chk.fail("stored log-densities are L, pi, q at the row's coordinates", dict(case, flat=flat),
                                 f"after save/load ({'flat' if flat else 'nested'} layout) with parameters {names[:4]}: {fname} of row 0 is {got[0]!r}, "
                                 f"the function at the reloaded coordinates gives {fn(xt)[0] if xt.shape == x.shape else None!r}",
                                 {"clause": "coherent", "level": "reload", "field": fname})
                        break
    finally:
        import shutil

        shutil.rmtree(tmp, ignore_errors=True)


def check_resumed_objects(chk):
    """populations handed back by an object built with `resume_from_file`: their stored log_q is THAT object's proposal at the row's
    coordinates - also after the usual continuation of an analysis: resume, refit the proposal on the new samples, sample again into
    the same file, and resume that file once more"""
    import shutil
    import tempfile

    from aspire import Aspire

    from .. import aspire_level as al

    tmp = tempfile.mkdtemp(prefix="aspire_verif_")
    try:
        for variant in ("resume", "resume+refit+sample+resume", "resume+refit(overwrite)+sample+resume"):
            t = smcrun.Target(2)
            path = f"{tmp}/{abs(hash(variant)) % 10**6}.h5"
            case = {"level": "resumed_object", "sequence": variant}
            chk.count("resumed_objects")
            chk.case(None, json.dumps(case))
            skw = dict(n_samples=14, sampler="smc", sampler_kwargs={"n_steps": 1}, adaptive=False, n_steps=3, return_history=True)
            try:
                a = al.make_aspire(t, dims=2, flow_seed=11)
                a.fit(al.training_samples(2, 1, center=0.2, spread=0.8))
                with al.orng_seed(5), a.auto_checkpoint(path, every=1):
                    a.sample_posterior(**skw)
                r1 = Aspire.resume_from_file(path, log_likelihood=t.log_likelihood, log_prior=t.log_prior)
                objs = [("first resumed object", r1)]
                if variant != "resume":
                    r1.fit(al.training_samples(2, 2, center=0.9, spread=1.7), **({"overwrite": True, "checkpoint_path": path} if "overwrite" in variant else {}))
                    with al.orng_seed(6):
                        out1 = r1.sample_posterior(**skw)
                    objs = [("resumed, refitted object", r1)]
                    r2 = Aspire.resume_from_file(path, log_likelihood=t.log_likelihood, log_prior=t.log_prior)
                    objs.append(("object resumed from the file the refitted run wrote", r2))
                for oname, o in objs:
                    with al.orng_seed(7):
                        smp, hist = o.sample_posterior(**skw) if oname != "resumed, refitted object" else out1
                    sets = [("returned samples", smp)] + [(f"history[{i}]", p) for i, p in enumerate(hist.sample_history)]
                    for name, st in sets:
                        if st.log_q is None:
                            continue
                        x, lq = ns.to_np(st.x), ns.to_np(st.log_q)
                        ref = ns.to_np(o.flow.log_prob(o.flow.xp.asarray(x) if hasattr(o.flow, "xp") else x))
                        if not np.allclose(lq, ref, rtol=1e-8, atol=1e-8):
                            j = int(np.argmax(np.abs(lq - ref)))
                            chk.fail("stored log-densities are L, pi, q at the row's coordinates", dict(case, object=oname, where=name),
                                     f"{oname}, {name}: row {j} stores log q = {lq[j]!r}, the object's proposal at its coordinates gives {ref[j]!r}",
                                     {"clause": "coherent", "level": "resumed_object", "field": "lq"})
                            raise StopIteration
            except StopIteration:
                pass
            except Exception as e:   # noqa
                chk.fail("run total", case, repr(e)[:300], {"clause": "raise", "level": "resumed_object"})
    finally:
        shutil.rmtree(tmp, ignore_errors=True)


def check_real_flow_large_population(chk):
    """a REAL zuko proposal and a population of several thousand particles (not a multiple of any power of two): the log q stored with row i
    of every population is the proposal's density at row i - recomputed here in small blocks, never in one call of the size the library used"""
    import torch

    from aspire.flows import get_flow_wrapper
    from aspire.samplers.smc.minipcn import MiniPCNSMC
    from aspire.transforms import FlowTransform

    F, fxp = get_flow_wrapper("zuko")
    n = 4500
    case = {"level": "real_flow_large_population", "backend": "zuko", "n_samples": n}
    chk.count("real_flow_large_population")
    chk.case(None, json.dumps(case))
    try:
        params = ["p0", "p1"]
        tr = FlowTransform(parameters=params, prior_bounds={p: [-10.0, 10.0] for p in params}, bounded_to_unbounded=False, affine_transform=False,
                           xp=fxp, dtype="float64")
        f = F(dims=2, device="cpu", data_transform=tr, dtype="float64", seed=3)
        t = smcrun.Target(2, center=0.3, width=1.0, half=10.0)
        s = MiniPCNSMC(log_likelihood=t.log_likelihood, log_prior=t.log_prior, dims=2, prior_flow=f, xp=fxp, dtype="float64", parameters=params,
                       rng=np.random.default_rng(4))
        with torch.no_grad():
            s.sample(n, adaptive=False, n_steps=2, sampler_kwargs={"n_steps": 1})
        for ti, pop in enumerate(s.history.sample_history):
            x, lq = ns.to_np(pop.x), ns.to_np(pop.log_q)
            ref = np.concatenate([ns.to_np(f.log_prob(torch.as_tensor(x[a:a + 250], dtype=torch.float64)).detach()) for a in range(0, len(x), 250)])
            if len(x) != n or not np.allclose(lq, ref, rtol=1e-8, atol=1e-8):
                j = int(np.argmax(~np.isclose(lq, ref, rtol=1e-8, atol=1e-8))) if len(lq) == len(ref) else -1
                chk.fail("stored log-densities are L, pi, q at the row's coordinates", dict(case, where=f"history[{ti}]"),
                         f"history[{ti}] ({len(x)} rows): row {j} stores log q = {lq[j] if j >= 0 else None!r}, the proposal at its coordinates gives {ref[j] if j >= 0 else None!r} "
                         f"({int((~np.isclose(lq, ref, rtol=1e-8, atol=1e-8)).sum()) if len(lq) == len(ref) else 'shape'} rows differ)",
                         {"clause": "coherent", "level": "real_flow_large_population", "field": "lq"})
                break
    except Exception as e:   # noqa
        chk.fail("run total", case, repr(e)[:300], {"clause": "raise", "level": "real_flow_large_population"})


def check_pooled_orders(chk):
    """results of the same problem declared with the parameters in ANOTHER order (a rotation of three or more names) are pooled with
    `concatenate`: the library may refuse, but a set it does hand back stores, in row i, the densities of the point row i names"""
    from aspire.samples import Samples, SMCSamples

    names = ["mass", "distance", "time", "phase"]
    centre = {"mass": 0.5, "distance": -0.3, "time": 1.0, "phase": 2.0}

    def like(x, order):
        return -0.5 * sum((x[:, j] - centre[n_]) ** 2 / 0.25 for j, n_ in enumerate(order))

    r = np.random.default_rng(14)
    for K in (Samples, SMCSamples):
        for nsn in NSS:
            for perm in ([1, 2, 0], [2, 0, 1], [1, 0, 2], [1, 2, 3, 0], [3, 0, 1, 2]):
                d = len(perm)
                o1 = names[:d]
                o2 = [o1[j] for j in perm]
                case = {"level": "pooled_orders", "cls": K.__name__, "ns": nsn, "orders": [o1, o2]}
                chk.count("pooled_orders")
                chk.case(None, json.dumps(case))
                xp, dt = ns.get_xp(nsn), ns.native_dtype(nsn, "f64")
                sets = []
                for o in (o1, o2):
                    x = r.normal(0.4, 1.0, (6, d))
                    kw = {"beta": 1.0} if K is SMCSamples else {}
                    sets.append(K(x=x, parameters=list(o), log_likelihood=like(x, o), log_prior=np.zeros(6), xp=xp, dtype=dt, **kw))
                try:
                    u = K.concatenate(sets)
                except ValueError:
                    chk.count("pooled_orders:refused")
                    continue
                except Exception as e:   # noqa
                    chk.fail("run total", case, repr(e)[:200], {"clause": "raise", "level": "pooled_orders"})
                    continue
                xu, llu = ns.to_np(u.x), ns.to_np(u.log_likelihood)
                ref = like(xu, list(u.parameters))
                if len(xu) != 12 or not np.allclose(llu, ref, rtol=1e-9, atol=1e-9):
                    j = int(np.argmax(~np.isclose(llu, ref, rtol=1e-9, atol=1e-9))) if len(llu) == len(ref) else -1
                    chk.fail("stored log-densities are L, pi, q at the row's coordinates", case,
                             f"pooled set with parameters {list(u.parameters)}: row {j} stores log L = {llu[j] if j >= 0 else None!r}, the likelihood of the point it names is {ref[j] if j >= 0 else None!r}",
                             {"clause": "coherent", "level": "pooled_orders", "field": "ll"})


def check_second_analysis(chk):
    """the same `Aspire` object analyses a second data set with the same proposal and the same sampler configuration: the user replaces
    `log_likelihood` / `log_prior` (public attributes; `enable_pool` itself swaps them) between two `sample_posterior` calls.  Every set the
    SECOND call hands back or records stores the likelihood and prior the object has NOW, at the row's coordinates."""
    from .. import aspire_level as al

    for sampler, skw in (("importance", dict(n_samples=40)),
                         ("smc", dict(n_samples=14, sampler_kwargs={"n_steps": 1}, adaptive=False, n_steps=3)),
                         ("minipcn", dict(n_samples=10, n_steps=3))):
        for swap in ("likelihood", "prior", "both"):
            case = {"level": "second_analysis", "sampler": sampler, "replaced": swap}
            chk.count("second_analysis")
            chk.case(None, json.dumps(case))
            try:
                t1 = smcrun.Target(2, center=1.0, width=0.5, half=10.0)
                t2 = smcrun.Target(2, center=-0.7 if swap != "prior" else 1.0, width=0.9 if swap != "prior" else 0.5, half=6.0 if swap != "likelihood" else 10.0)
                a = al.make_aspire(t1, dims=2, flow_seed=11)
                a.fit(al.training_samples(2, 1, center=0.2, spread=0.8))
                with al.orng_seed(5):
                    a.sample_posterior(sampler=sampler, **skw)
                if swap in ("likelihood", "both"):
                    a.log_likelihood = t2.log_likelihood
                if swap in ("prior", "both"):
                    a.log_prior = t2.log_prior
                with al.orng_seed(6):
                    out = a.sample_posterior(sampler=sampler, return_history=(sampler == "smc"), **skw)
                smp, hist = out if isinstance(out, tuple) else (out, None)
                sets = [("returned samples", smp)] + ([(f"history[{i}]", p_) for i, p_ in enumerate(hist.sample_history)] if hist is not None and getattr(hist, "sample_history", None) else [])
                for name, st in sets:
                    x = ns.to_np(st.x)
                    for fname, fn in (("log_likelihood", t2.like_np), ("log_prior", t2.prior_np)):
                        v = getattr(st, fname, None)
                        if v is None:
                            continue
                        got, ref = ns.to_np(v), fn(x)
                        if not np.allclose(got, ref, rtol=1e-9, atol=1e-9, equal_nan=True):
                            j = int(np.argmax(~np.isclose(got, ref, rtol=1e-9, atol=1e-9, equal_nan=True)))
                            chk.fail("stored log-densities are L, pi, q at the row's coordinates", dict(case, where=name),
                                     f"second sample_posterior on the same object after replacing the {swap}: {name} row {j} stores {fname} = {got[j]!r}, "
                                     f"the object's current function at its coordinates gives {ref[j]!r}", {"clause": "coherent", "level": "second_analysis", "field": fname})
                            raise StopIteration
            except StopIteration:
                pass
            except Exception as e:   # noqa
                chk.fail("run total", case, repr(e)[:300], {"clause": "raise", "level": "second_analysis"})


def run(chk: core.Check):
    r = np.random.default_rng(chk.seed + 10010)
    quick = chk.tier == "quick"
    chk.rule = ("whole runs of importance / MiniPCN / Emcee / MiniPCNSMC / EmceeSMC x preconditioning x namespace x width x seed with a proposal "
                "over-covering the prior box (20-45% of the draws rejected), optional 1e6 coordinate offset, final enlargement and checkpoints; every "
                "row of every returned / recorded / checkpointed sample set is recomputed; all distinct configurations count as non-trivial")
    chk.trusted += ["kernel doubles; the analytic stub proposal (closed-form log-density) as q; numpy/torch/jax indexing"]
    drv = core.LeanDriver()
    lines, keep = [], []
    for i in range(60 if quick else 1200):
        check_run(chk, gen_cfg(r, i), lines, keep)
    check_pool(chk, quick)
    check_reload(chk)
    check_resumed_objects(chk)
    check_second_analysis(chk)
    check_pooled_orders(chk)
    check_real_flow_large_population(chk)
    for (case, ix, ilq, ilp), rep in zip(keep, drv.batch(lines)):
        if not rep.ok:
            raise core.HarnessError(rep.err)
        st = rep.tok()
        if st != "ok":
            chk.disagree("draw_initial_samples", case, st, "ok")
            continue
        used, n = rep.n(), rep.n()
        mx, mlq, mlp = np.asarray(rep.fs()), np.asarray(rep.fs()), np.asarray(rep.fs())
        if n != len(ix) or not np.array_equal(mx, ix.reshape(-1)) or not np.allclose(mlq, ilq, rtol=1e-12, atol=1e-12) or not np.allclose(mlp, ilp, rtol=1e-12, atol=0):
            chk.disagree("draw_initial_samples", case, [int(n), mx[:4].tolist(), mlq[:3].tolist()], [len(ix), ix.reshape(-1)[:4].tolist(), ilq[:3].tolist()])

    def search():
        sub = core.Check(chk.pid, chk.tier, chk.seed)
        sub.known, sub.matchers = chk.known, chk.matchers
        rr = np.random.default_rng(chk.seed + 4)
        for i in range(150):
            check_run(sub, gen_cfg(rr, i), [], [])
            if sub.failures:
                return sub.failures[0]
        return None

    return search


def replay(chk: core.Check, path: str) -> int:
    doc = json.loads(open(path).read())
    p = doc["payload"]
    cases = [p["case"]] if "case" in p else [d["case"] for d in p.get("correspondence", [])]
    LEVELS = {"pooled_orders": check_pooled_orders, "real_flow_large_population": check_real_flow_large_population, "second_analysis": check_second_analysis, "resumed_object": check_resumed_objects, "reload": check_reload,
              "pool": lambda k: check_pool(k, False)}
    for c in cases:
        if "cfg" in c:
            check_run(chk, dict(c["cfg"]), [], [])
        elif c.get("level") in LEVELS:
            LEVELS[c["level"]](chk)      # the fixed scenario family the case belongs to is run again in full
        else:
            raise core.HarnessError(f"cannot replay case {c}")
    for f in chk.failures[:10]:
        print("FAIL", f["clause"], f["detail"])
    print(f"replayed {len(cases)} case(s): {len(chk.failures)} oracle failure(s)")
    return 1 if chk.failures else 0
