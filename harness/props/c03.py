"""C03 — the fitted proposal is a normalised density; sampling and evaluation agree.

Real zuko and flowjax flows x bounded transform (logit, probit, off) x dtype, untrained / trained / saved-and-reloaded:
 * `log_prob(x)` of the wrapper  vs  the Lean model `flowLogProb` (Model/Transforms.lean): the data transform's image and
   log-Jacobian come from the model (op `tfm fwd`), the neural density `base` is read from the real network at that image;
 * `sample_and_log_prob(n)`: the returned log-density  vs  `log_prob` at the draws (pointwise), draws inside the bounds;
 * after a save/load cycle the reloaded flow gives the same log_prob;
 * supporting exploration (labelled as such): trapezoid quadrature of exp(log_prob) over the support in 1-D ~ 1.
The theorems (`C03.sample_eval_agree`, `draws_in_bounds_row`, `normalised_1d*`) take "the network is a normalised density with
an exact bijection" as a hypothesis; the quadrature only shows that hypothesis is not absurd for the real networks.
"""
from __future__ import annotations

import json
import math
import os
import shutil
import tempfile

import numpy as np

from .. import core, ns
from ..core import fh
from . import c04

EPS = 1e-6


def make_flow(c):
    import torch

    from aspire.flows import get_flow_wrapper
    from aspire.transforms import FlowTransform

    F, xp = get_flow_wrapper(c["backend"])
    d = c["d"]
    params = ["zeta", "alpha", "mu"][:d]          # declared order is not the alphabetical one
    bounds = {p: [c["lo"][j], c["hi"][j]] for j, p in enumerate(params)}
    tr = FlowTransform(parameters=params, prior_bounds=bounds, bounded_to_unbounded=c["bounded"] != "off",
                       bounded_transform=c["bounded"] if c["bounded"] != "off" else "logit", affine_transform=c["affine"],
                       xp=xp, eps=EPS, dtype=c["dtype"])
    if c["backend"] == "zuko":
        f = F(dims=d, device="cpu", data_transform=tr, dtype=c["dtype"], seed=c["seed"])
    else:
        import jax

        ns.enable_x64()
        f = F(dims=d, device="cpu", data_transform=tr, dtype=c["dtype"], key=jax.random.key(c["seed"]))
    return f, xp


def base_logprob(f, c, z):
    import torch

    if c["backend"] == "zuko":
        with torch.no_grad():
            return ns.to_np(f._flow().log_prob(torch.as_tensor(z, dtype=f.dtype)))
    import jax.numpy as jnp

    return ns.to_np(f._flow.log_prob(jnp.asarray(z, dtype=f.dtype)))


def lp(f, x):
    import torch

    with torch.no_grad():
        return ns.to_np(f.log_prob(x))


def gen_case(r, i):
    backend = ("zuko", "flowjax")[i % 2]
    bounded = ("logit", "probit", "off")[(i // 2) % 3]
    dtype = ("float64", "float32")[(i // 6) % 2]
    d = 1 if i % 4 == 0 else 2
    lo = [float(v) for v in r.choice([0.0, -2.0, 10.0, 100.0], d, replace=False)]
    hi = [l + w for l, w in zip(lo, [float(v) for v in r.choice([1.0, 5.0, 0.5, 40.0], d, replace=False)])]
    return {"backend": backend, "bounded": bounded, "dtype": dtype, "d": d, "lo": lo, "hi": hi, "affine": bool(i % 3 != 2),
            "seed": int(r.integers(0, 1000)), "train": bool(i % 2 == 0 or True)}


def check_flow(chk, c, tmp, drv):
    import torch

    f32 = c["dtype"] == "float32"
    tol = 5e-4 if f32 else 1e-8
    case = dict(c)
    chk.count(f"backend:{c['backend']}")
    chk.count(f"bounded:{c['bounded']}")
    chk.count(f"dtype:{c['dtype']}")
    key = json.dumps(c)
    sig = {"backend": c["backend"], "bounded": c["bounded"], "dtype": c["dtype"]}
    try:
        f, xp = make_flow(c)
    except Exception as e:   # noqa
        chk.case(None, None)
        chk.fail("flow construction", case, repr(e)[:300], {**sig, "clause": "raise"})
        return
    r = np.random.default_rng(c["seed"])
    lo, hi = np.asarray(c["lo"]), np.asarray(c["hi"])
    fin = np.isfinite(lo) & np.isfinite(hi)
    wd = np.where(fin, hi - lo, 1.0)
    anchor = np.where(np.isfinite(lo), lo, hi)

    def spread(s_):
        # finite ranges: inside the range; one-sided ranges: next to the finite end (a fitted proposal then has mass beyond it)
        z_ = r.normal(0, 1, (150, c["d"]))
        out_ = np.where(fin, np.where(np.isfinite(lo), lo, 0.0) + (0.5 + s_ * np.tanh(z_)) * wd, anchor + np.where(np.isfinite(lo), 1, -1) * 1.2 * s_ * np.abs(z_))
        if c.get("pile_upper"):
            out_[:, 0] = hi[0] - 0.6 * s_ * np.abs(z_[:, 0]) * wd[0] - 1e-3 * wd[0]        # the data sit against the upper end of the first range
            out_[:, 0] = np.maximum(out_[:, 0], lo[0] + 1e-3 * wd[0])
        return out_

    data = spread(0.25)
    stages = [("untrained", None)]
    for stage in ("untrained", "trained", "reloaded"):
        try:
            if stage == "untrained":
                # the affine stage needs a fit before it can be used: fit the data transform only, on data with another spread
                # than the training data used later (a proposal object is refitted)
                d0 = spread(0.08)
                f.fit_data_transform(xp.asarray(d0, dtype=f.dtype) if c["backend"] == "flowjax" else torch.as_tensor(d0, dtype=f.dtype))
            elif stage == "trained":
                if c["backend"] == "zuko":
                    f.fit(data, n_epochs=2)
                else:
                    f.fit(data, max_epochs=2)
            else:
                import h5py

                p = os.path.join(tmp, f"flow_{abs(hash(key)) % 10**8}.h5")
                # the proposal object is written more than once in practice (fit with a checkpoint path, then every
                # sample_posterior re-writes it): the LAST file written is the one that is reloaded
                with h5py.File(p, "w") as h:
                    f.save(h, "flow")
                with h5py.File(p, "w") as h:
                    f.save(h, "flow")
                ref = lp(f, data[:20])
                with h5py.File(p, "r") as h:
                    f2 = type(f).load(h, "flow")
                os.remove(p)
                got = lp(f2, data[:20])
                if not np.allclose(ref, got, rtol=tol * 10, atol=tol * 10):
                    chk.fail("a saved and reloaded proposal is the same density", case,
                             f"max |log_prob difference| after save/load = {np.max(np.abs(ref - got)):.3g}", {**sig, "clause": "reload"})
                f = f2
            check_stage(chk, c, f, xp, stage, data, drv, tol, sig, case)
        except Exception as e:   # noqa
            chk.fail(f"{stage} flow total", case, repr(e)[:300], {**sig, "clause": "raise", "stage": stage, "exc": type(e).__name__})
            break
    chk.case({k: c[k] for k in ("backend", "bounded", "dtype", "d", "affine")} if chk.evaluations < 6 else None, key)


def check_stage(chk, c, f, xp, stage, data, drv, tol, sig, case):
    import torch

    d = c["d"]
    lo, hi = np.asarray(c["lo"]), np.asarray(c["hi"])
    sig = {**sig, "stage": stage}
    # (1) sampling and evaluation agree; draws respect the bounds
    with torch.no_grad():
        x, lq = f.sample_and_log_prob(64)
    x, lq = ns.to_np(x).reshape(-1, d), ns.to_np(lq).reshape(-1)
    lpx = lp(f, x)
    fin = np.isfinite(lo) & np.isfinite(hi)       # one-sided and whole-line ranges are not mapped to the real line: no claim about their draws
    if c["bounded"] != "off":
        u = (x[:, fin] - lo[fin]) / (hi[fin] - lo[fin])
        # outside the documented clipping margin - and, in single precision, far enough from a bound that rounding the DRAW to float32 (one
        # ulp of a coordinate of size max|bound|, in units of the width) does not itself move the density: a narrow interval away from the
        # origin ([100, 100.5]) resolves the unit coordinate to 1.5e-5 only, and the bounded maps amplify that by 1 / min(u, 1 - u)
        margin = np.full(int(fin.sum()), 4 * EPS)
        if c["dtype"] == "float32":
            margin = np.maximum(margin, 256 * 2.0 ** -23 * np.maximum(np.abs(lo[fin]), np.abs(hi[fin])) / (hi[fin] - lo[fin]))
        interior = np.all((u > margin) & (u < 1 - margin), axis=1)
        if np.any(x[:, fin] < lo[fin]) or np.any(x[:, fin] > hi[fin]):
            chk.fail("draws respect the declared finite bounds", case, f"{int(np.sum((x[:, fin] < lo[fin]) | (x[:, fin] > hi[fin])))} coordinates outside the bounds ({stage})", {**sig, "clause": "bounds"})
        if not fin.all():
            chk.count("draws_beyond_the_finite_end_of_a_one_sided_range", int(np.sum((x[:, ~fin] < lo[~fin]) | (x[:, ~fin] > hi[~fin]))))
    else:
        interior = np.ones(len(x), bool)
    chk.count("draws", len(x))
    bad = interior & ~(np.abs(lq - lpx) <= tol * (1 + np.abs(lpx)) * 20)
    if bad.any():
        t = int(np.argmax(bad))
        chk.fail("log-density returned with the draws = log_prob at the draws", case,
                 f"{stage}: draw {t}: returned {lq[t]!r}, log_prob {lpx[t]!r}", {**sig, "clause": "agree"})
    # (1b) log_prob is a pointwise function: one call on a very large batch (a quadrature grid, a reweighting of >1e5 draws) gives the
    #      values of the same points evaluated in small calls
    if stage == "trained" and c["backend"] == "zuko":
        reps = 120_001 // len(x) + 1
        big = np.tile(x, (reps, 1))[:120_001]
        lpb = lp(f, big)
        ref = np.tile(lpx, reps)[:120_001]
        badb = ~(np.abs(lpb - ref) <= tol * (1 + np.abs(ref)) * 20)
        chk.count("large_batch_points", len(big))
        if lpb.shape != ref.shape or badb.any():
            t = int(np.argmax(badb)) if lpb.shape == ref.shape else -1
            chk.fail("log-density returned with the draws = log_prob at the draws", case,
                     f"{stage}: one log_prob call on {len(big)} points: point {t} gives {lpb[t] if t >= 0 else None!r}, the same point in a small call "
                     f"{ref[t] if t >= 0 else None!r} ({int(badb.sum()) if lpb.shape == ref.shape else 'shape'} points differ)", {**sig, "clause": "batch"})
    # (1c) log_prob is a function of the VALUES it is handed: a pre-allocated tensor that is refilled in place between calls (chunked
    #      evaluation of a grid or of a large reweighting set through one buffer) gives the values of its current contents
    if c["backend"] == "zuko" and len(x) >= 8:
        half = len(x) // 2
        buf = torch.as_tensor(np.array(x[:half]), dtype=f.dtype).clone()
        with torch.no_grad():
            first = ns.to_np(f.log_prob(buf)).copy()
            buf.copy_(torch.as_tensor(np.array(x[half:2 * half]), dtype=f.dtype))
            second = ns.to_np(f.log_prob(buf))
        ref2 = lpx[half:2 * half]
        okb = interior[half:2 * half]
        chk.count("reused_buffer_points", int(okb.sum()))
        if okb.any() and not np.all(np.abs(second - ref2)[okb] <= tol * (1 + np.abs(ref2[okb])) * 20):
            t = int(np.argmax(np.abs(second - ref2) * okb))
            chk.fail("log-density returned with the draws = log_prob at the draws", case,
                     f"{stage}: a tensor refilled in place and evaluated again: point {t} gives {second[t]!r}, the same values in a fresh tensor {ref2[t]!r} "
                     f"(first contents gave {first[t]!r})", {**sig, "clause": "buffer"})
    # (2) log_prob = base(T x) + log|J| with T and J from the model
    pts = np.vstack([data[:12], x[interior][:12]]) if interior.any() else data[:12]
    kinds = {"cls": "composite", "d": d, "lo": c["lo"], "hi": c["hi"], "bounded_kind": c["bounded"] if c["bounded"] != "off" else "logit",
             "periodic_on": False, "periodic_idx": [], "bounded_on": c["bounded"] != "off", "affine_on": c["affine"]}
    aff = None
    at = getattr(f.data_transform, "_affine_transform", None)
    if c["affine"] and at is not None and at._mean is not None:
        aff = (ns.to_np(at._mean).reshape(-1), ns.to_np(at._std).reshape(-1))
    line = " ".join(["f64", "tfm", "fwd"] + c04.cfg_wire(kinds, aff) + ["0"] + c04.rows_wire(pts))
    rep = drv.ask(line)
    if not rep.ok:
        raise core.HarnessError(rep.err)
    z = np.asarray(rep.fs()).reshape(-1, d)
    lj = np.asarray(rep.fs())
    model_lp = base_logprob(f, c, z) + lj
    impl_lp = lp(f, pts)
    chk.count("log_prob_points", len(pts))
    if not np.all(np.abs(model_lp - impl_lp) <= tol * (1 + np.abs(impl_lp)) * 50):
        t = int(np.argmax(np.abs(model_lp - impl_lp)))
        chk.disagree("flow.log_prob", {**case, "stage": stage}, float(model_lp[t]), float(impl_lp[t]), f"point {pts[t].tolist()}")
    # (3) supporting exploration (1-D, bounded): over the interior of the support (outside the documented clipping margin) the mass of
    #     exp(log_prob) equals the mass the neural base density puts on the image of that interior - change of variables, both sides by
    #     quadrature on the same grid (uniform in the logit coordinate, so that mass close to a bound is resolved) - and it is one when
    #     the base leaves (almost) nothing in the margin.  A proposal whose training went astray may put a large share of its mass INSIDE
    #     the clipping margin, where log_prob is the density of the clipped point by design: comparing with 1 there would demand more
    #     than the property states.
    if d == 1 and c["bounded"] != "off" and c["dtype"] == "float64":
        t = np.linspace(math.log(4 * EPS / (1 - 4 * EPS)), -math.log(4 * EPS / (1 - 4 * EPS)), 20001)
        grid = (lo[0] + (hi[0] - lo[0]) / (1 + np.exp(-t)))[:, None]
        dens = np.exp(lp(f, grid))
        integ = float(np.trapezoid(dens, grid[:, 0]))
        line = " ".join(["f64", "tfm", "fwd"] + c04.cfg_wire(kinds, aff) + ["0"] + c04.rows_wire(grid))
        rep = drv.ask(line)
        if not rep.ok:
            raise core.HarnessError(rep.err)
        zg = np.asarray(rep.fs()).reshape(-1)
        base_mass = float(np.trapezoid(np.exp(base_logprob(f, c, zg[:, None])), zg))
        chk.extra.setdefault("quadrature_1d", []).append({"backend": c["backend"], "bounded": c["bounded"], "stage": stage, "integral": round(integ, 5),
                                                          "base_mass_of_interior": round(base_mass, 5)})
        chk.count("quadrature:margin_mass_above_1pc" if base_mass < 0.99 else "quadrature:margin_mass_below_1pc")
        if not (abs(integ - base_mass) < 0.02) or (base_mass > 0.995 and not (0.98 < integ < 1.02)):
            chk.fail("log_prob integrates to one over the native space (supporting quadrature)", case,
                     f"{stage}: integral of exp(log_prob) over the interior of the support = {integ:.5f}, mass of the base density on its image = {base_mass:.5f}",
                     {**sig, "clause": "normalised"})


def check_through_aspire(chk, quick):
    """the proposal as `Aspire` itself builds it (`init_flow`): an analysis that declares a PERIODIC parameter with finite bounds, fitted on
    data sitting on the seam of the period (a phase posterior at 0 == 2 pi), next to an ordinary bounded parameter - the density returned with
    the draws is `log_prob` at the draws, and the draws respect the bounds"""
    import torch

    from aspire import Aspire
    from aspire.samples import Samples

    for backend in (("zuko",) if quick else ("zuko", "flowjax")):
        case = {"level": "through_aspire", "backend": backend, "periodic": ["phase"]}
        chk.count("through_aspire")
        chk.case(None, json.dumps(case))
        try:
            if backend == "flowjax":
                ns.enable_x64()
            a = Aspire(log_likelihood=lambda s: 0.0, log_prior=lambda s: 0.0, dims=2, parameters=["phase", "amp"],
                       prior_bounds={"phase": [0.0, 2 * math.pi], "amp": [-1.0, 3.0]}, periodic_parameters=["phase"], flow_backend=backend,
                       dtype="float64", **({"seed": 5} if backend == "zuko" else {}))
            r = np.random.default_rng(12)
            ph = np.mod(r.normal(0.0, 0.35, 400), 2 * math.pi)          # half of the mass just above 0, half just below 2 pi
            data = np.stack([ph, r.normal(1.0, 0.4, 400).clip(-0.9, 2.9)], axis=1)
            a.fit(Samples(x=data, parameters=["phase", "amp"]), **({"n_epochs": 3} if backend == "zuko" else {"max_epochs": 3}))
            f = a.flow
            with torch.no_grad():
                x, lq = f.sample_and_log_prob(256)
                x, lq = ns.to_np(x).reshape(-1, 2), ns.to_np(lq).reshape(-1)
                lpx = ns.to_np(f.log_prob(f.xp.asarray(x) if backend == "flowjax" else torch.as_tensor(x, dtype=torch.float64)))
            lo, hi = np.array([0.0, -1.0]), np.array([2 * math.pi, 3.0])
            u = (x - lo) / (hi - lo)
            interior = np.all((u > 4 * EPS) & (u < 1 - 4 * EPS), axis=1)
            if np.any(x < lo) or np.any(x > hi):
                chk.fail("draws respect the declared finite bounds", case, f"{int(np.sum((x < lo) | (x > hi)))} coordinates outside the bounds", {"backend": backend, "clause": "bounds", "level": "through_aspire"})
            bad = interior & ~(np.abs(lq - lpx) <= 1e-7 * (1 + np.abs(lpx)))
            if bad.any():
                t = int(np.argmax(bad))
                chk.fail("log-density returned with the draws = log_prob at the draws", case,
                         f"proposal built by Aspire.init_flow with a periodic parameter: draw {t} at {x[t].tolist()} returned {lq[t]!r}, log_prob {lpx[t]!r} ({int(bad.sum())} of {len(bad)} draws differ)",
                         {"backend": backend, "clause": "agree", "level": "through_aspire"})
            chk.count("through_aspire_draws_near_the_seam", int(np.sum((x[:, 0] < 0.3) | (x[:, 0] > 2 * math.pi - 0.3))))
        except Exception as e:   # noqa
            chk.fail("flow construction", case, repr(e)[:300], {"backend": backend, "clause": "raise", "level": "through_aspire"})


def check_flow_matching(chk):
    """the continuous (flow-matching) proposal of the zuko back-end in FIVE dimensions, built through `Aspire(flow_matching=True)`: the density
    returned with the draws is `log_prob` at the draws (to the accuracy of the ODE solver), and `log_prob` is a function of the point - two
    evaluations of the same points agree"""
    import torch

    from aspire import Aspire
    from aspire.samples import Samples

    torch.set_num_threads(max(1, torch.get_num_threads()))
    d = 5
    case = {"level": "flow_matching", "backend": "zuko", "dims": d}
    chk.count("flow_matching")
    chk.case(None, json.dumps(case))
    try:
        names = [f"p{i}" for i in range(d)]
        a = Aspire(log_likelihood=lambda s: 0.0, log_prior=lambda s: 0.0, dims=d, parameters=names, prior_bounds={n_: [-5.0, 5.0] for n_ in names},
                   flow_backend="zuko", flow_matching=True, dtype="float64", seed=3)
        r = np.random.default_rng(21)
        a.fit(Samples(x=r.normal(0.3, 0.8, (300, d)).clip(-4.5, 4.5), parameters=names), n_epochs=2)
        f = a.flow
        with torch.no_grad():
            x, lq = f.sample_and_log_prob(48)
            x, lq = ns.to_np(x).reshape(-1, d), ns.to_np(lq).reshape(-1)
            xt = torch.as_tensor(x, dtype=torch.float64)
            l1, l2 = ns.to_np(f.log_prob(xt)), ns.to_np(f.log_prob(xt))
        tolv = 2e-2 * (1 + np.abs(l1))
        if not np.all(np.abs(l1 - l2) <= 1e-6 * (1 + np.abs(l1))):
            t = int(np.argmax(np.abs(l1 - l2)))
            chk.fail("log-density returned with the draws = log_prob at the draws", case,
                     f"log_prob is not a function of the point: two evaluations of point {t} give {l1[t]!r} and {l2[t]!r}", {"backend": "zuko", "clause": "agree", "level": "flow_matching", "repeat": True})
        elif not np.all(np.abs(lq - l1) <= tolv):
            t = int(np.argmax(np.abs(lq - l1) - tolv))
            chk.fail("log-density returned with the draws = log_prob at the draws", case,
                     f"5-d flow matching: draw {t} returned {lq[t]!r}, log_prob {l1[t]!r} (max deviation {np.max(np.abs(lq - l1)):.3g})", {"backend": "zuko", "clause": "agree", "level": "flow_matching"})
        chk.extra["flow_matching_max_dev"] = float(np.max(np.abs(lq - l1)))
    except Exception as e:   # noqa
        chk.fail("flow construction", case, repr(e)[:300], {"backend": "zuko", "clause": "raise", "level": "flow_matching"})


def run(chk: core.Check):
    r = np.random.default_rng(chk.seed + 3003)
    quick = chk.tier == "quick"
    chk.rule = ("flow back-end (zuko, flowjax) x bounded transform (logit, probit, off) x dtype x dims 1-2 x affine on/off, each untrained, trained 2 epochs "
                "and saved+reloaded; per stage 64 draws and 12-24 evaluation points; every configuration counts as non-trivial")
    chk.trusted += ["zuko / flowjax networks are normalised densities with exact bijections (hypothesis of the theorems; the 1-D quadrature is supporting exploration only)",
                    "the neural base density is read from the real network at the model's image of the point"]
    tmp = tempfile.mkdtemp(prefix="aspire_verif_")
    drv = core.LeanDriver()
    try:
        n = 8 if quick else 48
        # always-run regime cases: an unbounded parameter whose natural scale is tiny (amplitude ~ 1e-7 in float32) or huge
        INF = math.inf
        corpus = [{"backend": "zuko", "bounded": "off", "dtype": "float32", "d": 2, "lo": [0.0, -2.0], "hi": [2e-6, 3.0], "affine": True, "seed": 5, "train": True},
                  # an interval that is narrow relative to its offset (a GPS-time-like parameter) next to an ordinary one
                  {"backend": "zuko", "bounded": "logit", "dtype": "float64", "d": 2, "lo": [1000.0, -1.0], "hi": [1000.5, 3.0], "affine": True, "seed": 7, "train": True},
                  # a one-sided range (a scale parameter on [0, inf)) next to a bounded parameter: the one-sided parameter is not mapped, draws
                  # beyond its finite end are returned as drawn, with the density of the point that is returned
                  {"backend": "zuko", "bounded": "probit", "dtype": "float64", "d": 2, "lo": [0.0, -2.0], "hi": [INF, 3.0], "affine": True, "seed": 8, "train": True},
                  {"backend": "flowjax", "bounded": "logit", "dtype": "float64", "d": 2, "lo": [-INF, 10.0], "hi": [4.0, 10.5], "affine": False, "seed": 9, "train": True},
                  # a range that ENDS exactly at zero (a negative-definite parameter): 0 is a bound like any other
                  {"backend": "zuko", "bounded": "logit", "dtype": "float64", "d": 2, "lo": [-4.0, -2.0], "hi": [0.0, 3.0], "affine": True, "seed": 11, "train": True, "pile_upper": True},
                  {"backend": "flowjax", "bounded": "probit", "dtype": "float64", "d": 2, "lo": [-1.0, 5000.0], "hi": [3.0, 5001.0], "affine": False, "seed": 10, "train": True},
                  {"backend": "zuko", "bounded": "off", "dtype": "float64", "d": 1, "lo": [0.0], "hi": [1e-14], "affine": True, "seed": 6, "train": True}]
        for c in (corpus[:6] if quick else corpus):
            check_flow(chk, c, tmp, drv)
        for i in range(n):
            check_flow(chk, gen_case(r, i), tmp, drv)
        check_through_aspire(chk, quick)
        check_flow_matching(chk)
    finally:
        shutil.rmtree(tmp, ignore_errors=True)

    def search():
        return None

    return search


def replay(chk: core.Check, path: str) -> int:
    doc = json.loads(open(path).read())
    p = doc["payload"]
    cases = [p["case"]] if "case" in p else [d["case"] for d in p.get("correspondence", [])]
    tmp = tempfile.mkdtemp(prefix="aspire_verif_")
    drv = core.LeanDriver()
    try:
        for c in cases:
            if c.get("level") == "through_aspire":
                check_through_aspire(chk, False)
                continue
            if c.get("level") == "flow_matching":
                check_flow_matching(chk)
                continue
            c = {k: c[k] for k in ("backend", "bounded", "dtype", "d", "lo", "hi", "affine", "seed", "train", "pile_upper") if k in c}
            check_flow(chk, c, tmp, drv)
    finally:
        shutil.rmtree(tmp, ignore_errors=True)
    for f in chk.failures[:10]:
        print("FAIL", f["clause"], f["detail"])
    print(f"replayed {len(cases)} case(s): {len(chk.failures)} oracle failure(s), {len(chk.disagreements)} disagreement(s)")
    return 1 if (chk.failures or chk.disagreements) else 0
