"""C06 — the SMC temperature schedule strictly increases, ends exactly at 1, terminates.

unit level : SMCSampler.determine_beta on generated populations x schedule options  vs  the Lean
             model (Model/Schedule.lean, op `beta`), plus the property's clauses on the result.
run level  : real MiniPCNSMC / EmceeSMC runs with the kernel doubles: history.beta strictly
             increasing in (0,1], last = 1 or cap, fixed n => exactly n iterations, no exception,
             no spin (watchdog); the loop model (Model/Smc.lean, op `smcloop`) replays every run
             from the recorded populations and must reproduce the schedule.
"""
from __future__ import annotations

import json
import math

import numpy as np

from .. import core, ns, smcrun
from ..core import fh, fl

TOL = 1e-6


# ----------------------------------------------------------------------------- unit level
def gen_population(r, n, kind):
    if kind == "moderate":
        lw = r.normal(0, r.choice([0.3, 2, 10]), n)
    elif kind == "peaked":
        lw = r.normal(0, 10 ** r.uniform(2, 12), n)
    elif kind == "flat":
        lw = r.normal(0, 10 ** r.uniform(-6, -3), n)
    elif kind == "ties":
        lw = r.choice(r.normal(0, 5, max(1, n // 3)), n)
    elif kind == "dominant":
        lw = r.normal(0, 1, n)
        lw[r.integers(n)] += 10 ** r.uniform(1, 6)
    else:
        raise ValueError(kind)
    lq = r.normal(0, 1, n)
    lp = r.normal(0, 1, n)
    ll = lw + lq - lp
    if r.random() < 0.35:      # large common offset of the log-likelihood (unnormalised likelihoods)
        ll = ll + r.choice([-1.0, 1.0]) * 10 ** r.uniform(2.5, 5)
    return ll, lp, lq


def gen_unit(r, i, tier):
    kind = ["moderate", "moderate", "peaked", "flat", "ties", "dominant"][i % 6]
    n = int(r.choice([2, 5, 16, 50]))
    ll, lp, lq = gen_population(r, n, kind)
    adaptive = bool(r.random() < 0.8)
    mode = str(r.choice(["plain", "min_step", "max_n_steps", "both"])) if adaptive else "fixed"
    beta = float(r.choice([0.0, 0.0, r.uniform(0, 0.95), 1 - 10 ** r.uniform(-8, -1)]))
    c = {"kind": kind, "n": n, "ll": ll.tolist(), "lp": lp.tolist(), "lq": lq.tolist(), "adaptive": adaptive,
         "mode": mode, "beta": beta, "tol": float(r.choice([1e-6, 1e-6, 1e-3, 1e-9, 1e-11])),
         "target": float(r.choice([0.5, 0.1, 0.9, 0.99])), "ramp": bool(r.random() < 0.25),
         "rate": float(r.choice([1.0, 1.0, 0.5, 2.0])), "n_steps": int(r.integers(1, 201)),
         "min_step": float(r.choice([0.01, 0.1, 0.3, 1e-4])), "max_n_steps": int(r.integers(1, 30))}
    if c["ramp"]:
        lo = float(r.uniform(0.05, 0.6))
        c["target_hi"] = float(r.uniform(lo + 0.05, 0.98))
        c["target"] = lo
    if not adaptive:
        k = int(r.integers(0, c["n_steps"]))
        c["beta"] = k / c["n_steps"]                     # a reachable fixed-schedule temperature
        if i % 5 == 3:
            # ... or a temperature OFF the grid (an adaptive run's checkpoint continued with a fixed schedule), also one within half a
            # grid step of 1: the next temperature is the next grid point above it, and never above 1
            n_ = c["n_steps"]
            c["beta"] = float(r.choice([r.uniform(0, 1), 1 - r.uniform(0, 0.5) / n_, 1 - 1e-9, (k + 0.5) / n_ if k + 0.5 < n_ else 0.5]))
            c["off_grid"] = True
    return c


def unit_sampler(c):
    from aspire.samplers.smc.minipcn import MiniPCNSMC

    s = MiniPCNSMC(log_likelihood=None, log_prior=None, dims=1, prior_flow=None, xp=ns.get_xp("numpy"), dtype=None)
    s.adaptive = c["adaptive"]
    s.adaptive_min_step = c["mode"] == "max_n_steps"
    s.target_efficiency = (c["target"], c["target_hi"]) if c["ramp"] else c["target"]
    s.target_efficiency_rate = c["rate"]
    return s


def unit_args(c):
    step = 1 / c["n_steps"] if not c["adaptive"] else float("nan")
    if c["mode"] in ("min_step", "both"):
        ms = c["min_step"]
    elif c["mode"] == "max_n_steps":
        ms = 1 / c["max_n_steps"]
    else:
        ms = 0.0
    return step, ms


def unit_line(c, pinned=False):
    step, ms = unit_args(c)
    hi = c.get("target_hi", c["target"])
    cfg = " ".join(["1" if c["adaptive"] else "0", "1" if c["mode"] == "max_n_steps" else "0", fh(c["tol"]),
                    fh(c["target"]), fh(hi), "1" if c["ramp"] else "0", fh(c["rate"])])
    op = "beta_pinned" if pinned else "beta"
    return f"f64 {op} {cfg} {fh(c['beta'])} {fh(step)} {fh(ms)} {fl(c['ll'])} {fl(c['lp'])} {fl(c['lq'])}"


def run_unit_impl(c):
    from aspire.samples import SMCSamples
    from aspire.utils import effective_sample_size

    s = unit_sampler(c)
    n = c["n"]
    first = np.asarray(c["ll"]) + (np.arange(n) % 3 - 1.0) * 2.5 if c.get("touch") else np.asarray(c["ll"])
    pop = SMCSamples(x=np.zeros((n, 1)), log_likelihood=first, log_prior=np.asarray(c["lp"]),
                     log_q=np.asarray(c["lq"]), beta=c["beta"])
    if c.get("touch"):
        # the library's own idiom (initial draw, mutate): build the population, look at it, THEN assign the log-likelihood column - the
        # temperature search uses the values present when it runs
        with np.errstate(all="ignore"):
            pop.log_weights(1.0)
        pop.log_likelihood = pop.array_to_namespace(np.asarray(c["ll"]))
    step, ms = unit_args(c)
    out = {}
    with np.errstate(all="ignore"):
        try:
            b, m = s.determine_beta(pop, c["beta"], step, ms, beta_tolerance=c["tol"])
            out["beta"], out["min_step"] = float(b), float(m)
            tgt = float(s.current_target_efficiency(c["beta"]))
            lw_all = np.asarray(c["ll"]) + np.asarray(c["lp"]) - np.asarray(c["lq"])

            def eff(t):     # independent, shift-stable ESS fraction of the incremental weights
                a = (t - c["beta"]) * lw_all
                u = np.exp(a - np.max(a))
                return math.fsum(u) ** 2 / math.fsum(u * u) / n
            out["target"] = tgt
            out["eff"] = eff(out["beta"])
            out["eff_next"] = eff(min(out["beta"] + 2 * c["tol"], 1.0))
            out["eff_one"] = eff(1.0)
        except ZeroDivisionError:
            out["exc"] = "zerodiv"
        except Exception as e:   # noqa
            out["exc"] = type(e).__name__ + ": " + str(e)[:80]
    return out


def check_units(chk, cases, c07=False):
    drv = core.LeanDriver()
    impl = [run_unit_impl(c) for c in cases]
    reps = drv.batch([unit_line(c) for c in cases])
    for c, o, rep in zip(cases, impl, reps):
        if not rep.ok:
            raise core.HarnessError(rep.err)
        st = rep.tok()
        chk.count(f"unit:{c['mode']}")
        chk.count(f"pop:{c['kind']}")
        key = json.dumps([c["mode"], c["ll"][:6], c["beta"], c["tol"], c["target"], c["n_steps"]])
        chk.case({"level": "determine_beta", **{k: c[k] for k in ("kind", "n", "mode", "beta", "tol", "target", "ramp")}}
                 if chk.evaluations < 12 else None, key)
        case = {"level": "unit", **c}
        if st == "zerodiv":
            mb = None
            if o.get("exc") != "zerodiv":
                chk.disagree("determine_beta.exception", case, "zerodiv", o)
        else:
            mb, mm = rep.f(), rep.f()
            mt, me, me2 = rep.f(), rep.tok(), rep.tok()
            if "exc" in o:
                chk.disagree("determine_beta.exception", case, mb, o["exc"])
            else:
                btol = 0.0 if not c["adaptive"] else 2.5 * c["tol"]
                if not core.close(mb, o["beta"], 1e-15, btol):
                    pop = {k: np.asarray(c[k]) for k in ("ll", "lp", "lq")}
                    if c["adaptive"] and abs(ref_eff(pop, c["beta"], mb) - o["target"]) < 1e-7 and abs(o["eff"] - o["target"]) < 1e-7:
                        chk.knife_edge += 1
                    else:
                        chk.disagree("determine_beta.beta", case, mb, o["beta"])
                elif c["adaptive"] and c["mode"] == "max_n_steps" and not core.close(mm, o["min_step"], 1e-6, 1e-12):
                    # the rescaled floor is sensitive to beta* only when beta* is within tol of 1
                    if abs(1 - mb) > 100 * c["tol"]:
                        chk.disagree("determine_beta.min_step", case, mm, o["min_step"])
                if not core.close(mt, o["target"], 1e-12):
                    chk.disagree("current_target_efficiency", case, mt, o["target"])
        # ---- the property's clauses on the implementation's answer
        sig = {"level": "unit", "mode": c["mode"], "adaptive": c["adaptive"]}
        if "exc" in o:
            chk.fail("no valid option combination raises", case, f"determine_beta raised {o['exc']}", {**sig, "exc": o["exc"]})
            continue
        b = o["beta"]
        if c["beta"] < 1.0 and not (b > c["beta"]):
            chk.fail("strictly increasing", case, f"beta {c['beta']!r} -> {b!r}", {**sig, "clause": "no_progress"})
        if not (0.0 < b <= 1.0):
            chk.fail("within (0,1]", case, f"beta' = {b!r}", {**sig, "clause": "range"})
        if c["mode"] in ("min_step", "both", "max_n_steps"):
            floor = min(1.0, c["beta"] + o["min_step"])
            if b < floor - 1e-15:
                chk.fail("minimum step honoured", case, f"beta' {b!r} < {floor!r}", {**sig, "clause": "floor"})
        if c07 and c["adaptive"]:
            check_c07(chk, c, o, case)


def check_c07(chk, c, o, case):
    """C07 clauses on one determine_beta answer"""
    b, tgt = o["beta"], o["target"]
    floor_forced = c["mode"] != "plain" and b <= min(1.0, c["beta"] + o["min_step"]) + 1e-15
    unresolved = b <= c["beta"] + c["tol"] * (1 + 1e-9)         # smallest resolvable step (bisection could not move)
    sig = {"level": "unit", "mode": c["mode"]}
    margin = 1e-9
    if o["eff_one"] >= tgt + margin:
        if b != 1.0:
            chk.fail("full step taken when it meets the target", case, f"eff(1)={o['eff_one']} >= {tgt} but beta'={b!r}", {**sig, "clause": "full_step"})
        return
    if floor_forced or unresolved:
        chk.count("c07:floor_or_unresolved")
        return
    chk.count("c07:ess_limited")
    if o["eff"] < tgt - margin:
        chk.fail("ESS at the new temperature meets the target", case, f"eff({b!r})={o['eff']} < target {tgt}", {**sig, "clause": "meets"})
    if b < 1.0 and o["eff_next"] >= tgt + margin and b + 2 * c["tol"] < 1.0:
        chk.fail("step is maximal within the tolerance", case, f"eff({b}+2tol)={o['eff_next']} still >= target {tgt}", {**sig, "clause": "maximal"})


# ----------------------------------------------------------------------------- run level
def gen_run(r, i, tier):
    mode = ["adaptive", "fixed", "min_step", "max_n_steps", "ramp", "fixed", "peaked", "adaptive"][i % 8]
    cfg = {"seed": int(r.integers(1, 10_000)), "n_samples": int(r.choice([12, 20, 32])), "dims": int(r.choice([1, 2, 3])),
           "like_width": float(r.choice([0.3, 0.6, 1.5])), "kernel_steps": 2,
           "sampler": "minipcn_smc" if r.random() < 0.8 else "emcee_smc"}
    if mode == "fixed":
        cfg.update(adaptive=False, n_steps=int(r.choice([1, 2, 3, 5, 7, 10, 13, 20])))
    elif mode == "min_step" and cfg["sampler"] == "minipcn_smc":
        cfg.update(min_step=float(r.choice([0.05, 0.1, 0.2, 0.34, 1 / 3, 0.7])))
        if r.random() < 0.5:
            # the floor binds at EVERY step (ESS-limited step far smaller than the floor): the temperatures are k * min_step as
            # accumulated in floating point (ten additions of 0.1 give 0.9999999999999999, not 1)
            cfg.update(target_efficiency=0.95, dims=3, like_width=0.05)
    elif mode == "max_n_steps" and cfg["sampler"] == "minipcn_smc":
        cfg.update(max_n_steps=int(r.integers(1, 8)))
        if r.random() < 0.4:
            cfg.update(min_step=float(r.choice([1e-3, 0.01, 0.05, 0.2])))       # both options given
    elif mode == "ramp":
        cfg.update(target_efficiency=(0.2, 0.8), target_efficiency_rate=float(r.choice([1.0, 2.0])))
    elif mode == "peaked":
        cfg.update(like_width=float(10 ** r.uniform(-5, -2)), n_samples=12)
    # option combinations, not only single options: a ramped target and a very peaked likelihood go with every schedule mode
    # (forced steps with a collapsed ESS, low-efficiency iterations under a ramp, ...)
    if mode != "ramp" and r.random() < 0.4:
        cfg.update(target_efficiency=(float(r.choice([0.1, 0.2, 0.4])), float(r.choice([0.6, 0.8, 0.95]))),
                   target_efficiency_rate=float(r.choice([0.25, 1.0, 2.0, 3.0])))
        cfg["ramp_too"] = True
    if mode not in ("peaked",) and r.random() < 0.25:
        cfg.update(like_width=float(10 ** r.uniform(-4, -1.5)))
        cfg["peaked_too"] = True
    if r.random() < 0.3:
        cfg["n_final_samples"] = int(cfg["n_samples"] * r.choice([0.5, 2]))
    cfg["mode"] = mode
    return cfg


def corpus_runs():
    """always-run schedules whose every step is decided by the minimum-step floor: the temperatures are the floating-point
    partial sums k * min_step (0.1 ten times = 0.9999999999999999), then one more step to exactly 1"""
    out = []
    for j, ms in enumerate((0.1, 0.05, 1 / 3, 0.2, 0.7, 0.15, 0.3)):
        out.append({"seed": 100 + j, "n_samples": 12, "dims": 3, "like_width": 0.05, "kernel_steps": 1, "sampler": "minipcn_smc",
                    "min_step": ms, "target_efficiency": 0.95, "mode": "floor_bound"})
    # a likelihood that is ZERO on part of the prior volume (a hard constraint): the initial population holds particles with
    # log L = -inf, i.e. zero weight at every temperature - a valid input for every schedule option
    for j, extra in enumerate(({}, {"adaptive": False, "n_steps": 4}, {"min_step": 0.2}, {"max_n_steps": 3},
                               {"target_efficiency": (0.2, 0.8), "target_efficiency_rate": 2.0})):
        out.append({"seed": 200 + j, "n_samples": 20, "dims": 2, "like_width": 0.6, "kernel_steps": 2, "sampler": "minipcn_smc",
                    "like_cut": 0.4, "mode": "hard_cut", **extra})
    # BOTH an explicit minimum step and a step cap, with min_step * max_n_steps < 1 and a population that is still ESS-limited when the
    # cap is reached: the run stops at the cap (below temperature 1), every step still at least the minimum step
    # a FIXED schedule given a minimum step as well (an option of the adaptive schedule): still exactly n iterations on the k/n grid
    for j, (n_, ms) in enumerate(((10, 0.25), (16, 0.1), (4, 0.3), (7, 0.5))):
        out.append({"seed": 350 + j, "n_samples": 12, "dims": 2, "like_width": 0.4, "kernel_steps": 1, "sampler": "minipcn_smc",
                    "adaptive": False, "n_steps": n_, "min_step": ms, "mode": "fixed_with_floor"})
    for j, (ms, cap) in enumerate(((0.01, 2), (0.05, 3), (1e-3, 1), (0.1, 4), (0.02, 5))):
        out.append({"seed": 300 + j, "n_samples": 12, "dims": 3, "like_width": 0.05, "kernel_steps": 1, "sampler": "minipcn_smc",
                    "min_step": ms, "max_n_steps": cap, "target_efficiency": 0.95, "mode": "floor_and_cap"})
    return out


def loop_line(cfg, rec, rng, cut=-1, resume=False, every=None):
    """`smcloop` request replaying a recorded run"""
    full = {**smcrun.DEFAULT, **cfg}
    pops = rec["pops"]
    steps = []
    choices = rng.choices
    n_iter = len(rec["beta"])
    for t in range(n_iter):
        idx = choices[t]["idx"] if t < len(choices) else np.arange(len(pops[t]["ll"]))
        steps.append(" ".join([str(len(idx))] + [str(int(v)) for v in idx]) + " " + smcrun.pop_wire(pops[t + 1]))
    if rec.get("final_pop") is not None:
        idx = choices[n_iter]["idx"] if n_iter < len(choices) else []
        steps.append(" ".join([str(len(idx))] + [str(int(v)) for v in idx]) + " " + smcrun.pop_wire(rec["final_pop"], beta=1.0))
    opt = lambda v: "-1" if v is None else str(int(v))
    head = ["f64", "smcloop", smcrun.beta_cfg_wire(cfg, TOL), fh(smcrun.beta_step(cfg)), fh(smcrun.min_step0(cfg)),
            opt(every), opt(full["max_n_steps"]), opt(full["n_final_samples"]), "1", str(cut), "1" if resume else "0",
            smcrun.pop_wire(pops[0], beta=0.0), str(len(steps))]
    return " ".join(head + steps)


def parse_loop(rep: core.Reply) -> dict:
    st = rep.tok()
    out = {"status": st}
    if st in ("resumed", "resumed-fresh", "not-interrupted"):
        out["resume_kind"] = st
        st = rep.tok()
        out["status"] = st
    if st == "done":
        out["logZ"], out["logZerr"] = rep.f(), rep.f()
        out["n_final"], out["iter"] = rep.n(), rep.n()
        for k in ("beta", "ess", "ess_target", "eff_target", "ratio", "var"):
            out[k] = rep.fs()
        out["npops"] = rep.n()
    if st in ("done", "interrupted"):
        nck = rep.n()
        out["ckpts"] = []
        for _ in range(nck):
            out["ckpts"].append({"iter": rep.n(), "beta": rep.f(), "nbeta": rep.n(), "npops": rep.n(),
                                 "consumed": rep.n(), "size": rep.n(), "min_step": rep.f()})
    return out


def record_run(res) -> dict:
    rec = smcrun.history_record(res["sampler"].history)
    full = {**smcrun.DEFAULT, **res["cfg"]}
    rec["final_pop"] = None
    if res["status"] == "done":
        s = res["samples"]
        rec["final"] = {"x": ns.to_np(s.x), "ll": ns.to_np(s.log_likelihood), "lp": ns.to_np(s.log_prior),
                        "logZ": float(s.log_evidence), "logZerr": float(s.log_evidence_error)}
        nf = full["n_final_samples"]
        if nf is not None and nf != full["n_samples"]:
            lq = ns.to_np(res["flow"].log_prob(s.x))
            rec["final_pop"] = {"x": rec["final"]["x"], "ll": rec["final"]["ll"], "lp": rec["final"]["lp"], "lq": lq, "beta": 1.0}
    return rec


def check_runs(chk, cfgs):
    drv = core.LeanDriver()
    lines, keep = [], []
    SCHEDULE_KEYS = ("adaptive", "n_steps", "min_step", "max_n_steps", "target_efficiency", "target_efficiency_rate", "n_final_samples")
    queue = [(dict(c), None) for c in cfgs]
    done = 0
    while queue:
        cfg, reuse = queue.pop(0)
        mode = cfg.pop("mode", "adaptive")
        res = smcrun.run_smc(cfg, watchdog_iters=250, reuse=reuse)
        done += 1
        if reuse is None and res["status"] == "done" and done % 3 == 0 and queue and cfg.get("sampler", "minipcn_smc") == "minipcn_smc":
            # the same sampler object serves a second run with OTHER schedule options (those of the next configuration)
            nxt = queue[0][0]
            cfg2 = {k: v for k, v in cfg.items() if k not in SCHEDULE_KEYS}
            cfg2.update({k: nxt[k] for k in SCHEDULE_KEYS if k in nxt})
            cfg2.update(seed=int(cfg["seed"]) + 7, mode="reused:" + str(nxt.get("mode", "adaptive")))
            queue.insert(0, (cfg2, res))
        if reuse is not None:
            chk.count("run:second_run_on_the_same_sampler_object")
        full = res["cfg"]
        h = res["sampler"].history
        chk.count(f"run:{mode}")
        chk.count(f"sampler:{full['sampler']}")
        betas = [float(b) for b in h.beta] if h is not None else []
        key = json.dumps([cfg, betas[:4]])
        chk.case({"level": "run", "cfg": cfg, "status": res["status"], "beta": betas[:12]} if chk.evaluations < 40 else None,
                 key if len(betas) >= 1 else None)
        case = {"level": "run", "cfg": {**cfg, "mode": mode}}
        sig = {"level": "run", "mode": mode, "adaptive": full["adaptive"], "n_steps": full["n_steps"]}
        if res["status"] == "timeout" and all(b2 > b1 for b1, b2 in zip([0.0] + betas, betas)) and betas:
            # slow but every step advanced by a positive amount: terminates within 1/tolerance iterations
            chk.count("run:watchdog_but_progressing")
            continue
        if res["status"] == "timeout":
            chk.fail("terminates", case, f"still running after {res['kernel_calls']['n']} iterations, beta history {betas[:5]}...",
                     {**sig, "clause": "spin", "beta0": betas[0] if betas else None})
            continue
        if smcrun.collapsed_population(res):
            chk.count("skipped:population_collapsed_rejected_by_library")
            continue
        if res["status"] != "done":
            chk.fail("no valid option combination raises", case, f"sample raised {res['exc']!r}",
                     {**sig, "clause": "raise", "exc": type(res["exc"]).__name__})
            continue
        if any(b2 <= b1 for b1, b2 in zip([0.0] + betas, betas)):
            chk.fail("strictly increasing", case, f"beta history {betas}", {**sig, "clause": "monotone"})
        if any(not (0.0 < b <= 1.0) for b in betas):
            chk.fail("within (0,1]", case, f"beta history {betas}", {**sig, "clause": "range"})
        cap = full["max_n_steps"]
        if betas[-1] != 1.0 and not (cap is not None and len(betas) >= cap):
            chk.fail("ends exactly at 1", case, f"last beta {betas[-1]!r}", {**sig, "clause": "end"})
        if cap is not None and len(betas) > cap:
            chk.fail("step cap honoured", case, f"{len(betas)} iterations > max_n_steps {cap}", {**sig, "clause": "cap"})
        if not full["adaptive"] and len(betas) != full["n_steps"]:
            chk.fail("fixed schedule of n steps performs exactly n iterations", case,
                     f"n_steps={full['n_steps']} but {len(betas)} iterations", {**sig, "clause": "fixed_count"})
        if full["min_step"] is not None and full["adaptive"]:      # (a fixed schedule ignores the floor by design: it is an option of the adaptive one)
            for b1, b2 in zip([0.0] + betas, betas):
                if b2 < min(1.0, b1 + full["min_step"]) - 1e-15:
                    chk.fail("minimum step honoured", case, f"{b1} -> {b2}", {**sig, "clause": "floor"})
        rec = record_run(res)
        if full["ns"] == "numpy" and full["width"] == "f64":
            lines.append(loop_line(cfg, rec, res["rng"]))
            keep.append((case, rec, betas))
        # the same run interrupted inside a later iteration and resumed from the checkpoint DICTIONARY the callback was handed
        # (it is still referenced by the sampler while the run goes on): the resumed schedule obeys the same clauses
        if reuse is None and full["sampler"] in ("minipcn_smc", "smc") and done % 4 == 1 and len(betas) >= 2:
            k = max(2, (2 * res["target"].n_like) // 3)
            r1 = smcrun.run_smc({**cfg, "checkpoint_every": 1}, fault_at=k, record_checkpoints=True, watchdog_iters=250)
            if r1["status"] == "fault" and r1["ckpts"]:
                r2 = smcrun.resume_smc({**cfg, "checkpoint_every": 1}, r1["ckpts"][-1]["state"], watchdog_iters=250)
                chk.count("run:resumed_from_live_checkpoint_dictionary")
                case2 = {"level": "run", "cfg": {**cfg, "mode": mode}, "fault_at_likelihood_call": k, "resumed_from": "live checkpoint dictionary"}
                if r2["status"] != "done":
                    if not smcrun.collapsed_population(r2):
                        chk.fail("no valid option combination raises", case2, f"resumed run: {r2.get('exc')!r}", {**sig, "clause": "raise", "resumed": True})
                else:
                    b2 = [float(b) for b in r2["sampler"].history.beta]
                    if any(y <= x for x, y in zip([0.0] + b2, b2)):
                        chk.fail("strictly increasing", case2, f"beta history of the resumed run {b2}", {**sig, "clause": "monotone", "resumed": True})
                    if any(not (0.0 < b <= 1.0) for b in b2):
                        chk.fail("within (0,1]", case2, f"beta history of the resumed run {b2}", {**sig, "clause": "range", "resumed": True})
                    pop_beta = getattr(r2["sampler"].history.sample_history[-1], "beta", None) if r2["sampler"].history.sample_history else None
                    if (b2 and b2[-1] != 1.0 or (pop_beta is not None and float(pop_beta) != 1.0)) and not (cap is not None and len(b2) >= cap):
                        chk.fail("ends exactly at 1", case2, f"resumed run: last beta {b2[-1] if b2 else None!r}, final population at temperature {pop_beta!r}",
                                 {**sig, "clause": "end", "resumed": True})
    reps = drv.batch(lines)
    for (case, rec, betas), rep in zip(keep, reps):
        if not rep.ok:
            raise core.HarnessError(rep.err)
        m = parse_loop(rep)
        if m["status"] != "done":
            chk.disagree("smcloop.status", case, m["status"], "done")
            continue
        if len(m["beta"]) != len(betas) or not core.all_close(m["beta"], betas, 1e-15, 3 * TOL):
            if knife_edge_run(case, rec, m["beta"], betas):
                chk.knife_edge += 1
            else:
                chk.disagree("smcloop.beta", case, m["beta"], betas)


def check_reuse_after_resume(chk, quick):
    """ONE sampler object first continues a checkpoint (of a run with or without a step floor) and is then used for a fresh run with OTHER
    schedule options: the fresh run's schedule is the one a new object produces with those options - the floor restored from the checkpoint
    belongs to the resumed run only"""
    firsts = [{"max_n_steps": 4}, {"min_step": 0.05}, {}, {"max_n_steps": 6}]
    seconds = [{}, {"min_step": 0.3}, {"min_step": 0.45}, {"max_n_steps": 5}]
    for j in range(6 if quick else 32):
        base = {"seed": 800 + j, "n_samples": 16, "dims": 2, "like_width": float((0.2, 0.4)[j % 2]), "kernel_steps": 2, "checkpoint_every": 1}
        cfg1 = dict(base, **firsts[j % 4])
        cfg3 = dict(base, seed=base["seed"] + 50, **seconds[(j // 2) % 4])
        cfg3.pop("checkpoint_every")
        case = {"level": "reuse_after_resume", "first_run_then_resumed": cfg1, "fresh_run_on_the_same_object": cfg3}
        chk.count("reuse_after_resume")
        chk.case(None, json.dumps(case))
        r1 = smcrun.run_smc(cfg1, record_checkpoints=True, watchdog_iters=250)
        if r1["status"] != "done" or len(r1["ckpts"]) < 2:
            continue
        r2 = smcrun.resume_smc(cfg1, r1["ckpts"][min(1, len(r1["ckpts"]) - 2)]["bytes"], watchdog_iters=250)
        if r2["status"] != "done":
            continue
        r3 = smcrun.run_smc(cfg3, reuse=r2, watchdog_iters=250)
        ref = smcrun.run_smc(cfg3, watchdog_iters=250)
        sig = {"level": "run", "mode": "reuse_after_resume"}
        if ref["status"] != "done":
            continue
        if r3["status"] != "done":
            chk.fail("no valid option combination raises", case, f"fresh run on an object that had resumed a checkpoint: {r3.get('exc')!r}", {**sig, "clause": "raise"})
            continue
        b3, bref = [float(b) for b in r3["sampler"].history.beta], [float(b) for b in ref["sampler"].history.beta]
        ms = cfg3.get("min_step")
        if ms is not None and any(y < min(1.0, x + ms) - 1e-15 for x, y in zip([0.0] + b3, b3)):
            chk.fail("minimum step honoured", case, f"requested min_step={ms}: schedule {b3}", {**sig, "clause": "floor"})
        elif b3 != bref:
            chk.fail("minimum step honoured", case, f"schedule of the fresh run on the reused object {b3[:6]} differs from the schedule a new object produces with the same options {bref[:6]}",
                     {**sig, "clause": "floor", "reuse": True})


def check_resume_at_cap(chk, quick):
    """a run with a step cap only (adaptive minimum step) that used ALL its iterations, resumed with the same options from the checkpoint
    taken at the cap (the forced final one included): the resumed call returns, with the same schedule"""
    for j in range(4 if quick else 16):
        cfg = {"seed": 900 + j, "n_samples": 12, "dims": 3, "like_width": 0.05, "kernel_steps": 1, "target_efficiency": 0.95,
               "max_n_steps": int((2, 3, 4, 6)[j % 4]), "checkpoint_every": (1, 2)[j % 2]}
        case = {"level": "resume_at_cap", "cfg": cfg}
        chk.count("resume_at_cap")
        chk.case(None, json.dumps(case))
        r1 = smcrun.run_smc(cfg, record_checkpoints=True, watchdog_iters=250)
        if r1["status"] != "done" or not r1["ckpts"]:
            continue
        b1 = [float(b) for b in r1["sampler"].history.beta]
        for which in (-1, -2):
            if len(r1["ckpts"]) < -which:
                continue
            ck = r1["ckpts"][which]
            r2 = smcrun.resume_smc(cfg, ck["bytes"], watchdog_iters=250)
            sig = {"level": "run", "mode": "resume_at_cap"}
            c2 = dict(case, resumed_from_iteration=ck["iteration"], iterations_of_the_run=len(b1))
            if r2["status"] != "done":
                chk.fail("no valid option combination raises", c2, f"resumed from the checkpoint of iteration {ck['iteration']} (cap {cfg['max_n_steps']}): {r2.get('exc')!r}",
                         {**sig, "clause": "raise", "exc": type(r2.get("exc")).__name__})
                continue
            b2 = [float(b) for b in r2["sampler"].history.beta]
            if b2 != b1:
                chk.fail("step cap honoured", c2, f"schedule after the resume {b2} differs from the run's {b1}", {**sig, "clause": "cap"})


def ref_eff(pop, b0, t):
    lw = pop["ll"] + pop["lp"] - pop["lq"]
    a = (t - b0) * lw
    u = np.exp(a - np.max(a))
    return math.fsum(u) ** 2 / math.fsum(u * u) / len(lw)


def knife_edge_run(case, rec, mb, ib) -> bool:
    """first divergence of two schedules is a knife edge when the ESS fraction equals the target to 1e-7 at
    both candidate temperatures (e.g. a degenerate population whose ESS tends to target*N from above)"""
    full = {**smcrun.DEFAULT, **case["cfg"]}
    te = full["target_efficiency"]
    for t, (a, b) in enumerate(zip(mb, ib)):
        if not core.close(a, b, 1e-15, 3 * TOL):
            b0 = 0.0 if t == 0 else ib[t - 1]
            tgt = te if isinstance(te, float) else te[0] + (te[1] - te[0]) * b0 ** full["target_efficiency_rate"]
            ea, eb = ref_eff(rec["pops"][t], b0, a), ref_eff(rec["pops"][t], b0, b)
            return abs(ea - tgt) < 1e-7 and abs(eb - tgt) < 1e-7
    return False


# ----------------------------------------------------------------------------- fixed-schedule table
def check_fixed_table(chk, upto):
    """every n_steps in 1..upto through determine_beta from beta=0 (cheap: no population needed)"""
    from aspire.samplers.smc.minipcn import MiniPCNSMC

    drv = core.LeanDriver()
    reps = drv.batch([f"f64 fixed {n}" for n in range(1, upto + 1)])
    s = MiniPCNSMC(log_likelihood=None, log_prior=None, dims=1, prior_flow=None, xp=ns.get_xp("numpy"))
    s.adaptive = False
    bad = []
    for n, rep in zip(range(1, upto + 1), reps):
        new = rep.fs()
        b, seq = 0.0, []
        for _ in range(2 * n + 5):
            b, _m = s.determine_beta(None, b, 1 / n, 0.0)
            seq.append(float(b))
            if b == 1.0:
                break
        chk.case(None, f"fixed{n}")
        if seq != new:
            chk.disagree("fixed schedule", {"level": "fixed", "n_steps": n}, new[-3:], seq[-3:])
        if len(seq) != n or seq[-1] != 1.0 or any(b2 <= b1 for b1, b2 in zip([0.0] + seq, seq)):
            bad.append(n)
    chk.count("fixed_table_n", upto)
    if bad:
        chk.fail("fixed schedule of n steps performs exactly n iterations", {"level": "fixed", "n_steps": bad[:20]},
                 f"n_steps in {bad[:20]} ({len(bad)} values up to {upto}) do not give exactly n strictly increasing steps ending at 1",
                 {"level": "fixed", "clause": "fixed_count", "n": bad[:50]})


def run(chk: core.Check):
    r = np.random.default_rng(chk.seed + 6006)
    quick = chk.tier == "quick"
    chk.rule = ("unit: determine_beta on generated populations (moderate / peaked to 1e12 / flat / ties / dominant) x "
                "{fixed, plain, min_step, max_n_steps, both} x scalar or ramped target x tolerance; run: whole MiniPCNSMC/EmceeSMC "
                "runs with kernel doubles over schedule options; fixed: every n_steps up to a bound. distinct = different "
                "(options, population / seed); non-trivial = at least one schedule step taken")
    chk.trusted += ["the MCMC kernels are test doubles (random-walk Metropolis); numpy exp/log"]
    check_fixed_table(chk, 300 if quick else 2000)
    units = [gen_unit(r, i, chk.tier) for i in range(400 if quick else 20000)]
    for i in range(0, len(units), 400):
        check_units(chk, units[i:i + 400])
    runs = corpus_runs() + [gen_run(r, i, chk.tier) for i in range(40 if quick else 600)]
    check_runs(chk, runs)
    check_reuse_after_resume(chk, quick)
    check_resume_at_cap(chk, quick)

    def search():
        sub = core.Check(chk.pid, chk.tier, chk.seed)
        sub.known, sub.matchers = chk.known, chk.matchers
        rr = np.random.default_rng(chk.seed + 4242)
        check_fixed_table(sub, 2000)
        if not sub.failures:
            check_units(sub, [gen_unit(rr, i, "thorough") for i in range(3000)])
        if not sub.failures:
            check_runs(sub, [gen_run(rr, i, "thorough") for i in range(80)])
        return sub.failures[0] if sub.failures else None

    return search


def replay(chk: core.Check, path: str) -> int:
    doc = json.loads(open(path).read())
    p = doc["payload"]
    cases = [p["case"]] if "case" in p else [d["case"] for d in p.get("correspondence", [])]
    for c in cases:
        if c.get("level") == "unit":
            check_units(chk, [c], c07=chk.pid == "C07")
        elif c.get("level") == "run":
            check_runs(chk, [dict(c["cfg"])])
        else:
            check_fixed_table(chk, max(c.get("n_steps", [300])) if isinstance(c.get("n_steps"), list) else 300)
    for f in chk.failures:
        print("FAIL", f["clause"], f["detail"])
    for d in chk.disagreements:
        print("DISAGREE", d["op"], d["model"], d["impl"])
    print(f"replayed {len(cases)} case(s): {len(chk.failures)} oracle failure(s), {len(chk.disagreements)} disagreement(s)")
    return 1 if (chk.failures or chk.disagreements) else 0
