"""C17 — prior is evaluated before likelihood on the same points; evaluations are counted.

The user's callables are instrumented (no source hook): every likelihood call records the number of points, whether the
sample set carries a log-prior and whether that log-prior equals the user's prior at exactly those points; the sampler's
reported n_likelihood_evaluations is compared with the number of points the likelihood was actually handed.  All sampler
classes x preconditioning x namespaces, with initial-draw rejection, kernel target evaluations, post-mutation
re-evaluation, final enlargement and resumed runs.  The observed call stream must be in the language of the Lean model
(Model/Eval.lean `runCalls`: `prior xs; like xs` pairs, and one `like` on rows carrying their prior after the rejection
loop); the model's counter for that call list (op `calls`) must equal the reported one.
"""
from __future__ import annotations

import json
import math

import numpy as np

from .. import core, ns, smcrun
from . import c10


def analyse(chk, case, res, resumed=False):
    t = res["target"]
    sig = {"sampler": case["cfg"]["sampler"], "resumed": resumed}
    calls = t.calls
    kinds = []
    prev = None
    for j, c in enumerate(calls):
        if c[0] == "L":
            _, n, attached, matches, xh = c
            if not attached:
                chk.fail("the sample set handed to the likelihood carries a log-prior", case,
                         f"likelihood call #{sum(1 for d in calls[:j] if d[0] == 'L')} ({n} points): no log_prior attached", {**sig, "clause": "attached"})
            elif not matches:
                chk.fail("the attached log-prior is the prior of exactly those points", case,
                         f"likelihood call #{sum(1 for d in calls[:j] if d[0] == 'L')} ({n} points): attached log_prior differs from the user's prior at these points",
                         {**sig, "clause": "matches"})
            if prev is not None and prev[0] == "P" and prev[4] == xh and prev[1] == n:
                kinds[-1] = (1, n)          # prior xs; like xs
            else:
                kinds.append((2, n))       # like on rows that carry their prior (end of the rejection loop)
        else:
            kinds.append((0, c[1]))
        prev = c
    reported = res["sampler"].n_likelihood_evaluations
    if reported != t.points_like:
        chk.fail("reported evaluations = points the likelihood was asked to evaluate", case,
                 f"n_likelihood_evaluations = {reported}, points handed to the likelihood = {t.points_like}", {**sig, "clause": "count"})
    return kinds, reported


def check_run(chk, cfg, lines, keep):
    res = smcrun.run_sampler({**cfg, "record_checkpoints": True})
    case = {"cfg": cfg}
    chk.count(f"sampler:{cfg['sampler']}")
    chk.count(f"ns:{cfg['ns']}/{cfg['width']}")
    if smcrun.collapsed_population(res):
        chk.count("skipped:population_collapsed_rejected_by_library")
        return
    if res["status"] != "done":
        chk.case(None, None)
        chk.fail("run total", case, repr(res.get("exc"))[:300], {"clause": "raise", "sampler": cfg["sampler"]})
        return
    kinds, reported = analyse(chk, case, res)
    nL = sum(1 for k in kinds if k[0] in (1, 2))
    chk.count("likelihood_calls", nL)
    chk.count("points", res["target"].points_like)
    if any(k[0] == 2 for k in kinds):
        chk.count("runs_with_rejection_loop_likelihood_call")
    chk.case({"cfg": cfg, "likelihood_calls": nL, "points": res["target"].points_like} if chk.evaluations < 8 else None, json.dumps(cfg))
    lines.append("f64 calls " + " ".join([str(len(kinds))] + [f"{k} {n}" for k, n in kinds]))
    keep.append((case, reported, [n for k, n in kinds if k in (1, 2)]))
    # resumed run: counter of the resumed sampler = points handed to the likelihood during the resumed call
    if cfg["sampler"] == "minipcn_smc" and res["ckpts"]:
        k = max(1, res["target"].n_like // 2)
        r1 = smcrun.run_smc(cfg, fault_at=k, record_checkpoints=True)
        if r1["status"] == "fault":
            # a likelihood call that was handed points and raised still counts: the points WERE asked for
            chk.count("interrupted_runs")
            rep = int(r1["sampler"].n_likelihood_evaluations)
            if rep != r1["target"].points_like:
                chk.fail("reported evaluations = points the likelihood was asked to evaluate", {"cfg": cfg, "interrupted_at_likelihood_call": k},
                         f"after an interruption inside likelihood call {k}: reported {rep}, the likelihood was asked for {r1['target'].points_like} points",
                         {"clause": "count", "interrupted": True})
        if r1["status"] == "fault" and r1["ckpts"]:
            r2 = smcrun.resume_smc(cfg, r1["ckpts"][-1]["bytes"])
            chk.count("resumed_runs")
            if r2["status"] == "done":
                analyse(chk, {"cfg": cfg, "resumed_after_fault_at": k}, r2, resumed=True)


def check_aspire_level(chk, r, n):
    """the top-level counter `Aspire.n_likelihood_evaluations`"""
    from .. import aspire_level as al

    for i in range(n):
        dims = int(r.choice([1, 2]))
        t = smcrun.Target(dims, half=float(r.choice([2.0, 10.0])))
        a = al.make_aspire(t, dims=dims, half=t.half)
        a.fit(al.training_samples(dims, int(r.integers(1000))))
        sampler = str(r.choice(["importance", "smc", "minipcn"]))
        kw = {"sampler_kwargs": {"n_steps": 2}, "n_final_samples": int(r.choice([6, 20]))} if sampler == "smc" else ({"n_steps": 3} if sampler == "minipcn" else {})
        chk.case(None, f"aspire{i}{sampler}")
        try:
            with al.orng_seed(i):
                a.sample_posterior(n_samples=10, sampler=sampler, **kw)
        except Exception as exc:   # noqa
            chk.fail("run total", {"level": "aspire", "sampler": sampler}, repr(exc)[:300], {"clause": "raise", "level": "aspire"})
            continue
        chk.count(f"aspire_level:{sampler}")
        bad = [c for c in t.calls if c[0] == "L" and not (c[2] and c[3])]
        if bad:
            chk.fail("the sample set handed to the likelihood carries the log-prior of exactly those points", {"level": "aspire", "sampler": sampler},
                     f"{len(bad)} likelihood call(s) without the matching prior", {"clause": "attached", "level": "aspire"})
        if a.n_likelihood_evaluations != t.points_like:
            chk.fail("reported evaluations = points the likelihood was asked to evaluate", {"level": "aspire", "sampler": sampler},
                     f"Aspire.n_likelihood_evaluations = {a.n_likelihood_evaluations}, points = {t.points_like}", {"clause": "count", "level": "aspire"})


def check_aspire_level_aborted(chk):
    """the top-level counter after a run that did NOT return (the likelihood raised in the middle; Ctrl-C) - also as the second analysis of an
    object whose first one finished: it is the number of points the likelihood of the LAST run was asked, not nothing and not the previous total"""
    from .. import aspire_level as al

    for sampler, kw in (("importance", {}), ("smc", {"sampler_kwargs": {"n_steps": 2}, "adaptive": False, "n_steps": 3})):
        for first_completes in (False, True):
            for kind in ("exception", "interrupt"):
                t = smcrun.Target(2)
                t.fault_exc = smcrun.FaultInterrupt if kind == "interrupt" else smcrun.Fault
                a = al.make_aspire(t, dims=2)
                a.fit(al.training_samples(2, 3))
                case = {"level": "aspire_aborted", "sampler": sampler, "a_completed_analysis_first": first_completes, "fault": kind}
                chk.count("aspire_level_aborted")
                chk.case(None, json.dumps(case))
                try:
                    if first_completes:
                        with al.orng_seed(1):
                            a.sample_posterior(n_samples=30, sampler=sampler, **kw)
                    pts0, calls0 = t.points_like, t.n_like
                    t.fault_at = calls0 + (0 if sampler == "importance" else 2)
                    try:
                        with al.orng_seed(2):
                            a.sample_posterior(n_samples=14, sampler=sampler, **kw)
                        continue          # the planted fault was not reached
                    except smcrun.FAULTS:
                        pass
                    asked = t.points_like - pts0
                    got = a.n_likelihood_evaluations
                    if got is None or int(got) != asked:
                        chk.fail("reported evaluations = points the likelihood was asked to evaluate", case,
                                 f"after a {sampler} run that died inside a likelihood call: Aspire.n_likelihood_evaluations = {got!r}, the likelihood was asked for {asked} points in that run"
                                 + (f" (the earlier, completed analysis asked {pts0})" if first_completes else ""), {"clause": "count", "level": "aspire_aborted"})
                except Exception as exc:   # noqa
                    chk.fail("run total", case, repr(exc)[:300], {"clause": "raise", "level": "aspire_aborted"})


def check_convert_to_samples(chk):
    """the call site `Aspire.convert_to_samples(x, evaluate=True)` (prior, then likelihood on the set that carries it).  On the pinned tree the
    method cannot get that far (`samples.xp.to_device` does not exist in the array namespaces: AttributeError before the prior is stored) - that is
    counted, not failed: no likelihood call happens, so the property has nothing to say.  On a tree where the method works, the likelihood must
    see the prior of exactly the points it is handed."""
    from .. import aspire_level as al

    for nsn in ("numpy", "torch"):
        t = smcrun.Target(2, half=3.0)
        a = al.make_aspire(t, dims=2, half=3.0, xp_name=nsn)
        x = np.random.default_rng(8).uniform(-4, 4, (30, 2))
        case = {"level": "convert_to_samples", "ns": nsn}
        chk.count("convert_to_samples")
        chk.case(None, json.dumps(case))
        try:
            a.convert_to_samples(ns.get_xp(nsn).asarray(x), log_q=ns.get_xp(nsn).asarray(np.zeros(30)))
        except AttributeError:
            chk.count("convert_to_samples:unreachable_on_this_tree(AttributeError)")
            continue
        except Exception as exc:   # noqa
            chk.count("convert_to_samples:raised:" + type(exc).__name__)
            continue
        bad = [c for c in t.calls if c[0] == "L" and not (c[2] and c[3])]
        if bad:
            chk.fail("the sample set handed to the likelihood carries the log-prior of exactly those points", case,
                     f"convert_to_samples: {len(bad)} likelihood call(s) without the matching prior", {"clause": "attached", "level": "convert_to_samples"})


def check_several_objects(chk, r, n):
    """the count belongs to ONE sampler object: several samplers (and Aspire objects) alive in one process, built and run in an
    interleaved order, each report the points THEIR likelihood was asked to evaluate - building or running another object changes
    nothing (two analyses in one script, a notebook that keeps the first sampler around)"""
    from aspire.samplers.importance import ImportanceSampler
    from aspire.samplers.smc.minipcn import MiniPCNSMC

    for i in range(n):
        dims = 2
        ta, tb, tc = smcrun.Target(dims), smcrun.Target(dims), smcrun.Target(dims)
        fa, fb, fc = (smcrun.make_proposal(dims, seed=100 * i + k) for k in range(3))
        mk = lambda K, t, f, **kw: K(log_likelihood=t.log_likelihood, log_prior=t.log_prior, dims=dims, prior_flow=f, xp=np, parameters=["a", "b"], **kw)   # noqa: E731
        # (a lower-case letter twice: the SAME object runs again - the count is the total over everything its likelihood was asked)
        order = ("ABab", "AaBb", "ABba", "AaBCcb", "Bbb", "ABbab", "Aaa")[i % 7]
        objs, tg = {}, {"A": ta, "B": tb, "C": tc}
        case = {"level": "several_objects", "order": order, "i": i}
        chk.count("several_objects:" + order)
        chk.case(case if chk.evaluations < 40 else None, json.dumps(case))
        try:
            with_rng = np.random.default_rng(i)
            for ch in order:
                if ch == "A":
                    objs["A"] = mk(ImportanceSampler, ta, fa)
                elif ch == "B":
                    objs["B"] = mk(MiniPCNSMC, tb, fb, rng=with_rng)
                elif ch == "C":
                    objs["C"] = mk(ImportanceSampler, tc, fc)
                elif ch == "a":
                    objs["A"].sample(40 + 10 * i)
                elif ch == "b":
                    objs["B"].sample(12, sampler_kwargs={"n_steps": 2}, n_final_samples=20 if i % 2 else None)
                elif ch == "c":
                    objs["C"].sample(25)
                # after EVERY step, every object that exists reports its own points
                for nm, o in objs.items():
                    if int(o.n_likelihood_evaluations) != tg[nm].points_like:
                        chk.fail("reported evaluations = points the likelihood was asked to evaluate", {**case, "after": ch, "object": nm},
                                 f"after step `{ch}` of `{order}`: sampler {nm} reports {int(o.n_likelihood_evaluations)} evaluations, its likelihood was asked for "
                                 f"{tg[nm].points_like} points", {"clause": "count", "level": "several_objects"})
                        raise StopIteration
        except StopIteration:
            pass
        except Exception as exc:   # noqa
            chk.fail("run total", case, repr(exc)[:300], {"clause": "raise", "level": "several_objects"})


def check_nonfinite_draws(chk):
    """a proposal that now and then emits a draw with an infinite or NaN coordinate (a saturating flow): whatever the sampler does with such
    rows, the count is the number of points the likelihood was actually handed, and every set it is handed carries the prior of its points"""
    from aspire.flows.base import Flow
    from aspire.samplers.importance import ImportanceSampler

    for nsn in ("numpy", "torch"):
        for bad_every in (0, 7, 3):
            xp = ns.get_xp(nsn)

            class P(Flow):
                pass

            P.xp = xp

            class P(P):   # noqa: F811
                def __init__(self):
                    super().__init__(2, device=None)
                    self.g = np.random.default_rng(5)

                def _lp(self, x):
                    x = ns.to_np(x)
                    with np.errstate(all="ignore"):
                        v = (-0.5 * (x / 2.0) ** 2 - math.log(2.0) - 0.5 * math.log(2 * math.pi)).sum(-1)
                    return np.where(np.isfinite(v), v, -np.inf)

                def log_prob(self, x):
                    return xp.asarray(self._lp(x))

                def sample_and_log_prob(self, n):
                    x = 2.0 * self.g.normal(size=(n, 2))
                    if bad_every:
                        x[::bad_every, 0] = np.inf
                        x[1::2 * bad_every, 1] = np.nan
                    return xp.asarray(x), xp.asarray(self._lp(x))

                def sample(self, n):
                    return self.sample_and_log_prob(n)[0]

                def fit(self, x, **kw):
                    return None

            t = smcrun.Target(2, half=5.0)
            case = {"level": "nonfinite_draws", "ns": nsn, "bad_every": bad_every}
            chk.count("nonfinite_draws")
            chk.case(None, json.dumps(case))
            s = ImportanceSampler(log_likelihood=t.log_likelihood, log_prior=t.log_prior, dims=2, prior_flow=P(), xp=xp, parameters=["a", "b"])
            try:
                with np.errstate(all="ignore"):
                    s.sample(60)
            except Exception as exc:   # noqa
                chk.count("nonfinite_draws:run_raised:" + type(exc).__name__)
                continue
            bad = [c for c in t.calls if c[0] == "L" and not (c[2] and c[3])]
            if bad:
                chk.fail("the sample set handed to the likelihood carries the log-prior of exactly those points", case,
                         f"{len(bad)} likelihood call(s) without the matching prior", {"clause": "attached", "level": "nonfinite_draws"})
            if int(s.n_likelihood_evaluations) != t.points_like:
                chk.fail("reported evaluations = points the likelihood was asked to evaluate", case,
                         f"reported {int(s.n_likelihood_evaluations)}, the likelihood was handed {t.points_like} points ({bad_every and 'some' or 'no'} draws with a non-finite coordinate)",
                         {"clause": "count", "level": "nonfinite_draws"})


def run(chk: core.Check):
    r = np.random.default_rng(chk.seed + 17017)
    quick = chk.tier == "quick"
    chk.rule = ("whole runs of every sampler class x preconditioning x namespace x width with a proposal over-covering the prior box (so the "
                "rejection loop runs and kernels visit out-of-prior points), final enlargement, resumed runs and Aspire.sample_posterior; every "
                "likelihood call is an observed event; all distinct configurations count as non-trivial")
    chk.trusted += ["kernel doubles call the target like the real kernels (vectorised, numpy or namespace arrays)"]
    drv = core.LeanDriver()
    lines, keep = [], []
    for i in range(60 if quick else 1200):
        check_run(chk, c10.gen_cfg(r, i), lines, keep)
    # populations far larger than usual in ONE likelihood call (a reweighting of 1e5 draws, an enlargement to n_final_samples > 2**16, a big
    # initial population): the same clauses, whatever the size of the set
    big = [{"sampler": "importance", "ns": "numpy", "width": "f64", "n_samples": 70_001, "dims": 1, "seed": 5, "half": 10.0, "prop_sigma": 9.0},
           {"sampler": "minipcn_smc", "ns": "numpy", "width": "f64", "n_samples": 8, "n_final_samples": 66_000, "dims": 1, "seed": 6, "kernel_steps": 1,
            "adaptive": False, "n_steps": 1}]
    if not quick:
        big += [{"sampler": "importance", "ns": "torch", "width": "f32", "n_samples": 140_000, "dims": 2, "seed": 7, "half": 10.0, "prop_sigma": 9.0},
                {"sampler": "minipcn_smc", "ns": "numpy", "width": "f64", "n_samples": 66_000, "dims": 1, "seed": 8, "kernel_steps": 1, "adaptive": False, "n_steps": 1}]
    for cfg in big:
        chk.count("large_population_runs")
        check_run(chk, cfg, [], [])
    check_nonfinite_draws(chk)
    check_convert_to_samples(chk)
    check_aspire_level_aborted(chk)
    check_aspire_level(chk, r, 9 if quick else 90)
    check_several_objects(chk, r, 14 if quick else 56)
    for (case, reported, like_sizes), rep in zip(keep, drv.batch(lines)):
        if not rep.ok:
            raise core.HarnessError(rep.err)
        counter, nev = rep.n(), rep.n()
        sizes, flags = rep.ns(), rep.ns()
        if counter != reported or sizes != like_sizes or any(f != 1 for f in flags):
            chk.disagree("n_likelihood_evaluations", case, [counter, sizes[:6]], [reported, like_sizes[:6]])

    def search():
        sub = core.Check(chk.pid, chk.tier, chk.seed)
        sub.known, sub.matchers = chk.known, chk.matchers
        rr = np.random.default_rng(chk.seed + 71)
        for i in range(150):
            check_run(sub, c10.gen_cfg(rr, i), [], [])
            if sub.failures:
                return sub.failures[0]
        return None

    return search


def replay(chk: core.Check, path: str) -> int:
    doc = json.loads(open(path).read())
    p = doc["payload"]
    cases = [p["case"]] if "case" in p else [d["case"] for d in p.get("correspondence", [])]
    for c in cases:
        if "cfg" in c:
            check_run(chk, dict(c["cfg"]), [], [])
    for f in chk.failures[:10]:
        print("FAIL", f["clause"], f["detail"])
    print(f"replayed {len(cases)} case(s): {len(chk.failures)} oracle failure(s)")
    return 1 if chk.failures else 0
