"""C15 — array-namespace and dtype conversions preserve values and precision.

(1) the COMPLETE conversion table (3 classes x 3 source namespaces x 2 widths x 3 target namespaces x 9 dtype spellings x
    {to_namespace, to_numpy, from_samples} x 2 field subsets) is executed on the real classes and compared cell by cell with
    the Lean model (Model/Dtype.lean, op `conv`; theorem `C15.conversion_total_and_faithful` covers the same whole table);
(2) oracle per cell: conversion succeeds, lands in the requested namespace, values and optional fields (incl. beta /
    evidence of SMC sets) preserved, width kept or as explicitly requested;
(3) the precision requested by the user is the precision of every population a sampler builds, restores or returns
    (whole runs incl. resume, 3 namespaces x 2 widths, and the sample_posterior(xp=...) option);
(4) proposal outputs (real zuko flow: tensors attached to the autograd graph) can be consumed by sample sets of every namespace.
"""
from __future__ import annotations

import itertools
import json

import numpy as np

from .. import aspire_level as al
from .. import core, ns, smcrun

NSS = ("numpy", "torch", "jax")
WS = ("f32", "f64")
CLS = ("base", "samples", "smc")
METHODS = ("to_namespace", "to_numpy", "from_samples")
SPECS = [("none",), ("name", "f32"), ("name", "f64")] + [("native", n, w) for n in NSS for w in WS]
N = 5


def make_set(cls, src, w, fields, view=False):
    from aspire.samples import BaseSamples, Samples, SMCSamples

    K = {"base": BaseSamples, "samples": Samples, "smc": SMCSamples}[cls]
    xp = ns.get_xp(src)
    kw = dict(x=np.arange(2 * N, dtype=float).reshape(N, 2) / 7 + 0.1, xp=xp, dtype=ns.native_dtype(src, w), parameters=["a", "b"])
    if fields == "all":
        kw.update(log_likelihood=np.arange(N) / 3, log_prior=np.arange(N) / 5 + 1, log_q=np.arange(N) / 9 + 2)
    elif fields in ("some", "some+floats"):
        kw.update(log_likelihood=np.arange(N) / 3)
    # attached evidence: an exact zero in half of the cells (log Z = 0 +- 0 is a legitimate value, not "absent")
    zero = (NSS.index(src) + WS.index(w) + len(fields)) % 2 == 0
    # (non-zero values are not representable in float32: a detour through single precision is visible in a float64 set; they are
    #  attached as 0-d arrays of the set's namespace and width, the way the samplers attach them)
    ev = (0.0, 0.0) if zero else (1.2345678901234567, 0.12345678901234568)
    if fields == "some+floats":
        # the evidence as plain Python floats (supplied by the user that way; what an HDF5 scalar reloads as), never zero
        zero, ev = False, (-12.345678901234567, 0.12345678901234568)
    elif not zero and (NSS.index(src) + len(fields)) % 2 == 0:
        ev = tuple(xp.asarray(v, dtype=ns.native_dtype(src, w)) for v in ev)
    if cls == "smc":
        kw.update(beta=0.0 if zero else 0.5, log_evidence=ev[0], log_evidence_error=ev[1])
    elif cls == "samples" and fields != "all":      # with the full triple the constructor recomputes the evidence
        kw.update(log_evidence=ev[0], log_evidence_error=ev[1])
    s = K(**kw)
    if view and cls != "samples":
        # the set that is converted is itself a selection of a larger one (thinned chain, burn-in removed): its arrays may be
        # non-contiguous views.  (`Samples.__getitem__` recomputes the ESS, which the value comparison does not expect.)
        kw2 = dict(kw)
        for f in ("x", "log_likelihood", "log_prior", "log_q"):
            if kw2.get(f) is not None:
                a = np.repeat(np.asarray(kw2[f]), 2, axis=0)
                a[1::2] = a[1::2] + 1000.0
                kw2[f] = a
        s = K(**kw2)[::2]
    return K, s


def run_cell(cell):
    cls, src, w, tgt, spec, method, fields = cell
    K, s = make_set(cls, src, w, fields, view=(NSS.index(src) + NSS.index(tgt) + len(method)) % 2 == 1)
    txp = ns.get_xp(tgt)
    if spec[0] == "none":
        dkw = {}
    elif spec[0] == "name":
        dkw = {"dtype": {"f32": "float32", "f64": "float64"}[spec[1]]}
    else:
        dkw = {"dtype": ns.native_dtype(spec[1], spec[2])}
    if method == "to_namespace":
        t = s.to_namespace(txp, **dkw)
    elif method == "to_numpy":
        t = s.to_numpy(**dkw)
    else:
        extra = {"beta": s.beta, "log_evidence": s.log_evidence, "log_evidence_error": s.log_evidence_error} if cls == "smc" else {}
        t = K.from_samples(s, xp=txp, **dkw, **extra)
    return s, t


def accepts(cell):
    cls, src, w, tgt, spec, method, fields = cell
    if spec[0] != "none" and ((cls == "samples" and method in ("to_namespace", "to_numpy")) or (cls == "smc" and method == "to_numpy")):
        return False
    return True


def valid(cell):
    cls, src, w, tgt, spec, method, fields = cell
    t = "numpy" if method == "to_numpy" else tgt
    if spec[0] == "native":
        fam = lambda n: "torch" if n == "torch" else "np"
        return fam(spec[1]) == fam(t)
    return True


def check_table(chk, cells):
    drv = core.LeanDriver()
    lines = []
    for cls, src, w, tgt, spec, method, fields in cells:
        lines.append(f"f64 conv {cls} {src} {w} {tgt} {' '.join(spec)} {method}")
    reps = drv.batch(lines)
    for cell, rep in zip(cells, reps):
        cls, src, w, tgt, spec, method, fields = cell
        if not rep.ok:
            raise core.HarnessError(rep.err)
        m_valid, m_acc, m_status = rep.tok() == "1", rep.tok() == "1", rep.tok()
        if m_valid != valid(cell) or m_acc != accepts(cell):
            chk.disagree("conv.domain", {"cell": list(map(str, cell))}, [m_valid, m_acc], [valid(cell), accepts(cell)])
        if not (valid(cell) and accepts(cell)):
            continue
        case = {"cls": cls, "src": src, "width": w, "tgt": tgt, "spec": list(spec), "method": method, "fields": fields}
        chk.count(f"method:{method}")
        chk.count(f"pair:{src}->{'numpy' if method == 'to_numpy' else tgt}")
        chk.case(case if chk.evaluations < 6 else None, json.dumps(case) if (src != tgt or spec[0] != "none") else None)
        want_ns = "numpy" if method == "to_numpy" else tgt
        want_w = w if spec[0] == "none" else spec[-1]
        sig = {"cls": cls, "method": method, "pair": f"{src}->{want_ns}", "spec": spec[0]}
        try:
            s, t = run_cell(cell)
            got = ("ok", ns.ns_of(t.x), ns.width_of(t.x))
        except Exception as e:   # noqa
            got = ("raise", type(e).__name__, str(e)[:120])
        model = (m_status, rep.tok(), rep.tok()) if m_status == "ok" else ("typeerror",)
        m_fields = (rep.tok() == "1") if m_status == "ok" else None
        if got[0] != "ok":
            chk.fail("conversion succeeds for every ordered pair", case, f"{got[1]}: {got[2]}", {**sig, "clause": "raise", "exc": got[1]})
            if model[0] == "ok":
                chk.disagree("conv", case, model, got)
            continue
        problems = []
        if got[1] != want_ns:
            problems.append(f"namespace {got[1]} instead of {want_ns}")
        if got[2] != want_w:
            problems.append(f"width {got[2]} instead of {want_w}")
        tol = 1e-6 if "f32" in (w, want_w) else 1e-14
        kept = True
        for f in ("x", "log_likelihood", "log_prior", "log_q"):
            a, b = getattr(s, f), getattr(t, f)
            if (a is None) != (b is None):
                problems.append(f"{f} {'dropped' if b is None else 'appeared'}"); kept = False
            elif a is not None and not np.allclose(ns.to_np(a), ns.to_np(b), rtol=tol, atol=tol):
                problems.append(f"{f} values changed"); kept = False
            elif a is not None and ns.width_of(b) != got[2]:
                problems.append(f"{f} has width {ns.width_of(b)}")
        if cls == "smc" or (cls == "samples" and fields != "all" and method != "from_samples"):
            for f in (("beta",) if cls == "smc" else ()) + ("log_evidence", "log_evidence_error"):
                a, b = getattr(s, f), getattr(t, f)
                if b is None or abs(float(a) - float(b)) > tol * max(1.0, abs(float(a))):
                    problems.append(f"{f} {a!r} -> {b!r}"); kept = False
        if t.parameters != s.parameters:
            problems.append("parameters changed")
        if problems:
            chk.fail("conversion preserves namespace, values, optional fields and width", case, "; ".join(problems),
                     {**sig, "clause": "faithful", "problems": sorted({p.split()[0] for p in problems})})
        if model != ("ok", got[1], got[2]) or m_fields != kept:
            chk.disagree("conv", case, [model, m_fields], [got, kept])


def check_sampler_precision(chk, quick):
    """the requested precision is the precision of every population a sampler builds, restores or returns"""
    combos = [(s, n, w) for s in ("importance", "minipcn", "minipcn_smc", "emcee_smc") for n in NSS for w in WS]
    if quick:
        combos = combos[::2] + [("minipcn_smc", "torch", "f64"), ("minipcn_smc", "numpy", "f32")]
    for s, n, w in combos:
        cfg = {"sampler": s, "ns": n, "width": w, "n_samples": 8, "kernel_steps": 1, "seed": 3, "dims": 2, "half": 10.0, "n_final_samples": 12 if s.endswith("smc") else None}
        if s != "importance":
            # a proposal that over-covers the prior box: the initial population is assembled from several proposal batches
            cfg.update(prop_sigma=9.0, half=6.0)
        if n == "jax" and s in ("minipcn", "emcee_smc"):
            cfg["precond"] = {"bounded_to_unbounded": True, "bounded_transform": "logit", "affine_transform": False}
        case = {"level": "sampler", "cfg": cfg}
        chk.case(None, json.dumps(cfg))
        chk.count(f"sampler:{s}")
        res = smcrun.run_sampler({**cfg, "record_checkpoints": True})
        if res["status"] != "done":
            chk.fail("run total", case, repr(res.get("exc"))[:300], {"clause": "raise", "level": "sampler", "sampler": s})
            continue
        bad = []

        def look(name, smp, upcast_ok=False):
            nonlocal w
            for f in ("x", "log_likelihood", "log_prior", "log_q"):
                v = getattr(smp, f, None)
                if v is not None and (ns.width_of(v) != w or ns.ns_of(v) != n):
                    bad.append(f"{name}.{f}: {ns.ns_of(v)}/{ns.width_of(v)}")
                elif v is not None and w == "f64" and f == "x" and not upcast_ok:
                    a = np.asarray(ns.to_np(v), dtype=np.float64)
                    if a.size and np.all(a.astype(np.float32).astype(np.float64) == a):
                        bad.append(f"{name}.{f}: labelled float64 but every value is float32-representable (rounded through float32)")
            # the set-level values attached to a returned population: an array / tensor has the requested precision, and in double
            # precision the evidence is the double-precision sum of the recorded ratios (not a sum rounded through float32)
            for f in ("log_evidence", "log_evidence_error"):
                v = getattr(smp, f, None)
                # (a run continued from a checkpoint of ANOTHER precision sums ratios recorded at that precision: not compared)
                if v is not None and hasattr(v, "dtype") and ns.width_of(v) != w and not upcast_ok:
                    bad.append(f"{name}.{f}: {ns.ns_of(v)}/{ns.width_of(v)}")

        look("returned", res["samples"])
        h = getattr(res["sampler"], "history", None)
        if h is not None and getattr(h, "sample_history", None):
            for t, p in enumerate(h.sample_history):
                look(f"history[{t}]", p)
        if res.get("ckpts"):
            r2 = smcrun.resume_smc(cfg, res["ckpts"][0]["bytes"])
            if r2["status"] == "done":
                look("returned after resume", r2["samples"])
                for t, p in enumerate(r2["sampler"].history.sample_history):
                    look(f"resumed history[{t}]", p)
        if res.get("ckpts") and s == "minipcn_smc":
            # the analysis is continued with ANOTHER requested precision (same namespace), from the first and from the final checkpoint:
            # the restored population and everything built or returned afterwards have the precision requested NOW
            w_old, w2 = w, ("f32" if w == "f64" else "f64")
            for which, ck in (("first", res["ckpts"][0]), ("final", res["ckpts"][-1])):
                r3 = smcrun.resume_smc({**cfg, "width": w2}, ck["bytes"])
                chk.count("resumed_with_other_precision")
                if r3["status"] != "done":
                    bad.append(f"resume from the {which} checkpoint with {w2}: {r3.get('exc')!r}")
                    continue
                w = w2
                # (values saved in float32 and continued in float64 ARE float32-representable where no move was accepted)
                look(f"returned after resuming the {which} checkpoint with precision {w2}", r3["samples"], upcast_ok=True)
                w = w_old
        if bad:
            chk.fail("the requested precision is the precision of every population", case, f"requested {n}/{w}: " + "; ".join(bad[:6]),
                     {"clause": "precision", "level": "sampler", "sampler": s, "ns": n, "width": w})


def check_output_option(chk):
    """sample_posterior(xp=...) converts the returned samples for every ordered pair, whatever way the precision was requested"""
    for (src, tgt), dspec in itertools.product(itertools.product(NSS, NSS), ("default", "name64", "native64", "native32")):
        t = smcrun.Target(2)
        dkw = {} if dspec == "default" else {"dtype": "float64" if dspec == "name64" else ns.native_dtype(src, "f64" if dspec == "native64" else "f32")}
        case = {"level": "sample_posterior(xp=)", "src": src, "tgt": tgt, "dtype": dspec}
        chk.case(None, json.dumps(case))
        chk.count("output_option")
        try:
            a = al.make_aspire(t, dims=2, xp_name=src, **dkw)
            a.fit(al.training_samples(2, 5))
            s = a.sample_posterior(n_samples=6, sampler="importance", xp=ns.get_xp(tgt))
            if ns.ns_of(s.x) != tgt or s.log_likelihood is None or s.log_w is None:
                chk.fail("conversion preserves namespace, values, optional fields and width", case, f"returned {ns.ns_of(s.x)} samples", {"clause": "faithful", "level": "option"})
        except Exception as e:   # noqa
            chk.fail("conversion succeeds for every ordered pair", case, repr(e)[:200], {"clause": "raise", "level": "option", "exc": type(e).__name__, "pair": f"{src}->{tgt}"})


def check_precision_reaches_backend(chk):
    """the requested precision, spelled as a dtype object of the SAMPLE namespace, reaches a real proposal that lives in another
    namespace (numpy samples + torch flow is the default combination)"""
    from aspire import Aspire

    t = smcrun.Target(2)
    for nsn, w in (("numpy", "f64"), ("numpy", "f32"), ("jax", "f64")):
        case = {"level": "precision->backend", "samples": nsn, "dtype": f"native {w}", "backend": "zuko"}
        chk.count("precision_reaches_backend")
        chk.case(case, json.dumps(case))
        try:
            a = Aspire(log_likelihood=t.log_likelihood, log_prior=t.log_prior, dims=2, parameters=["p0", "p1"], prior_bounds={"p0": [-10, 10], "p1": [-10, 10]},
                       flow_backend="zuko", xp=ns.get_xp(nsn), dtype=ns.native_dtype(nsn, w))
            a.init_flow()
            got = str(a.flow.dtype)
            if not got.endswith("float64" if w == "f64" else "float32"):
                chk.fail("a requested precision is the precision of every population", case, f"the proposal was built with dtype {got}", {"clause": "precision", "level": "backend"})
        except Exception as e:   # noqa
            chk.fail("conversion succeeds for every ordered pair", case, repr(e)[:200], {"clause": "raise", "level": "backend", "exc": type(e).__name__})


def check_repeated_conversion(chk):
    """a conversion reflects the object AS IT IS NOW: a population that is converted, then given another field (the way `mutate` and
    `sample` fill a population in step by step, or a NumPy likelihood converts the set it receives), then converted again"""
    from aspire.samples import SMCSamples, Samples

    for src in NSS:
        for K in (SMCSamples, Samples):
            xp = ns.get_xp(src)
            dt = ns.native_dtype(src, "f64")
            case = {"level": "repeated_conversion", "cls": K.__name__, "src": src}
            chk.count("repeated_conversion")
            chk.case(case, json.dumps(case))
            try:
                kw = {"beta": 0.25} if K is SMCSamples else {}
                s = K(x=np.arange(8.0).reshape(4, 2) / 3, xp=xp, dtype=dt, parameters=["a", "b"], **kw)
                problems = []
                steps = [("log_q", np.arange(4.0) / 7), ("log_prior", np.arange(4.0) / 5 + 1), ("log_likelihood", np.arange(4.0) / 9 - 2)]
                for method in ("to_numpy", "to_namespace"):
                    for fname, vals in steps:
                        before = s.to_numpy() if method == "to_numpy" else s.to_namespace(ns.get_xp("numpy"))
                        setattr(s, fname, s.array_to_namespace(vals + (0.5 if method == "to_namespace" else 0.0)))
                        after = s.to_numpy() if method == "to_numpy" else s.to_namespace(ns.get_xp("numpy"))
                        got = getattr(after, fname)
                        want = vals + (0.5 if method == "to_namespace" else 0.0)
                        if got is None or not np.allclose(ns.to_np(got), want, rtol=1e-14, atol=1e-14):
                            problems.append(f"{method} after assigning {fname}: {None if got is None else ns.to_np(got)[:2].tolist()} instead of {want[:2].tolist()}")
                if K is SMCSamples:
                    s.log_evidence = s.array_to_namespace(np.asarray(-3.5))
                    after = s.to_numpy()
                    if after.log_evidence is None or abs(float(after.log_evidence) + 3.5) > 1e-12:
                        problems.append(f"to_numpy after attaching the evidence: {after.log_evidence!r}")
                if problems:
                    chk.fail("conversion preserves namespace, values, optional fields and width", case, "; ".join(problems[:4]),
                             {"clause": "faithful", "level": "repeated_conversion", "problems": ["stale"]})
            except Exception as e:   # noqa
                chk.fail("conversion succeeds for every ordered pair", case, repr(e)[:200], {"clause": "raise", "level": "repeated_conversion", "exc": type(e).__name__})


def check_proposal_outputs(chk):
    """a real zuko proposal's outputs are consumed by sample sets of every namespace"""
    import torch

    from aspire.flows import get_flow_wrapper
    from aspire.samples import Samples

    F, _ = get_flow_wrapper("zuko")
    f = F(dims=2, device="cpu", seed=0)
    f.fit(np.random.default_rng(0).normal(size=(60, 2)), n_epochs=1)
    for tgt in NSS:
        xp = ns.get_xp(tgt)
        case = {"level": "proposal_output", "backend": "zuko", "tgt": tgt}
        chk.case(None, json.dumps(case))
        chk.count("proposal_output")
        try:
            x, lq = f.sample_and_log_prob(5)
            s = Samples(x, log_q=lq, xp=xp)
            lp = f.log_prob(s.x)
            s.log_q = s.array_to_namespace(lp)
            if ns.ns_of(s.log_q) != tgt:
                chk.fail("proposal outputs can be consumed in any supported sample namespace", case, f"log_q is {ns.ns_of(s.log_q)}", {"clause": "proposal", "tgt": tgt})
        except Exception as e:   # noqa
            chk.fail("proposal outputs can be consumed in any supported sample namespace", case, repr(e)[:200],
                     {"clause": "proposal", "tgt": tgt, "exc": type(e).__name__})


def early_jax_lookup(chk):
    """a user who converts to JAX BEFORE enabling 64-bit mode (aspire then resolves "float64" for JAX while x64 is off) and enables it
    afterwards must get float64 from then on: nothing about the earlier state may stick.  Must run before anything enables x64."""
    import warnings

    import jax

    if jax.config.jax_enable_x64:
        chk.count("early_jax_lookup:skipped_x64_already_on")
        return
    from aspire.samples import BaseSamples

    try:
        with warnings.catch_warnings():
            warnings.simplefilter("ignore")
            s = BaseSamples(x=np.ones((2, 2)), xp=np, dtype="float64")
            s.to_namespace(jax.numpy, dtype="float64")
            BaseSamples.from_samples(s, xp=jax.numpy, dtype="float64")
        chk.count("early_jax_lookup:done_with_x64_off")
    except Exception:   # noqa - what happens with x64 off is not checked, only that it leaves no trace
        chk.count("early_jax_lookup:raised_with_x64_off")


def all_cells(field_sets):
    return [(c, s, w, t, sp, m, f) for c in CLS for s in NSS for w in WS for t in NSS for sp in SPECS for m in METHODS for f in field_sets]


def run(chk: core.Check):
    quick = chk.tier == "quick"
    chk.rule = ("the complete conversion table (class x source namespace x width x target namespace x 9 dtype spellings x 3 methods"
                f"{' x 3 field subsets' if not quick else ', all fields present; field subsets in the thorough tier'}), sampler runs over namespace x width "
                "incl. resume, the xp= output option for all 9 pairs, a real zuko proposal consumed in 3 namespaces; non-trivial = cross-namespace or explicit dtype")
    chk.trusted += ["library rules of numpy/torch/jax asarray on foreign dtype objects (parameters of the model, validated by this run)",
                    "jax runs with x64 enabled (as in the repository's test-suite)"]
    early_jax_lookup(chk)
    cells = all_cells(("all",) if quick else ("all", "some", "none"))
    if quick:   # sets WITHOUT the full log-density triple (what SMC / MCMC return): attached evidence is carried, not recomputed
        cells += [c for c in all_cells(("some",)) if c[4][0] == "none"]
    cells += [c for c in all_cells(("some+floats",)) if c[4][0] == "none" and c[0] != "base"]
    chk.exhaustive = True
    chk.extra["table_cells"] = len(cells)
    for i in range(0, len(cells), 800):
        check_table(chk, cells[i:i + 800])
    check_sampler_precision(chk, quick)
    check_output_option(chk)
    check_precision_reaches_backend(chk)
    check_repeated_conversion(chk)
    check_proposal_outputs(chk)

    def search():
        return None

    return search


def replay(chk: core.Check, path: str) -> int:
    doc = json.loads(open(path).read())
    p = doc["payload"]
    cases = [p["case"]] if "case" in p else [d["case"] for d in p.get("correspondence", [])]
    cells = [(c["cls"], c["src"], c["width"], c["tgt"], tuple(c["spec"]), c["method"], c.get("fields", "all")) for c in cases if "cls" in c]
    check_table(chk, cells)
    if not cells:
        check_sampler_precision(chk, True); check_output_option(chk); check_proposal_outputs(chk)
    for f in chk.failures[:10]:
        print("FAIL", f["clause"], f["detail"])
    print(f"replayed: {len(chk.failures)} oracle failure(s), {len(chk.disagreements)} disagreement(s)")
    return 1 if (chk.failures or chk.disagreements) else 0
