"""C18 — the diagnostic history is a faithful record of the run (also after interrupt + resume).

Every run (fresh, or interrupted by a fault at a likelihood call and resumed from the last checkpoint)
is checked against the property's clauses (one entry per iteration in every populated series, stored
populations = initial + one per iteration without repeats, each recorded temperature / ESS / ratio equals
its definition recomputed from the neighbouring stored populations) and replayed through the loop model
(Model/Smc.lean, driver op `smcloop`), which must reproduce every series.
"""
from __future__ import annotations

import json
import math

import numpy as np

from .. import core, ns, smcrun
from . import c06

TOL = 1e-6


def ref_step(pop, b0, b1):
    """definitions recomputed from a stored population: ratio, variance, ess at b1, ess at 1"""
    lw = pop["ll"] + pop["lp"] - pop["lq"]
    n = len(lw)

    def stats(t):
        a = (t - b0) * lw
        m = float(np.max(a))
        u = np.exp(a - m)
        s1, s2 = math.fsum(u), math.fsum(u * u)
        mean = s1 / n
        var = math.fsum((u - mean) ** 2) / n
        return m + math.log(s1 / n), var / (n * mean * mean), s1 * s1 / s2

    r, v, e = stats(b1)
    _, _, e1 = stats(1.0)
    return r, v, e, e1


def gen_cfg(r, i):
    cfg = {"seed": int(r.integers(1, 100000)), "n_samples": int(r.choice([10, 16, 24])), "dims": int(r.choice([1, 2])),
           "like_width": float(r.choice([0.25, 0.5, 1.0])), "kernel_steps": 2}
    mode = ["adaptive", "fixed", "max_n_steps", "min_step", "ramp", "final", "cap", "degenerate"][i % 8]
    if mode == "fixed":
        cfg.update(adaptive=False, n_steps=int(r.choice([2, 3, 5, 7])))
    elif mode == "max_n_steps":
        cfg.update(max_n_steps=int(r.integers(2, 7)))
    elif mode == "min_step":
        cfg.update(min_step=float(r.choice([0.1, 0.3])))
    elif mode == "ramp":
        cfg.update(target_efficiency=(0.25, 0.75))
    elif mode == "cap":          # explicit floor + cap: the run stops at the cap with beta < 1
        cfg.update(min_step=0.01, max_n_steps=int(r.integers(1, 4)), like_width=0.3)
    elif mode == "degenerate":   # weights already degenerate at the smallest resolvable step: the fallback step is taken
        cfg.update(like_width=float(10 ** r.uniform(-5.5, -4)), n_samples=10, dims=1, max_n_steps=int(r.choice([2, 3])), min_step=1e-9)
    if mode not in ("ramp", "degenerate") and r.random() < 0.3:
        cfg.update(target_efficiency=(float(r.choice([0.15, 0.3])), float(r.choice([0.6, 0.9]))),
                   target_efficiency_rate=float(r.choice([0.25, 1.0, 3.0])))
    if mode in ("adaptive", "fixed") and r.random() < 0.4:
        # a proposal that (almost) is the posterior: incremental weights uniform to 1e-5 .. 1e-9 (tiny per-step variances)
        cfg["like_width"] = float(10 ** r.uniform(3, 5))
    if r.random() < 0.3:      # unnormalised likelihood: a large common offset of every log-likelihood value
        cfg["like_offset"] = float(r.choice([-1e5, -2e3, 3e3, 1e6]))
    if mode == "final" or r.random() < 0.25:
        cfg["n_final_samples"] = int(cfg["n_samples"] * r.choice([0.5, 2]))
    if mode in ("adaptive", "fixed", "ramp") and "like_offset" not in cfg and cfg["like_width"] <= 1.0 and i % 3 == 0:
        # a hard constraint coded inside the likelihood: log L = -inf on part of the proposal's support, so some particles of the INITIAL
        # population have zero likelihood - the recorded series are still those of the recorded populations
        cfg.update(like_cut=float(r.choice([-0.5, 0.0, 0.4])), target_efficiency=cfg.get("target_efficiency", 0.3) if not isinstance(cfg.get("target_efficiency"), tuple) else cfg["target_efficiency"])
    cfg["checkpoint_every"] = int(r.choice([1, 1, 2, 3]))
    if (i // 8) % 2 == 1 and mode in ("adaptive", "fixed", "ramp", "final"):
        # the other runnable SMC kernel: it fills one more diagnostic series (mcmc_autocorr)
        cfg["sampler"] = "emcee_smc"
    return cfg, mode


def check_history(chk, case, res, resumed=False):
    """the property's clauses on one finished run"""
    full = res["cfg"]
    h = res["sampler"].history
    rec = smcrun.history_record(h)
    its = len(rec["beta"])
    # (the size that matters is that of the population the run really carries: a resumed call's own `n_samples` is not it)
    pop_size = len(rec["pops"][0]["ll"]) if rec["pops"] else full["n_samples"]
    sig = {"resumed": resumed, "n_final": full["n_final_samples"] is not None and full["n_final_samples"] != pop_size}
    for name in ("ess", "ess_target", "eff_target", "ratio", "var"):
        if len(rec[name]) != its:
            chk.fail("one entry per iteration in every series", case, f"{name}: {len(rec[name])} entries for {its} iterations",
                     {**sig, "clause": "length", "series": name})
    if len(rec["accept"]) not in (0, its):
        chk.fail("one entry per iteration in every series", case,
                 f"mcmc_acceptance: {len(rec['accept'])} entries for {its} iterations", {**sig, "clause": "length", "series": "mcmc_acceptance"})
    n_auto = len(getattr(h, "mcmc_autocorr", []) or [])
    if n_auto not in (0, its):
        chk.fail("one entry per iteration in every series", case,
                 f"mcmc_autocorr: {n_auto} entries for {its} iterations", {**sig, "clause": "length", "series": "mcmc_autocorr", "entries_minus_iterations": n_auto - its})
    if len(rec["pops"]) != its + 1:
        chk.fail("stored populations = initial + one per iteration", case,
                 f"{len(rec['pops'])} stored populations for {its} iterations", {**sig, "clause": "pops_length"})
    for t in range(len(rec["pops"]) - 1):
        a, b = rec["pops"][t], rec["pops"][t + 1]
        if a["x"].shape == b["x"].shape and np.array_equal(a["x"], b["x"]) and a["beta"] == b["beta"]:
            chk.fail("no stored population repeated", case, f"entries {t} and {t + 1} are the same population", {**sig, "clause": "repeat"})
    betas = [0.0] + rec["beta"]
    eps = 1e-9
    for t in range(min(its, len(rec["pops"]) - 1)):
        pop = rec["pops"][t]
        if pop["beta"] is not None and abs(pop["beta"] - betas[t]) > 0:
            chk.fail("stored population carries its temperature", case, f"population {t} has beta {pop['beta']} but the recorded one is {betas[t]}",
                     {**sig, "clause": "pop_beta"})
        r, v, e, e1 = ref_step(pop, betas[t], betas[t + 1])
        fin_ll = pop["ll"][np.isfinite(pop["ll"])]          # (zero-likelihood particles have log L = -inf: they do not set the scale)
        top = float(np.max(np.abs(fin_ll))) if len(fin_ll) else 0.0
        scale = abs(betas[t + 1] - betas[t]) * (top + 10) + 1
        if t < len(rec["ratio"]) and not core.close(rec["ratio"][t], r, 0, 1e-9 * scale):
            chk.fail("recorded ratio equals its definition", case, f"iteration {t + 1}: {rec['ratio'][t]!r} vs {r!r}", {**sig, "clause": "ratio"})
        if t < len(rec["ess"]) and not core.close(rec["ess"][t], e, 1e-7 * scale):
            chk.fail("recorded ESS equals its definition", case, f"iteration {t + 1}: {rec['ess'][t]!r} vs {e!r}", {**sig, "clause": "ess"})
        if t < len(rec["var"]) and not core.close(rec["var"][t], v, 1e-6 * scale, 1e-12):
            chk.fail("recorded variance equals its definition", case, f"iteration {t + 1}: {rec['var'][t]!r} vs {v!r}", {**sig, "clause": "var"})
        if t < len(rec["ess_target"]) and not core.close(rec["ess_target"][t], e1, 1e-6 * max(scale, top + 1)):
            chk.fail("recorded target ESS equals its definition", case, f"iteration {t + 1}: {rec['ess_target'][t]!r} vs {e1!r}", {**sig, "clause": "ess_target"})
    # each recorded TEMPERATURE equals its definition: on a fixed ladder the next grid point above the previous temperature; on an adaptive
    # schedule without any floor option the ESS-limited one (meets the target in force, maximal within the tolerance), or 1
    te0 = full["target_efficiency"]
    if its and len(rec["pops"]) == its + 1:
        from .c07 import eff_np
        tol_b = 1e-6
        for t in range(its):
            b0, b1, pop = betas[t], betas[t + 1], rec["pops"][t]
            if not full["adaptive"]:
                n_ = full["n_steps"]
                exp_b = min(1.0, (round(b0 * n_) + 1) / n_)
                if abs(b1 - exp_b) > 1e-12:
                    chk.fail("recorded temperature equals its definition", case, f"iteration {t + 1} of a fixed ladder of {n_}: {b0!r} -> {b1!r}, the next grid point is {exp_b!r}",
                             {**sig, "clause": "temperature", "schedule": "fixed"})
                    break
            elif full["min_step"] is None and full["max_n_steps"] is None:
                target = te0 if isinstance(te0, float) else te0[0] + (te0[1] - te0[0]) * b0 ** full["target_efficiency_rate"]
                e_full = eff_np(pop, b0, 1.0)
                if e_full >= target + 1e-7:
                    if b1 != 1.0:
                        chk.fail("recorded temperature equals its definition", case, f"iteration {t + 1}: {b0} -> {b1} although the full step meets the target ({e_full:.6f} >= {target:.6f})",
                                 {**sig, "clause": "temperature", "schedule": "adaptive"})
                        break
                    continue
                if b1 == 1.0 and e_full >= target - 1e-7:
                    continue
                if eff_np(pop, b0, min(1.0, b0 + tol_b)) < target - 1e-7:
                    continue        # no resolvable step: the smallest one is taken
                e1, e2 = eff_np(pop, b0, b1), eff_np(pop, b0, min(1.0, b1 + 4 * tol_b))
                if e1 < target - 1e-6 or (e2 >= target + 1e-6 and b1 < 1.0):
                    chk.fail("recorded temperature equals its definition", case,
                             f"iteration {t + 1}: {b0} -> {b1}: ESS/N there {e1:.6f}, at beta + 4 tol {e2:.6f}, target in force {target:.6f} (no floor option was given)",
                             {**sig, "clause": "temperature", "schedule": "adaptive"})
                    break
    te = full["target_efficiency"]
    for t in range(min(its, len(rec["eff_target"]))):
        exp = te if isinstance(te, float) else te[0] + (te[1] - te[0]) * rec["beta"][t] ** full["target_efficiency_rate"]
        if not core.close(rec["eff_target"][t], exp, 1e-12):
            chk.fail("recorded target efficiency equals its definition", case, f"iteration {t + 1}: {rec['eff_target'][t]} vs {exp}", {**sig, "clause": "eff_target"})
    return rec


def compare_with_model(chk, case, rec, m, resumed=False):
    if m["status"] != "done":
        chk.disagree("smcloop.status", case, m["status"], "done")
        return
    betas = rec["beta"]
    if len(m["beta"]) != len(betas) or not core.all_close(m["beta"], betas, 1e-15, 3 * TOL):
        if c06.knife_edge_run(case, rec, m["beta"], betas):
            chk.knife_edge += 1
        else:
            chk.disagree("smcloop.beta", case, m["beta"], betas)
        return
    for name, tol in (("ess", 1e-5), ("ess_target", 1e-5), ("eff_target", 1e-5), ("ratio", 1e-5), ("var", 1e-4)):
        # beta may differ by 3*TOL between model and implementation: series are compared loosely here and exactly
        # (against their definitions) by the oracle above
        if len(m[name]) != len(rec[name]):
            chk.disagree(f"smcloop.{name}.length", case, len(m[name]), len(rec[name]))
        elif not core.all_close(m[name], rec[name], tol * 50, 1e-4):
            chk.disagree(f"smcloop.{name}", case, m[name], rec[name])
    if m["npops"] != len(rec["pops"]):
        chk.disagree("smcloop.sample_history.length", case, m["npops"], len(rec["pops"]))
    if "final" in rec and not core.close(m["logZ"], rec["final"]["logZ"], 0, 1e-4 + 1e-6 * abs(m["logZ"])):
        chk.disagree("smcloop.log_evidence", case, m["logZ"], rec["final"]["logZ"])


def run_one(chk, cfg, mode, drv_lines, keep, with_resume):
    ev = cfg.get("checkpoint_every")
    res = smcrun.run_smc(cfg, record_checkpoints=True)
    case = {"cfg": cfg, "mode": mode}
    chk.count(f"mode:{mode}")
    key = json.dumps(cfg)
    betas = [float(b) for b in res["sampler"].history.beta] if res["sampler"].history else []
    chk.case({"cfg": cfg, "mode": mode, "status": res["status"], "iterations": len(betas)} if chk.evaluations < 8 else None,
             key if len(betas) >= 2 else None)
    if smcrun.collapsed_population(res):
        chk.count("skipped:population_collapsed_rejected_by_library")
        return
    if res["status"] != "done":
        chk.fail("run total", case, repr(res.get("exc")), {"clause": "raise"})
        return
    rec = check_history(chk, case, res)
    rec0 = c06.record_run(res)
    drv_lines.append(c06.loop_line(cfg, rec0, res["rng"], every=ev))
    keep.append((case, rec0, False))
    if not with_resume:
        return
    # interrupted + resumed: fault at a likelihood call strictly inside the run
    n_like = res["target"].n_like
    ks = sorted(set(int(v) for v in np.linspace(1, max(1, n_like - 1), 4)))
    import tempfile
    tmp = tempfile.mkdtemp(prefix="aspire_verif_")
    # a second fresh run on the SAME sampler object: its record must be the record of that run alone
    if cfg["seed"] % 2 == 0:
        r7 = smcrun.run_smc({**cfg, "seed": int(cfg["seed"]) + 3}, reuse=res)
        chk.count("second_run_on_same_object")
        if r7["status"] == "done":
            check_history(chk, dict(case, second_run_on_same_sampler=True), r7)
        elif not smcrun.collapsed_population(r7):
            chk.fail("run total", dict(case, second_run_on_same_sampler=True), repr(r7.get("exc")), {"clause": "raise"})
    ks = sorted(set(ks) | set(int(v) for v in np.linspace(2, max(2, n_like - 1), 9)))
    for j, k in enumerate(ks):
        r1 = smcrun.run_smc(cfg, fault_at=k, record_checkpoints=True)
        if r1["status"] == "done":
            # the one-off failure of the likelihood did not end the run (it was absorbed, e.g. by a retry): the record of the
            # finished run must still be faithful
            chk.count("transient_fault_absorbed")
            check_history(chk, {"cfg": cfg, "mode": mode, "transient_fault_at_likelihood_call": k}, r1)
            continue
        if r1["status"] != "fault":
            continue
        route = smcrun.ROUTES[(j + cfg["seed"]) % 4]
        src = smcrun.make_source(r1, route, tmp)
        chk.count("resumed_runs")
        chk.count(f"route:{route}")
        # every other resume asks for ANOTHER number of samples than the checkpoint holds (the top-level default is 1000): the record of the
        # continued run is still the record of the populations it stores
        cfg_r = cfg if j % 2 == 0 or src is None else {**cfg, "n_samples": int(cfg["n_samples"] * (2 if j % 4 == 1 else 0.5))}
        r2 = smcrun.resume_smc(cfg_r, src, record_checkpoints=True) if src is not None else smcrun.run_smc(cfg, record_checkpoints=True)
        c2 = {"cfg": cfg, "mode": mode, "fault_at_likelihood_call": k, "route": route, "resumed_from_iteration": r1["ckpts"][-1]["iteration"] if r1["ckpts"] else None,
              "n_samples_of_the_resumed_call": cfg_r["n_samples"]}
        chk.case(None, key + f"/fault{k}")
        if r2["status"] != "done":
            chk.fail("resumed run total", c2, repr(r2.get("exc")), {"clause": "raise", "resumed": True})
            continue
        check_history(chk, c2, r2, resumed=True)
        last_resumed = r2
    # the object that CONTINUED this run is used for a fresh run without the floor options of the first one: its record is the record of
    # a run in which no floor is in force
    if (cfg.get("min_step") is not None or cfg.get("max_n_steps") is not None) and "last_resumed" in locals() and res["cfg"]["sampler"] == "minipcn_smc":
        cfg_f = {k: v for k, v in cfg.items() if k not in ("min_step", "max_n_steps", "checkpoint_every")}
        cfg_f["seed"] = int(cfg["seed"]) + 13
        r8 = smcrun.run_smc(cfg_f, reuse=last_resumed)
        chk.count("fresh_run_on_an_object_that_resumed")
        if r8["status"] == "done":
            check_history(chk, {"cfg": cfg_f, "mode": mode, "same_object_first_resumed": cfg}, r8)
    import shutil
    shutil.rmtree(tmp, ignore_errors=True)


def run(chk: core.Check):
    r = np.random.default_rng(chk.seed + 18018)
    quick = chk.tier == "quick"
    chk.rule = ("whole MiniPCNSMC runs (kernel doubles) over schedule options x n_final_samples x checkpoint cadence x seed, each also "
                "interrupted by a fault at 4 likelihood-call indices and resumed from the last checkpoint; non-trivial = at least two "
                "iterations; distinct = different (configuration, fault index)")
    chk.trusted += ["the MCMC kernels are test doubles; numpy exp/log; pickle round-trips the checkpoint"]
    drv = core.LeanDriver()
    lines, keep = [], []
    n = 12 if quick else 200
    for i in range(n):
        cfg, mode = gen_cfg(r, i)
        run_one(chk, cfg, mode, lines, keep, with_resume=True)
    reps = drv.batch(lines)
    for (case, rec, resumed), rep in zip(keep, reps):
        if not rep.ok:
            raise core.HarnessError(rep.err)
        compare_with_model(chk, case, rec, c06.parse_loop(rep), resumed)

    def search():
        sub = core.Check(chk.pid, chk.tier, chk.seed)
        sub.known, sub.matchers = chk.known, chk.matchers
        rr = np.random.default_rng(chk.seed + 555)
        for i in range(40):
            cfg, mode = gen_cfg(rr, i)
            run_one(sub, cfg, mode, [], [], with_resume=True)
            if sub.failures:
                return sub.failures[0]
        return None

    return search


def m_accept_extra(rec, sig):
    s = rec["signature"]
    # (the same extra mutation also appends to mcmc_autocorr where the kernel fills it: exactly ONE extra entry)
    return s.get("clause") == "length" and s.get("n_final") and (
        s.get("series") == "mcmc_acceptance" or (s.get("series") == "mcmc_autocorr" and s.get("entries_minus_iterations") == 1))


MATCHERS = {"mcmc_acceptance_extra_entry_final_enlargement": m_accept_extra}


def replay(chk: core.Check, path: str) -> int:
    doc = json.loads(open(path).read())
    p = doc["payload"]
    cases = [p["case"]] if "case" in p else [d["case"] for d in p.get("correspondence", [])]
    for c in cases:
        run_one(chk, dict(c["cfg"]), c.get("mode", "replay"), [], [], with_resume=True)
    for f in chk.failures:
        print("FAIL", f["clause"], f["detail"])
    print(f"replayed {len(cases)} case(s): {len(chk.failures)} oracle failure(s); known-finding hits {chk.known_hits}")
    return 1 if chk.failures else 0
