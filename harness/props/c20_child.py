"""Child process of the C20 check: one analysis in a FRESH interpreter, printed as digests (JSON on the last line).

usage: python -m harness.props.c20_child <mode>
  mode "alone":   the reference analysis only
  mode "after":   an unrelated analysis of another dimensionality first (default options), then the reference analysis
The reference analysis: (a) a MiniPCNSMC run with DEFAULT kernel options and an explicit generator on a 3-d target, (b) a flow
preconditioning transform (zuko back-end) built and trained with an explicit seed on fixed data.
"""
import hashlib
import json
import sys

import numpy as np

from harness import core

if str(core.STUBS) not in sys.path:
    sys.path.append(str(core.STUBS))      # kernel doubles, as in the parent (real packages win if installed)


def digest(*arrays):
    h = hashlib.sha256()
    for a in arrays:
        h.update(np.ascontiguousarray(np.asarray(a, dtype=np.float64)).tobytes())
    return h.hexdigest()[:24]


def smc_run(dims, seed):
    from aspire.samplers.smc.minipcn import MiniPCNSMC

    from harness import smcrun

    target = smcrun.Target(dims, width=0.7)
    flow = smcrun.make_proposal(dims, seed=seed + 17)
    s = MiniPCNSMC(log_likelihood=target.log_likelihood, log_prior=target.log_prior, dims=dims, prior_flow=flow, xp=np,
                   parameters=[f"p{i}" for i in range(dims)], rng=np.random.default_rng(seed))
    out = s.sample(16, adaptive=False, n_steps=2)      # no sampler_kwargs: the kernel runs with the library's defaults
    return digest(out.x, out.log_likelihood, [float(out.log_evidence)], [float(b) for b in s.history.mcmc_acceptance])


def precond_flow(seed):
    import torch

    from aspire.transforms import FlowPreconditioningTransform

    torch.set_num_threads(1)
    data = np.random.default_rng(3).normal(0.2, 0.7, (64, 2))
    t = FlowPreconditioningTransform(parameters=["a", "b"], prior_bounds={"a": [-6.0, 6.0], "b": [-6.0, 6.0]}, flow_backend="zuko", xp=np,
                                     flow_kwargs={"seed": seed}, fit_kwargs={"n_epochs": 2})
    z = t.fit(data)
    y, lj = t.forward(data[:8])
    return digest(z, y, lj)


def main():
    mode = sys.argv[1]
    out = {}
    if mode == "after":
        smc_run(2, 99)          # somebody else's analysis, earlier in the same process
    out["smc_default_options"] = smc_run(3, 5)
    try:
        out["preconditioning_flow"] = precond_flow(7)
    except Exception as e:   # noqa
        out["preconditioning_flow"] = "ERROR " + repr(e)[:200]
    print(json.dumps(out))


if __name__ == "__main__":
    main()
