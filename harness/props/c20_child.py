"""Child process of the C20 check: one analysis in a FRESH interpreter, printed as digests (JSON on the last line).

usage: python -m harness.props.c20_child <mode>
  mode "alone":   the reference analysis only
  mode "after":   unrelated work first - an analysis of another dimensionality (default options), a double-precision zuko fit that FAILS
                  (non-finite training data), a double-precision flowjax proposal that is merely built - then the reference analysis
The reference analysis: (a) a MiniPCNSMC run with DEFAULT kernel options and an explicit generator on a 3-d target, (b) a flow
preconditioning transform (zuko back-end) built and trained with an explicit seed on fixed data, (c) a flowjax proposal of DEFAULT
precision built with an explicit key and trained on fixed data (jax in the mode the process started in).
"""
import hashlib
import json
import sys

import numpy as np

from harness import core

if str(core.STUBS) not in sys.path:
    sys.path.append(str(core.STUBS))      # kernel doubles, as in the parent (real packages win if installed)


def digest(*arrays):
    h = hashlib.sha256()
    for a in arrays:
        h.update(np.ascontiguousarray(np.asarray(a, dtype=np.float64)).tobytes())
    return h.hexdigest()[:24]


def smc_run(dims, seed):
    from aspire.samplers.smc.minipcn import MiniPCNSMC

    from harness import smcrun

    target = smcrun.Target(dims, width=0.7)
    flow = smcrun.make_proposal(dims, seed=seed + 17)
    s = MiniPCNSMC(log_likelihood=target.log_likelihood, log_prior=target.log_prior, dims=dims, prior_flow=flow, xp=np,
                   parameters=[f"p{i}" for i in range(dims)], rng=np.random.default_rng(seed))
    out = s.sample(16, adaptive=False, n_steps=2)      # no sampler_kwargs: the kernel runs with the library's defaults
    return digest(out.x, out.log_likelihood, [float(out.log_evidence)], [float(b) for b in s.history.mcmc_acceptance])


def precond_flow(seed):
    import torch

    from aspire.transforms import FlowPreconditioningTransform

    torch.set_num_threads(1)
    data = np.random.default_rng(3).normal(0.2, 0.7, (64, 2))
    t = FlowPreconditioningTransform(parameters=["a", "b"], prior_bounds={"a": [-6.0, 6.0], "b": [-6.0, 6.0]}, flow_backend="zuko", xp=np,
                                     flow_kwargs={"seed": seed}, fit_kwargs={"n_epochs": 2})
    z = t.fit(data)
    y, lj = t.forward(data[:8])
    return digest(z, y, lj)


def flowjax_run(key):
    import jax

    from aspire.flows import get_flow_wrapper

    F, fxp = get_flow_wrapper("flowjax")
    f = F(dims=2, device="cpu", key=jax.random.key(key))
    data = np.random.default_rng(4).normal(0.1, 0.6, (64, 2)).astype(np.float32)
    h = f.fit(data, max_epochs=2)
    x, lq = f.sample_and_log_prob(8)
    return digest(np.asarray(x), np.asarray(lq), np.asarray(h.training_loss, dtype=float))


def unrelated_failures():
    """work that ends badly or goes nowhere, and must leave no trace in the process"""
    import jax
    import torch

    from aspire.flows import get_flow_wrapper

    torch.set_num_threads(1)
    Z, _ = get_flow_wrapper("zuko")
    z = Z(dims=2, device="cpu", dtype="float64", seed=1)
    bad = np.random.default_rng(0).normal(size=(40, 2))
    bad[3, 1] = np.nan
    try:
        z.fit(bad, n_epochs=1)
    except (ValueError, RuntimeError):
        pass
    try:
        J, _ = get_flow_wrapper("flowjax")
        J(dims=2, device="cpu", dtype="float64", key=jax.random.key(0))
    except Exception:   # noqa: BLE001 - whether such a flow can be built in 32-bit mode is not the subject
        pass


def main():
    mode = sys.argv[1]
    out = {}
    if mode == "after":
        smc_run(2, 99)          # somebody else's analysis, earlier in the same process
        try:
            unrelated_failures()
        except Exception as e:   # noqa
            out["unrelated_work"] = "ERROR " + repr(e)[:200]
    out["smc_default_options"] = smc_run(3, 5)
    try:
        out["preconditioning_flow"] = precond_flow(7)
    except Exception as e:   # noqa
        out["preconditioning_flow"] = "ERROR " + repr(e)[:200]
    try:
        out["flowjax_default_precision"] = flowjax_run(11)
    except Exception as e:   # noqa
        out["flowjax_default_precision"] = "ERROR " + repr(e)[:200]
    print(json.dumps(out))


if __name__ == "__main__":
    main()
