"""C12 — an interrupted run always leaves a loadable, current checkpoint file.

unit : `dump_pickle_to_hdf` on random payload-size sequences (growing and shrinking) into a real HDF5 file  vs
       the Lean model (`Model/CkptFile.lean`, op `dump`); the dataset must equal the last payload byte for byte.
run  : `Aspire.sample_posterior(sampler="smc", checkpoint_path=…)` (and the `auto_checkpoint` context) with the
       entry-point stub proposal and the kernel doubles, cadence 1..4, optional n_final_samples (also smaller than
       n_samples), optionally over a file that already holds a larger checkpoint from a previous run; a fault is injected at
       every likelihood-call index (and at prior calls).  After each fault the file must contain configuration, proposal
       and byte-for-byte the payload of the last callback, checkpoints must have been written exactly at the multiples of
       the cadence (plus the forced one at the end of a finished run), and the documented route
       `Aspire.resume_from_file(...).sample_posterior()` must load it and finish like the uninterrupted run.
"""
from __future__ import annotations

import json
import os
import pickle
import shutil
import tempfile
from io import BytesIO

import numpy as np

from .. import aspire_level as al
from .. import core, ns, smcrun


# ----------------------------------------------------------------------------- unit level
def check_dump_units(chk, r, n_seq):
    import h5py

    from aspire.utils import dump_pickle_to_hdf

    drv = core.LeanDriver()
    tmp = tempfile.mkdtemp(prefix="aspire_verif_")
    lines, finals, cases = [], [], []
    try:
        for s in range(n_seq):
            k = int(r.integers(1, 7))
            sizes = [int(v) for v in r.choice([0, 1, 2, 3, 5, 8, 13, 40], k)]
            blobs = [bytes(int(v) for v in r.integers(1, 256, n)) for n in sizes]
            path = os.path.join(tmp, f"u{s}.h5")
            kind = ["none", "grow", "shrink", "mixed"][0 if k == 1 else 1 if sizes == sorted(sizes) else 2 if sizes == sorted(sizes, reverse=True) else 3]
            chk.count(f"dump_sequence:{kind}")
            with h5py.File(path, "a") as f:
                for b in blobs:
                    dump_pickle_to_hdf(BytesIO(b), f, path="checkpoint", dsetname="state")
            with h5py.File(path, "r") as f:
                got = f["checkpoint"]["state"][...].tobytes()
            os.remove(path)
            case = {"level": "dump", "sizes": sizes}
            chk.case(case if chk.evaluations < 4 else None, json.dumps([sizes, blobs[-1][:4].hex()]) if k > 1 else None)
            if got != blobs[-1]:
                chk.fail("the dataset holds byte-for-byte the most recent payload", case,
                         f"payload sizes {sizes}: dataset has {len(got)} bytes, last payload {len(blobs[-1])}; "
                         f"{'stale suffix' if got[:len(blobs[-1])] == blobs[-1] else 'content differs'}", {"level": "dump", "clause": "bytes"})
            lines.append("f64 dump " + " ".join([str(len(blobs))] + [" ".join([str(len(b))] + [str(v) for v in b]) for b in blobs]))
            finals.append(got)
            cases.append(case)
        for case, got, rep in zip(cases, finals, drv.batch(lines)):
            if not rep.ok:
                raise core.HarnessError(rep.err)
            m = bytes(rep.ns()) if rep.t[0] != "none" else None
            if m != got:
                chk.disagree("dump_pickle_to_hdf", case, None if m is None else len(m), len(got))
        # large payloads (a checkpoint with its sample history is many MiB): growing and shrinking across several MiB, checked against
        # the payload itself (not sent through the line protocol)
        MiB = 1 << 20
        for seq in ([3 * MiB, 5 * MiB + 17, int(4.5 * MiB), int(8.2 * MiB), int(7.9 * MiB), int(8.1 * MiB)], [9 * MiB + 1, 2 * MiB, 6 * MiB + 5]):
            path = os.path.join(tmp, "big.h5")
            chk.count("dump_sequence:large")
            case = {"level": "dump", "sizes": seq}
            chk.case(None, json.dumps(seq))
            with h5py.File(path, "a") as f:
                for j, nbytes in enumerate(seq):
                    b = (np.arange(nbytes, dtype=np.uint32) * 2654435761 % 251 + 1).astype(np.uint8).tobytes()
                    dump_pickle_to_hdf(BytesIO(b), f, path="checkpoint", dsetname="state")
                    got = f["checkpoint"]["state"][...].tobytes()
                    if got != b:
                        bad = next((t for t in range(min(len(got), len(b))) if got[t] != b[t]), min(len(got), len(b)))
                        chk.fail("the dataset holds byte-for-byte the most recent payload", dict(case, after_write=j),
                                 f"after writing payload {j} ({nbytes} bytes) over {seq[j - 1] if j else 0} bytes: dataset has {len(got)} bytes, first difference at byte {bad}"
                                 f"{' (zero from there on)' if not any(got[bad:bad + 4096]) else ''}", {"level": "dump", "clause": "bytes", "large": True})
                        break
            os.remove(path)
    finally:
        shutil.rmtree(tmp, ignore_errors=True)


# ----------------------------------------------------------------------------- run level
def gen_cfg(r, i):
    cfg = {"seed": int(r.integers(1, 100000)), "dims": int(r.choice([1, 2])), "n_samples": int(r.choice([8, 12])), "kernel_steps": 2,
           "every": int(r.choice([1, 1, 2, 3, 4])), "like_width": float(r.choice([0.3, 0.6])),
           "route": ["path", "auto", "explicit_in_context", "auto"][i % 4], "pre_existing": bool(i % 4 == 3),
           "auto_pre": ["none", "fit", "importance", "refit", "none", "refit"][i % 6],
           # how the interruption arrives: an ordinary exception or a KeyboardInterrupt (Ctrl-C / SIGINT)
           "fault_kind": "interrupt" if i % 3 == 1 else "exception"}
    if cfg["auto_pre"] == "refit":
        cfg["route"] = "auto"
    # a periodic parameter: the default preconditioning of the kernel samplers then wraps proposals across the seam (the resumed
    # object, rebuilt from the stored configuration, must precondition in the same way)
    cfg["periodic"] = bool(i % 3 == 0)
    m = i % 5
    if m == 1:
        cfg["n_final_samples"] = int(cfg["n_samples"] // 2)       # the forced final payload holds a smaller population
    elif m == 2:
        cfg["n_final_samples"] = int(cfg["n_samples"] * 2)
    elif m == 3:
        cfg.update(adaptive=False, n_steps=int(r.choice([3, 5])))
    elif m == 4:
        cfg["max_n_steps"] = int(r.integers(2, 6))
    return cfg


def one_run(cfg, path, fault_at=None, fault_prior_at=None, log=None):
    target = smcrun.Target(cfg["dims"], width=cfg["like_width"])
    target.fault_at, target.fault_prior_at = fault_at, fault_prior_at
    target.fault_exc = smcrun.FaultInterrupt if cfg.get("fault_kind") == "interrupt" else smcrun.Fault
    extra = {"periodic_parameters": ["p0"]} if cfg.get("periodic") else {}
    if cfg.get("no_bounds"):
        extra["prior_bounds"] = None
    a = al.make_aspire(target, dims=cfg["dims"], flow_seed=cfg["seed"] % 1000, **extra)
    pre = cfg.get("auto_pre", "none") if cfg["route"] == "auto" else "none"
    if pre not in ("fit", "refit"):
        a.fit(al.training_samples(cfg["dims"], cfg["seed"]))
    kw = al.smc_kwargs(cfg)
    out = {"target": target, "aspire": a}
    with al.orng_seed(cfg["seed"]), al.observe_checkpoints(log if log is not None else [], path):
        try:
            if cfg["route"] == "auto":
                with a.auto_checkpoint(path, every=cfg["every"]):
                    # earlier steps inside the same context (multi-step use of one checkpoint file)
                    if pre == "fit":
                        a.fit(al.training_samples(cfg["dims"], cfg["seed"]))
                    elif pre == "refit":
                        # a whole earlier cycle in the same context: fit, a finished SMC run, then a REFIT on other data
                        fa, fp = target.fault_at, target.fault_prior_at
                        target.fault_at = target.fault_prior_at = None
                        a.fit(al.training_samples(cfg["dims"], cfg["seed"] + 1, center=0.4, spread=1.3))
                        n_l, n_p = target.n_like, target.n_prior
                        a.sample_posterior(**kw)
                        if log:                      # checkpoints of the earlier run are not checkpoints of the run under test
                            out["pre_payload"] = log[-1]["bytes"]
                            del log[:]
                        a.fit(al.training_samples(cfg["dims"], cfg["seed"]))
                        target.fault_at = None if fa is None else fa + (target.n_like - n_l)
                        target.fault_prior_at = None if fp is None else fp + (target.n_prior - n_p)
                    elif pre == "importance":
                        fa, fp = target.fault_at, target.fault_prior_at
                        target.fault_at = target.fault_prior_at = None
                        a.sample_posterior(n_samples=5, sampler="importance")
                        target.fault_at = None if fa is None else fa + 1
                        target.fault_prior_at = None if fp is None else fp + 1
                    s, h = a.sample_posterior(return_history=True, **kw)
            elif cfg["route"] == "explicit_in_context":
                # an explicit file and cadence given while a context for ANOTHER file (and another cadence) is active
                with a.auto_checkpoint(path + ".other.h5", every=cfg["every"] + 2):
                    s, h = a.sample_posterior(return_history=True, checkpoint_path=path, checkpoint_every=cfg["every"], **kw)
            else:
                s, h = a.sample_posterior(return_history=True, checkpoint_path=path, checkpoint_every=cfg["every"], **kw)
            out.update(status="done", samples=s, history=h)
        except smcrun.FAULTS as e:
            out.update(status="fault", exc=e)
        except Exception as e:   # noqa
            out.update(status="raised", exc=e)
    out["sampler"] = getattr(a, "_sampler", None)
    return out


def check_cfg(chk, cfg, all_faults=True):
    tmp = tempfile.mkdtemp(prefix="aspire_verif_")
    e = cfg["every"]
    try:
        def fresh_path(tag):
            p = os.path.join(tmp, f"{tag}.h5")
            if cfg["pre_existing"]:
                # the file already holds a (larger) finished run with the same proposal (a different proposal in the
                # file is C14's subject)
                big = dict(cfg, n_samples=cfg["n_samples"] * 3, n_final_samples=None, route="path")
                if cfg["pre_existing"] == "other_config":
                    # ... made by an analysis whose CONFIGURATION had entries the present one lacks (declared prior bounds then, none now)
                    big["no_bounds"] = False
                one_run(big, p)
            return p

        ref_log = []
        pref = fresh_path("ref")
        pre_bytes = al.read_ckpt_bytes(pref)
        ref = one_run(cfg, pref, log=ref_log)
        case0 = {"level": "run", "cfg": cfg}
        chk.count(f"route:{cfg['route']}")
        chk.count(f"cadence:{e}")
        chk.count("pre_existing_checkpoint" if cfg["pre_existing"] else "new_file")
        if smcrun.collapsed_population(ref):
            chk.count("skipped:population_collapsed_rejected_by_library")
            return
        if ref["status"] != "done":
            chk.case(None, None)
            chk.fail("run total", case0, repr(ref.get("exc")), {"level": "run", "clause": "raise"})
            return
        its = len(ref["history"].beta)
        iters = [c["iteration"] for c in ref_log]
        expect = [k for k in range(1, its + 1) if k % e == 0] + [its]
        chk.case({"cfg": cfg, "iterations": its, "checkpoint_iterations": iters} if chk.evaluations < 12 else None, json.dumps(cfg) + "/ref")
        if iters != expect:
            chk.fail("checkpoints exactly at the cadence plus once at the end", case0,
                     f"{its} iterations, cadence {e}: checkpoints at {iters}, expected {expect}", {"level": "run", "clause": "cadence"})
        sizes = [len(c["bytes"]) for c in ref_log]
        if any(b < a for a, b in zip(([len(pre_bytes)] if pre_bytes else []) + sizes, sizes)):
            chk.count("payload_sequence:shrinks")
        else:
            chk.count("payload_sequence:grows")
        for c in ref_log:
            if c["file"] != c["bytes"]:
                chk.fail("the file holds byte-for-byte the most recent payload", case0,
                         f"after the checkpoint of iteration {c['iteration']}: file has {len(c['file'] or b'')} bytes, payload {len(c['bytes'])}",
                         {"level": "run", "clause": "bytes"})
                break
        R = al.result_record(ref["samples"], ref["history"])
        n_like, n_prior = ref["target"].n_like, ref["target"].n_prior
        faults = [("L", k) for k in range(n_like)] + [("P", k) for k in sorted(set(int(v) for v in np.linspace(0, n_prior - 1, 4)))]
        if not all_faults:
            faults = faults[:: max(1, len(faults) // 8)]
        for kind, k in faults:
            p = fresh_path(f"{kind}{k}")
            pre = al.read_ckpt_bytes(p)
            log = []
            r1 = one_run(cfg, p, fault_at=k if kind == "L" else None, fault_prior_at=k if kind == "P" else None, log=log)
            key = json.dumps(cfg) + f"/{kind}{k}"
            case = {"level": "run", "cfg": cfg, "fault": f"{'likelihood' if kind == 'L' else 'prior'} call {k}"}
            chk.case(None, key if log else None)
            if r1["status"] != "fault":
                continue
            summ = al.file_summary(p)
            sig = {"level": "run", "route": cfg["route"], "pre_existing": cfg["pre_existing"]}
            if not summ.get("has_config") or not summ.get("has_flow"):
                chk.fail("file contains the configuration and the proposal", case, f"groups present: {summ.get('groups')}", {**sig, "clause": "header"})
            last = log[-1]["bytes"] if log else (r1.get("pre_payload") or pre)
            fb = summ.get("ckpt_bytes")
            if last is None:
                if fb is not None:
                    chk.fail("no checkpoint before the first one is due", case, "file has a checkpoint although none was written", {**sig, "clause": "spurious"})
                continue
            if fb != last:
                why = "missing" if fb is None else "stale suffix" if fb[:len(last)] == last else "truncated" if last[:len(fb)] == fb else "different payload"
                chk.fail("the file holds byte-for-byte the most recent payload", case,
                         f"{why}: file {None if fb is None else len(fb)} bytes, last payload {len(last)} bytes "
                         f"(checkpoints written at {[c['iteration'] for c in log]})", {**sig, "clause": "bytes", "why": why})
                continue
            try:
                st = pickle.loads(fb)
            except Exception as exc:   # noqa
                chk.fail("the checkpoint is loadable", case, repr(exc), {**sig, "clause": "unpickle"})
                continue
            done_iters = len(r1["aspire"].sampler.history.sample_history) - 1 if r1["aspire"].sampler is not None and r1["aspire"].sampler.history else 0
            if log:
                exp_iter = (done_iters // e) * e if done_iters < its else None
                if exp_iter is not None and log[-1]["iteration"] not in (exp_iter, its) and exp_iter != 0:
                    chk.fail("checkpoints exactly at the cadence plus once at the end", case,
                             f"{done_iters} completed iterations, cadence {e}: last checkpoint at {log[-1]['iteration']}", {**sig, "clause": "cadence"})
            if not log:
                continue          # the file still holds the previous run's checkpoint: C14's subject
            # documented resume route
            try:
                from aspire import Aspire

                t2 = smcrun.Target(cfg["dims"], width=cfg["like_width"])
                a2 = Aspire.resume_from_file(p, log_likelihood=t2.log_likelihood, log_prior=t2.log_prior)
                kw = al.smc_kwargs(cfg)
                kw.pop("sampler")
                if k % 3 == 0:
                    # the resumed run is interrupted as well (no new context is opened on the resumed object), then resumed again:
                    # after EVERY interruption the file must still hold configuration, proposal and a loadable current payload
                    chk.count("second_interruption")
                    t2.fault_at = 2
                    try:
                        with al.orng_seed(cfg["seed"]):
                            a2.sample_posterior(return_history=True, **kw)
                        interrupted_again = False
                    except smcrun.FAULTS:
                        interrupted_again = True
                    if interrupted_again:
                        summ2 = al.file_summary(p)
                        if not summ2.get("has_config") or not summ2.get("has_flow") or summ2.get("ckpt_bytes") is None:
                            chk.fail("file contains the configuration and the proposal", dict(case, second_interruption=True),
                                     f"after the resumed run was interrupted again: groups present: {summ2.get('groups')}", {**sig, "clause": "header2"})
                        t2 = smcrun.Target(cfg["dims"], width=cfg["like_width"])
                        a2 = Aspire.resume_from_file(p, log_likelihood=t2.log_likelihood, log_prior=t2.log_prior)
                log2 = []
                resumed_at = pickle.loads(al.read_ckpt_bytes(p)).get("iteration") if al.read_ckpt_bytes(p) else None
                # the continuation runs with the cadence primed by resume_from_file (every=1) or, every third time, inside a new
                # context with ANOTHER cadence than the interrupted run's (the iteration it resumes at is then off that cadence's grid)
                e2 = 1 if k % 3 != 1 else e + 1
                with al.orng_seed(cfg["seed"]), al.observe_checkpoints(log2, p):
                    if e2 == 1:
                        s2, h2 = a2.sample_posterior(return_history=True, **kw)
                    else:
                        with a2.auto_checkpoint(p, every=e2):
                            s2, h2 = a2.sample_posterior(return_history=True, **kw)
                R2 = al.result_record(s2, h2)
                # the CONTINUATION obeys the same rules: checkpoints at the iterations the cadence dictates (multiples of the cadence,
                # whatever iteration the run was resumed at) plus once at the end, and the file ends up holding the final payload -
                # also when the loop had nothing left to do (resumed at temperature 1 with only the enlargement pending)
                its2 = len(h2.beta)
                if resumed_at is not None:
                    chk.count(f"resumed_continuation:cadence_{'primed_1' if e2 == 1 else 'new_context'}")
                    exp2 = [k_ for k_ in range(int(resumed_at) + 1, its2 + 1) if k_ % e2 == 0] + [its2]
                    got2 = [c_["iteration"] for c_ in log2]
                    chk.count("resumed_continuation:loop_skipped" if int(resumed_at) >= its2 else "resumed_continuation:loop_ran")
                    if got2 != exp2:
                        chk.fail("checkpoints exactly at the cadence plus once at the end", dict(case, resumed_at_iteration=int(resumed_at)),
                                 f"run resumed at iteration {resumed_at} of {its2}, cadence {e2}: checkpoints at {got2}, expected {exp2}",
                                 {**sig, "clause": "cadence", "resumed": True})
                    fb2 = al.read_ckpt_bytes(p)
                    if log2 and fb2 != log2[-1]["bytes"]:
                        chk.fail("the file holds byte-for-byte the most recent payload", dict(case, resumed_at_iteration=int(resumed_at)),
                                 "after the resumed run finished the file does not hold its last payload", {**sig, "clause": "bytes", "resumed": True})
                    if fb2 is not None:
                        st2 = pickle.loads(fb2)
                        n_file, n_ret = len(st2["samples"].x), len(s2.x)
                        if n_file != n_ret or int(st2.get("iteration", -1)) != its2:
                            chk.fail("the file holds byte-for-byte the most recent payload", dict(case, resumed_at_iteration=int(resumed_at)),
                                     f"after the resumed run finished ({its2} iterations, {n_ret} samples returned) the file holds iteration "
                                     f"{st2.get('iteration')} with {n_file} particles", {**sig, "clause": "final_payload", "resumed": True})
                if R2["beta"] != R["beta"] or R2["logZ"] != R["logZ"] or not np.array_equal(R2["x"], R["x"]) or R2["npops"] != R["npops"]:
                    chk.fail("resume-from-file finishes like the uninterrupted run", case,
                             f"beta {R2['beta'][-3:]} vs {R['beta'][-3:]}, logZ {R2['logZ']!r} vs {R['logZ']!r}, stored populations {R2['npops']} vs {R['npops']}",
                             {**sig, "clause": "resume_equal"})
                chk.count("resumed_from_file")
            except Exception as exc:   # noqa
                chk.fail("loadable by the documented resume route", case, repr(exc)[:300], {**sig, "clause": "resume_raise", "exc": type(exc).__name__})
    finally:
        shutil.rmtree(tmp, ignore_errors=True)


def check_header_for_every_sampler(chk):
    """the part of the property every sampler owes: a run with a checkpoint file that is interrupted leaves a file holding the
    configuration and the proposal in use, loadable by the documented resume route - also when the sampler itself writes no
    checkpoints (importance sampling, the plain MCMC samplers) and also for a run started on a resumed, refitted object"""
    from aspire import Aspire

    tmp = tempfile.mkdtemp(prefix="aspire_verif_")
    try:
        for sampler, kw in (("importance", {}), ("minipcn", {"n_steps": 3}), ("smc", {"sampler_kwargs": {"n_steps": 1}, "adaptive": False, "n_steps": 3})):
            for route in ("path", "auto"):
                for fault_at in (0, 1):
                    t = smcrun.Target(2)
                    a = al.make_aspire(t, dims=2, flow_seed=21)
                    a.fit(al.training_samples(2, 3))
                    p = os.path.join(tmp, f"hdr_{sampler}_{route}_{fault_at}.h5")
                    case = {"level": "header", "sampler": sampler, "route": route, "fault": f"likelihood call {fault_at}"}
                    chk.count(f"header_for_sampler:{sampler}")
                    chk.case(case, json.dumps(case))
                    t.fault_at = fault_at
                    try:
                        with al.orng_seed(4):
                            if route == "auto":
                                with a.auto_checkpoint(p, every=1):
                                    a.sample_posterior(n_samples=10, sampler=sampler, **kw)
                            else:
                                a.sample_posterior(n_samples=10, sampler=sampler, checkpoint_path=p, **kw)
                        continue            # the interruption did not arrive (fewer likelihood calls): nothing to check here
                    except smcrun.FAULTS:
                        pass
                    except Exception as e:   # noqa
                        chk.fail("run total", case, repr(e)[:200], {"level": "header", "clause": "raise"})
                        continue
                    summ = al.file_summary(p)
                    sig = {"level": "header", "sampler": sampler, "route": route}
                    if not summ.get("exists") or not summ.get("has_config") or not summ.get("has_flow"):
                        chk.fail("file contains the configuration and the proposal", case,
                                 f"after the interruption: file exists={summ.get('exists')}, groups present: {summ.get('groups')}", {**sig, "clause": "header"})
                        continue
                    if (round(summ["flow_mu"], 9), round(summ["flow_sigma"], 9)) != (round(a.flow.mu, 9), round(a.flow.sigma, 9)):
                        chk.fail("file contains the configuration and the proposal", case, "the stored proposal is not the one in use", {**sig, "clause": "header_flow"})
                    try:
                        Aspire.resume_from_file(p, log_likelihood=t.log_likelihood, log_prior=t.log_prior)
                    except Exception as e:   # noqa
                        chk.fail("loadable by the documented resume route", case, repr(e)[:200], {**sig, "clause": "resume_raise", "exc": type(e).__name__})
        # a resumed object is refitted and samples again WITHOUT opening a new context; that run is interrupted
        for fault_at in (1, 5, 9):
            t = smcrun.Target(2)
            a = al.make_aspire(t, dims=2, flow_seed=22)
            a.fit(al.training_samples(2, 4, center=0.2, spread=0.9))
            p = os.path.join(tmp, f"refit_{fault_at}.h5")
            skw = dict(n_samples=10, sampler="smc", sampler_kwargs={"n_steps": 1}, adaptive=False, n_steps=3)
            case = {"level": "header", "sequence": "run, resume_from_file, refit, interrupted run on the resumed object", "fault": f"likelihood call {fault_at}"}
            chk.count("header_after_resume_and_refit")
            chk.case(case, json.dumps(case))
            try:
                with al.orng_seed(5), a.auto_checkpoint(p, every=1):
                    a.sample_posterior(**skw)
                t2 = smcrun.Target(2)
                r1 = Aspire.resume_from_file(p, log_likelihood=t2.log_likelihood, log_prior=t2.log_prior)
                r1.fit(al.training_samples(2, 5, center=0.9, spread=1.8))
                t2.n_like = 0
                t2.fault_at = fault_at
                try:
                    with al.orng_seed(6):
                        r1.sample_posterior(**skw)
                    continue
                except smcrun.FAULTS:
                    pass
                summ = al.file_summary(p)
                if not summ.get("has_config") or not summ.get("has_flow") or \
                        (round(summ["flow_mu"], 9), round(summ["flow_sigma"], 9)) != (round(r1.flow.mu, 9), round(r1.flow.sigma, 9)):
                    chk.fail("file contains the configuration and the proposal", case,
                             "after the interruption the file does not hold the proposal the interrupted run was using (the refitted one)",
                             {"level": "header", "clause": "header_flow", "after_refit": True})
            except Exception as e:   # noqa
                chk.fail("run total", case, repr(e)[:200], {"level": "header", "clause": "raise"})
    finally:
        shutil.rmtree(tmp, ignore_errors=True)


def run(chk: core.Check):
    check_header_for_every_sampler(chk)
    r = np.random.default_rng(chk.seed + 12012)
    quick = chk.tier == "quick"
    chk.rule = ("unit: random payload-size sequences through dump_pickle_to_hdf; run: sample_posterior/auto_checkpoint SMC runs x cadence 1-4 x "
                "n_final_samples (smaller/larger) x new file or file holding a larger earlier checkpoint, a fault at EVERY likelihood call and at "
                "4 prior calls, each followed by resume_from_file; non-trivial = at least one checkpoint had been written before the fault")
    chk.trusted += ["h5py stores and returns bytes faithfully and flushes on close; pickle; kernel doubles; the stub proposal's own save/load",
                    "process death in the middle of an HDF5 write is not modelled (interruptions are Python exceptions at user-function calls)"]
    check_dump_units(chk, r, 150 if quick else 5000)
    for i in range(10 if quick else 150):
        check_cfg(chk, gen_cfg(r, i), all_faults=True)
    # the file is reused by an analysis with ANOTHER configuration (the earlier one declared prior bounds, this one none): what the file
    # says after an interruption is the configuration of the run that was interrupted, and the documented resume route works
    for j in range(2 if quick else 8):
        cfg = dict(gen_cfg(np.random.default_rng(chk.seed + 1212 + j), 4 * j + 1), pre_existing="other_config", no_bounds=True, periodic=False, route=("path", "auto")[j % 2])
        check_cfg(chk, cfg, all_faults=False)

    def search():
        sub = core.Check(chk.pid, chk.tier, chk.seed)
        sub.known, sub.matchers = chk.known, chk.matchers
        rr = np.random.default_rng(chk.seed + 99)
        check_dump_units(sub, rr, 400)
        for i in range(12):
            if sub.failures:
                break
            check_cfg(sub, gen_cfg(rr, i), all_faults=True)
        return sub.failures[0] if sub.failures else None

    return search


def replay(chk: core.Check, path: str) -> int:
    doc = json.loads(open(path).read())
    p = doc["payload"]
    cases = [p["case"]] if "case" in p else [d["case"] for d in p.get("correspondence", [])]
    for c in cases:
        if c.get("level") == "run":
            check_cfg(chk, dict(c["cfg"]))
        else:
            check_dump_units(chk, np.random.default_rng(0), 200)
    for f in chk.failures[:10]:
        print("FAIL", f["clause"], f["case"].get("fault"), f["detail"])
    print(f"replayed {len(cases)} case(s): {len(chk.failures)} oracle failure(s)")
    return 1 if chk.failures else 0
