"""C02 — weights, evidence and ESS are exact functionals of the per-sample log-densities.

Correspondence: Samples(...) fields, utils.logsumexp, utils.effective_sample_size,
Samples.rejection_sample, Samples.__getitem__ (ESS recomputation)  vs  the Lean model
(Model/Weights.lean) executed at Float / Float32.
Oracle: the property's own clauses recomputed with compensated float64 arithmetic.
"""
from __future__ import annotations

import json
import math

import numpy as np

from .. import core, ns
from ..core import fl, hf

EPS = {"f64": 2.0 ** -52, "f32": 2.0 ** -23}
NSS = ("numpy", "torch", "jax")


# ----------------------------------------------------------------------------- generation
def gen_logw(r: np.random.Generator, n: int, kind: str) -> np.ndarray:
    if kind == "moderate":
        return r.normal(0, r.choice([0.1, 1, 5, 30]), n) + r.normal(0, 10)
    if kind == "extreme":
        mag = 10 ** r.uniform(2, 5)
        sign = r.choice([-1.0, 1.0])
        return sign * mag + r.normal(0, r.choice([0.5, 5, 500]), n)
    if kind == "spread":
        return r.choice([-1.0, 1.0], n) * 10 ** r.uniform(-2, 5, n)
    if kind == "ties":
        vals = r.normal(0, 3, max(1, n // 4))
        return r.choice(vals, n)
    if kind == "all_equal":
        return np.full(n, r.normal(0, 100))
    if kind == "dominant":
        x = r.normal(0, 1, n)
        x[r.integers(n)] += r.choice([50, 800, 1e4])
        return x
    raise ValueError(kind)


KINDS = ["moderate", "moderate", "extreme", "extreme", "spread", "ties", "all_equal", "dominant", "neginf"]


def gen_case(r: np.random.Generator, idx: int, tier: str) -> dict:
    kind = KINDS[idx % len(KINDS)]
    nsn = NSS[(idx // len(KINDS)) % 3]
    width = "f64" if (idx // (3 * len(KINDS))) % 2 == 0 else "f32"
    nmax = 300 if tier == "thorough" else 120
    n = int(r.choice([2, 3, 4, 7, int(r.integers(2, nmax + 1))]))
    base = "moderate" if kind == "neginf" else kind
    if kind == "neginf":
        base = str(r.choice(["moderate", "extreme", "ties"]))
    lw = gen_logw(r, n, base)
    scale = max(1.0, float(np.max(np.abs(lw))))
    lq = r.normal(0, 1, n) * min(scale, 1e3) * r.choice([0.01, 1.0])
    lp = r.normal(0, 1, n) * r.choice([0.0, 1.0, 50.0])
    ll = lw + lq - lp
    if kind == "neginf":
        k = int(r.integers(1, n))  # at least one finite weight
        idxs = r.choice(n, k, replace=False)
        for j in idxs:
            if r.random() < 0.5:
                ll[j] = -np.inf
            else:
                lp[j] = -np.inf
    if width == "f32":
        ll, lp, lq = (np.asarray(v, np.float32).astype(np.float64) for v in (ll, lp, lq))
        if not np.all(np.isfinite(lq)):
            lq = np.nan_to_num(lq, posinf=1e30, neginf=-1e30)
    u = r.uniform(size=n)
    perm = r.permutation(n)
    shift = float(r.choice([0.0, 1.0, -3.5, 40.0, -1e3, 12345.678]))
    return {
        "kind": kind, "ns": nsn, "width": width, "n": n,
        "ll": [float(v) for v in ll], "lp": [float(v) for v in lp], "lq": [float(v) for v in lq],
        "u": [float(v) for v in u], "perm": [int(v) for v in perm], "shift": shift,
        "spec": str(r.choice(["native", "string"])),
        "raw_namespace": bool((idx // 5) % 2),
    }


# ----------------------------------------------------------------------------- implementation
class FakeRng:
    def __init__(self, u):
        self.u = np.asarray(u, dtype=float)

    def uniform(self, size=None, **kw):
        assert size == len(self.u)
        return self.u.copy()


def run_impl(case: dict, ll=None, lp=None, lq=None) -> dict:
    from aspire.samples import Samples
    from aspire.utils import effective_sample_size, logsumexp

    xp = ns.get_xp(case["ns"])
    if case.get("raw_namespace"):
        # the namespace as users write it: the library module itself (`xp=torch`, `xp=numpy`), not its array-API wrapper
        xp = __import__(case["ns"]) if case["ns"] != "jax" else xp
    w = case["width"]
    dtype = ns.native_dtype(case["ns"], w) if case["spec"] == "native" else {"f32": "float32", "f64": "float64"}[w]
    ll = np.asarray(case["ll"] if ll is None else ll)
    lp = np.asarray(case["lp"] if lp is None else lp)
    lq = np.asarray(case["lq"] if lq is None else lq)
    n = len(ll)
    x = np.arange(2 * n, dtype=float).reshape(n, 2)
    s = Samples(x=x, log_likelihood=ll, log_prior=lp, log_q=lq, xp=xp, dtype=dtype)
    out = {
        "ns": ns.ns_of(s.log_w), "width": ns.width_of(s.log_w),
        "log_w": ns.to_np(s.log_w), "logZ": float(s.log_evidence), "weights": ns.to_np(s.weights),
        "evidence": float(s.evidence), "evidence_error": float(s.evidence_error),
        "rel": float(s.log_evidence_error), "ess": float(s.effective_sample_size),
        "efficiency": float(s.efficiency), "scaled": ns.to_np(s.scaled_weights),
        "ess_util": float(effective_sample_size(s.log_w)),
        "lse_util": float(logsumexp(s.log_w)),
        "_s": s,
    }
    return out


def impl_reject(s, u):
    kept = s.rejection_sample(rng=FakeRng(u))
    return ns.to_np(kept.x)[:, 0] / 2.0  # row ids (x[:,0] = 2*i)


# ----------------------------------------------------------------------------- reference (oracle)
def ref_stats(lw: np.ndarray) -> dict:
    """compensated float64 reference from a log-weight vector"""
    lw = np.asarray(lw, dtype=np.float64)
    m = float(np.max(lw))
    n = len(lw)
    with np.errstate(under="ignore"):
        u = np.exp(lw - m)
    s1 = math.fsum(u)
    s2 = math.fsum(u * u)
    return {"m": m, "logZ": m + math.log(s1 / n), "ess": s1 * s1 / s2, "G": n * s2 / (s1 * s1)}


# ----------------------------------------------------------------------------- one batch
def run_cases(chk: core.Check, cases: list[dict], drv: core.LeanDriver | None = None):
    drv = drv or core.LeanDriver()
    impl = []
    lines = []
    for c in cases:
        w = c["width"]
        try:
            o = run_impl(c)
        except Exception as exc:  # total function on finite inputs: an exception is a failure
            o = {"exc": repr(exc)}
        impl.append(o)
        lines.append(f"{w} weights {fl(c['ll'])} {fl(c['lp'])} {fl(c['lq'])}")
        lw = o["log_w"] if "log_w" in o else np.zeros(1)
        lines.append(f"{w} ess {fl(lw)}")
        lines.append(f"{w} lse {fl(lw)}")
        lines.append(f"{w} reject {fl(lw)} {fl(np.log(np.asarray(c['u'])))}")
        k = max(1, len(lw) // 2)
        lines.append(f"{w} ess_shifted {fl(lw[:k])}")
    rep = drv.batch(lines)
    for i, (c, o) in enumerate(zip(cases, impl)):
        r_w, r_ess, r_lse, r_rej, r_sl = rep[5 * i: 5 * i + 5]
        check_one(chk, c, o, r_w, r_ess, r_lse, r_rej, r_sl)


def lite(c: dict) -> dict:
    return {k: c[k] for k in ("kind", "ns", "width", "n", "spec", "shift")} | {
        "ll": c["ll"], "lp": c["lp"], "lq": c["lq"], "u": c["u"], "perm": c["perm"]}


def check_one(chk, c, o, r_w, r_ess, r_lse, r_rej, r_sl):
    case = lite(c)
    n, w = c["n"], c["width"]
    eps = EPS[w]
    chk.count(f"kind:{c['kind']}")
    chk.count(f"ns:{c['ns']}/{w}")
    chk.count("n<=4" if n <= 4 else "n<=32" if n <= 32 else "n>32")
    key = json.dumps([c["ns"], w, c["ll"][:8], c["lp"][:8], c["lq"][:8], n])
    lw_in = np.asarray(c["ll"]) + np.asarray(c["lp"]) - np.asarray(c["lq"])
    nontrivial = len(set(np.round(lw_in[np.isfinite(lw_in)], 12))) > 1
    desc = {"kind": c["kind"], "ns": c["ns"], "width": w, "n": n,
            "log_w_range": [float(np.min(lw_in)), float(np.max(lw_in))]} if chk.evaluations < 40 else None
    chk.case(desc, key if nontrivial else None)
    if "exc" in o:
        chk.fail("total", case, f"Samples(...) raised {o['exc']}", {"clause": "total"})
        return
    if o["width"] != w or o["ns"] != c["ns"]:
        chk.fail("namespace/dtype", case, f"requested {c['ns']}/{w} got {o['ns']}/{o['width']}", {"clause": "dtype"})
        return
    if not r_w.ok:
        raise core.HarnessError(f"driver: {r_w.err}")
    m_lw = r_w.fs(); m_logZ = r_w.f(); m_wt = r_w.fs(); m_Z = r_w.f(); m_Zerr = r_w.f(); m_rel = r_w.f(); m_ess = r_w.f()
    lw = o["log_w"]
    absmax = float(np.max(np.abs(lw[np.isfinite(lw)]))) if np.any(np.isfinite(lw)) else 0.0
    tol_lse = 16 * eps * (absmax + math.log(n) + 1)
    tol_ess = 64 * eps * (math.log(n) + 2) * 4
    finite_ok = bool(np.any(np.isfinite(lw)))

    # ---- model vs implementation ------------------------------------------------------------
    def dis(field, mv, iv, detail=""):
        chk.disagree(f"weights.{field}", case, mv, iv, detail)

    if not core.all_close(m_lw, lw, 0.0, 0.0):
        dis("log_w", m_lw[:5], lw[:5].tolist())
    if not core.close(m_logZ, o["logZ"], 0, tol_lse):
        dis("log_evidence", m_logZ, o["logZ"])
    if not core.close(m_ess, o["ess"], tol_ess):
        dis("ess", m_ess, o["ess"])
    Gm = m_rel * m_rel * (n - 1) + 1
    Gi = o["rel"] * o["rel"] * (n - 1) + 1
    tolG = 1e-9 if w == "f64" else 2e-3
    if not core.close(Gm, Gi, tolG):
        dis("log_evidence_error", m_rel, o["rel"], f"G model {Gm} impl {Gi}")
    tiny = 2.3e-308 if w == "f64" else 1.2e-38        # subnormal results may be flushed to zero (XLA CPU): not compared
    if math.isfinite(m_Z) and tiny < m_Z and math.isfinite(o["evidence"]) and o["evidence"] > tiny:
        if not core.close(m_Z, o["evidence"], 4 * tol_lse + 8 * eps):
            dis("evidence", m_Z, o["evidence"])
        if math.isfinite(m_Zerr) and math.isfinite(o["evidence_error"]):
            if not core.close(m_Zerr / m_Z * 1.0, o["evidence_error"] / o["evidence"], 1e-6 if w == "f64" else 5e-2, 1e-9 if w == "f64" else 1e-3):
                dis("evidence_error", m_Zerr, o["evidence_error"])
    wt = o["weights"]
    fin = np.isfinite(np.asarray(m_wt)) & np.isfinite(wt) & (np.asarray(m_wt) > 1e-300 if w == "f64" else np.asarray(m_wt) > 1e-30)
    if fin.any() and not core.all_close(np.asarray(m_wt)[fin], wt[fin], 64 * eps + 4 * eps * absmax):
        dis("weights", None, None)
    if r_ess.ok and finite_ok:
        mv = r_ess.f()
        if math.isfinite(mv) and math.isfinite(o["ess_util"]):
            # unshifted helper: only compare when exp() stays in range
            if not core.close(mv, o["ess_util"], tol_ess + 8 * eps * absmax):
                chk.disagree("effective_sample_size", case, mv, o["ess_util"])
        elif math.isnan(mv) != math.isnan(o["ess_util"]):
            chk.disagree("effective_sample_size.nan", case, mv, o["ess_util"])
    if r_lse.ok and finite_ok:
        mv = r_lse.f()
        if not core.close(mv, o["lse_util"], 0, tol_lse):
            chk.disagree("logsumexp", case, mv, o["lse_util"])

    # ---- property oracle on the implementation ----------------------------------------------
    ll, lp, lq = (np.asarray(c[k]) for k in ("ll", "lp", "lq"))
    npdt = np.float64 if w == "f64" else np.float32
    exp_lw = (ll.astype(npdt) + lp.astype(npdt) - lq.astype(npdt)).astype(np.float64)
    if not core.all_close(exp_lw, lw, 0, 0):
        j = int(np.argmax(~np.isclose(exp_lw, lw, rtol=0, atol=0, equal_nan=True)))
        chk.fail("log_w = ll + lp - lq", case, f"row {j}: expected {exp_lw[j]!r} got {lw[j]!r}", {"clause": "log_w"})
    if not finite_ok:
        return
    ref = ref_stats(lw)
    fin_fields = {"log_evidence": o["logZ"], "log_evidence_error": o["rel"], "ess": o["ess"]}
    for name, v in fin_fields.items():
        if not math.isfinite(v):
            chk.fail("finite", case, f"{name} = {v!r} for finite log-weights in [{np.min(lw)}, {np.max(lw)}]",
                     {"clause": "finite", "field": name, "absmax": absmax})
    if math.isfinite(o["logZ"]) and not core.close(o["logZ"], ref["logZ"], 0, 4 * tol_lse):
        chk.fail("log_evidence = log mean w", case, f"impl {o['logZ']!r} ref {ref['logZ']!r}", {"clause": "logZ"})
    if math.isfinite(o["ess"]):
        if not core.close(o["ess"], ref["ess"], 4 * tol_ess):
            chk.fail("ess = (sum w)^2 / sum w^2", case, f"impl {o['ess']!r} ref {ref['ess']!r}", {"clause": "ess"})
        if not (1 - 4 * tol_ess <= o["ess"] <= n * (1 + 4 * tol_ess)):
            chk.fail("1 <= ess <= N", case, f"ess {o['ess']!r} n {n}", {"clause": "ess_bounds"})
        if not core.close(o["efficiency"], o["ess"] / n, 8 * eps):
            chk.fail("efficiency = ess / N", case, f"{o['efficiency']} vs {o['ess'] / n}", {"clause": "efficiency"})
    if math.isfinite(o["rel"]):
        Gi = o["rel"] ** 2 * (n - 1) + 1
        if not core.close(Gi, ref["G"], 4 * tolG):
            chk.fail("relative error = sd(w)/(sqrt(n) mean w)", case,
                     f"impl rel {o['rel']!r} (n/ESS form {Gi}) ref {ref['G']}", {"clause": "relerr"})
    # scaled weights
    with np.errstate(under="ignore"):
        sc_ref = np.exp(lw - ref["m"])
    if not core.all_close(sc_ref, o["scaled"], 64 * eps, 1e-300 if w == "f64" else 1e-37):
        chk.fail("scaled weights = w / max w", case, "mismatch", {"clause": "scaled"})

    # rejection sampling: keep i  iff  u_i < w_i / max w
    s = o["_s"]
    u = np.asarray(c["u"])
    logu = np.log(u)
    margin = (lw - ref["m"]) - logu
    knife = np.abs(margin) < 1e-9 + 64 * eps * (absmax + 1)
    if knife.any():
        chk.knife_edge += 1
    else:
        expected = np.nonzero(margin > 0)[0]
        try:
            got = impl_reject(s, u)
            # a query must leave the set it is asked of unchanged: log_w stays log L + log pi - log q of each sample and the
            # log-evidence the log of the mean weight AFTER rejection sampling / scaled_weights / selection were used
            after_lw = ns.to_np(s.log_w)
            if not np.array_equal(after_lw, o["log_w"], equal_nan=True) or float(s.log_evidence) != o["logZ"]:
                j = int(np.argmax(after_lw != o["log_w"])) if after_lw.shape == o["log_w"].shape else -1
                chk.fail("log-weight = log L + log pi - log q of the same sample", case,
                         f"after rejection_sample() the stored log_w[{j}] is {after_lw[j] if j >= 0 else None!r}, it was {o['log_w'][j] if j >= 0 else None!r}",
                         {"clause": "logw", "after": "rejection_sample"})
            if list(np.round(got).astype(int)) != list(expected):
                chk.fail("rejection keeps i iff u_i < w_i / max w", case,
                         f"expected rows {expected.tolist()[:10]} got {got.tolist()[:10]}", {"clause": "rejection"})
        except Exception as exc:
            chk.fail("rejection_sample total", case, repr(exc), {"clause": "rejection"})
        if r_rej.ok:
            mk = [i for i, b in enumerate(r_rej.bs()) if b]
            if mk != list(expected):
                # model and oracle disagree away from the knife edge: only rounding of log u at width
                if w == "f64":
                    chk.disagree("rejection", case, mk[:10], expected.tolist()[:10])

    # __getitem__ recomputes the ESS of the selected rows and carries the evidence
    k = max(1, n // 2)
    try:
        sl = s[:k]
        sub = lw[:k]
        if np.any(np.isfinite(sub)):
            if r_sl.ok:
                mv = r_sl.f()
                if not core.close(mv, float(sl.effective_sample_size), tol_ess):
                    chk.disagree("getitem.ess", case, mv, float(sl.effective_sample_size))
            rs = ref_stats(sub)
            if not core.close(float(sl.effective_sample_size), rs["ess"], 4 * tol_ess):
                chk.fail("ess of a selection", case, f"{float(sl.effective_sample_size)} vs {rs['ess']}", {"clause": "slice_ess"})
        if float(sl.log_evidence) != o["logZ"]:
            chk.fail("selection carries the evidence", case, f"{float(sl.log_evidence)} vs {o['logZ']}", {"clause": "slice_evidence"})
    except Exception as exc:
        chk.fail("selection total", case, repr(exc), {"clause": "slice"})

    # permutation invariance and shift (metamorphic, on the implementation)
    perm = np.asarray(c["perm"])
    try:
        op = run_impl(c, ll[perm], lp[perm], lq[perm])
        if not core.all_close(op["log_w"], lw[perm], 0, 0):
            chk.fail("permutation: log_w permuted alike", case, "mismatch", {"clause": "perm"})
        if not core.close(op["logZ"], o["logZ"], 0, 2 * tol_lse):
            chk.fail("permutation invariance of log-evidence", case, f"{op['logZ']!r} vs {o['logZ']!r}", {"clause": "perm"})
        if math.isfinite(o["ess"]) and not core.close(op["ess"], o["ess"], 2 * tol_ess):
            chk.fail("permutation invariance of ESS", case, f"{op['ess']!r} vs {o['ess']!r}", {"clause": "perm"})
        if math.isfinite(o["rel"]):
            Gp = op["rel"] ** 2 * (n - 1) + 1
            if not core.close(Gp, o["rel"] ** 2 * (n - 1) + 1, 4 * tolG):
                chk.fail("permutation invariance of the relative error", case, f"{op['rel']!r} vs {o['rel']!r}", {"clause": "perm"})
    except Exception as exc:
        chk.fail("permutation total", case, repr(exc), {"clause": "perm"})
    cshift = c["shift"]
    if cshift != 0.0 and w == "f64":
        lls = ll + cshift
        d = 8 * eps * (float(np.max(np.abs(ll[np.isfinite(ll)]), initial=0.0)) + abs(cshift) + absmax + 1)
        try:
            osf = run_impl(c, lls, lp, lq)
            if not core.close(osf["logZ"], o["logZ"] + cshift, 0, 4 * tol_lse + n * d):
                chk.fail("shift: log-evidence moves by c", case, f"{osf['logZ']!r} vs {o['logZ'] + cshift!r}", {"clause": "shift"})
            if math.isfinite(o["ess"]) and not core.close(osf["ess"], o["ess"], 4 * tol_ess + 8 * d):
                chk.fail("shift: ESS unchanged", case, f"{osf['ess']!r} vs {o['ess']!r}", {"clause": "shift"})
            if math.isfinite(o["rel"]) and math.isfinite(osf["rel"]):
                Gs = osf["rel"] ** 2 * (n - 1) + 1
                if not core.close(Gs, o["rel"] ** 2 * (n - 1) + 1, 4 * tolG + 8 * d):
                    chk.fail("shift: relative error unchanged", case, f"{osf['rel']!r} vs {o['rel']!r}", {"clause": "shift"})
            elif math.isfinite(o["rel"]) != math.isfinite(osf["rel"]):
                chk.fail("finite", case, f"relative error {osf['rel']!r} after adding {cshift} to every log-likelihood",
                         {"clause": "finite", "field": "log_evidence_error", "absmax": absmax + abs(cshift)})
            # the same on the SAME object: the densities of a set are changed and the weights recomputed (reweighting to another
            # likelihood); every functional must follow, none may keep its earlier value
            s.log_likelihood = s.log_likelihood + cshift
            s.compute_weights()
            z2 = float(s.log_evidence)
            if not core.close(z2, osf["logZ"], 1e-12, 1e-12) or not np.array_equal(ns.to_np(s.log_w), osf["log_w"], equal_nan=True):
                chk.fail("shift: log-evidence moves by c", case,
                         f"after adding {cshift} to the log-likelihood of the same set and compute_weights(): log-evidence {z2!r}, a fresh set gives {osf['logZ']!r}",
                         {"clause": "shift", "in_place": True})
        except Exception as exc:
            chk.fail("shift total", case, repr(exc), {"clause": "shift"})


# ----------------------------------------------------------------------------- entry points
def corpus_cases() -> list[dict]:
    out = []
    d = core.VERIF / "harness" / "corpus" / "C02"
    if d.exists():
        for f in sorted(d.glob("*.json")):
            out.append(json.loads(f.read_text()))
    return out


def check_pooled(chk, r, n):
    """a weighted set obtained by POOLING batches (`Samples.concatenate`, the way draws from several runs are combined): its
    log-weights, log-evidence (log of the mean weight over ALL its rows) and ESS are those of its own rows, whatever the sizes of the
    batches were"""
    from aspire.samples import Samples

    for i in range(n):
        nsn = NSS[i % 3]
        w = "f64" if (i // 3) % 2 == 0 else "f32"
        sizes = [(5, 40), (40, 5), (7, 7), (3, 11, 29), (1, 60)][i % 5]
        xp = ns.get_xp(nsn)
        dt = ns.native_dtype(nsn, w)
        parts, ll_all, lp_all, lq_all = [], [], [], []
        for k, m in enumerate(sizes):
            ll = r.normal(-3 + k, 1.5, m); lp = r.normal(0, 1, m); lq = r.normal(0, 1, m)
            if w == "f32":
                ll, lp, lq = (v.astype(np.float32).astype(float) for v in (ll, lp, lq))
            ll_all.append(ll); lp_all.append(lp); lq_all.append(lq)
            parts.append(Samples(x=r.normal(0, 1, (m, 2)), log_likelihood=ll, log_prior=lp, log_q=lq, xp=xp, dtype=dt))
        case = {"level": "pooled", "ns": nsn, "width": w, "batch_sizes": list(sizes)}
        chk.count("pooled_sets:" + ("equal" if len(set(sizes)) == 1 else "unequal"))
        chk.case(case if chk.evaluations < 45 else None, json.dumps([case, float(ll_all[0][0])]))
        try:
            pooled = Samples.concatenate(parts)
        except Exception as e:   # noqa
            chk.fail("total", case, repr(e)[:200], {"clause": "total", "level": "pooled"})
            continue
        lw = np.concatenate(ll_all) + np.concatenate(lp_all) - np.concatenate(lq_all)
        m_ = float(np.max(lw))
        ref_logz = m_ + math.log(float(np.mean(np.exp(lw - m_))))
        ref_ess = float(np.sum(np.exp(lw - m_)) ** 2 / np.sum(np.exp(2 * (lw - m_))))
        tol = 1e-4 if w == "f32" else 1e-10
        got_lw = ns.to_np(pooled.log_w).astype(float)
        if got_lw.shape != lw.shape or not np.allclose(got_lw, lw, rtol=tol, atol=tol * 10):
            chk.fail("log-weight = log L + log pi - log q of the same sample", case, "pooled log-weights differ from the rows' own", {"clause": "logw", "level": "pooled"})
        elif abs(float(pooled.log_evidence) - ref_logz) > tol * (1 + abs(ref_logz)) * 10:
            chk.fail("log_evidence = log mean w", case,
                     f"pooled set of batches {sizes}: log_evidence {float(pooled.log_evidence)!r}, log of the mean weight of its rows {ref_logz!r}",
                     {"clause": "logZ", "level": "pooled"})
        elif abs(float(pooled.effective_sample_size) - ref_ess) > 1e-3 * ref_ess + tol:
            chk.fail("ess = (sum w)^2 / sum w^2", case, f"pooled ESS {float(pooled.effective_sample_size)!r} vs {ref_ess!r}", {"clause": "ess", "level": "pooled"})


def run(chk: core.Check):
    check_pooled(chk, np.random.default_rng(chk.seed + 20_202), 15 if chk.tier == "quick" else 150)
    n_cases = 540 if chk.tier == "quick" else 8100
    r = np.random.default_rng(chk.seed + 20_002)
    chk.rule = ("log-density triples generated per kind (moderate / extreme to 1e5 / spread over 7 decades / ties / "
                "all-equal / one dominant / random -inf subset) x namespace x width; non-trivial = at least two "
                "distinct finite log-weights; distinct = different (namespace, width, vectors)")
    chk.trusted += ["numpy/torch/jax elementwise exp, log, sum, max (the model is executed at Lean Float/Float32)",
                    "IEEE-754: the theorems are over the reals; range-safety theorems bound every exp/log argument"]
    chk.assumptions += ["inputs contain no NaN and at least one finite log-weight (the property's quantifier)"]
    cases = corpus_cases() + [gen_case(r, i, chk.tier) for i in range(n_cases)]
    drv = core.LeanDriver()
    B = 270
    for i in range(0, len(cases), B):
        run_cases(chk, cases[i:i + B], drv)

    def search():
        # intensified search with the oracle only (extreme-heavy)
        sub = core.Check(chk.pid, chk.tier, chk.seed)
        sub.known, sub.matchers = chk.known, chk.matchers
        rr = np.random.default_rng(chk.seed + 777)
        cs = [gen_case(rr, i, "thorough") for i in range(1500)]
        for i in range(0, len(cs), B):
            run_cases(sub, cs[i:i + B], drv)
            if sub.failures:
                return sub.failures[0]
        return None

    return search


def replay(chk: core.Check, path: str) -> int:
    doc = json.loads(open(path).read())
    payload = doc["payload"]
    cases = []
    if isinstance(payload, dict) and "case" in payload:
        cases = [payload["case"]]
    elif isinstance(payload, dict) and "correspondence" in payload:
        cases = [d["case"] for d in payload["correspondence"]]
    for c in cases:
        c.setdefault("kind", "replay")
    run_cases(chk, cases)
    for f in chk.failures:
        print("FAIL", f["clause"], f["detail"])
    for d in chk.disagreements:
        print("DISAGREE", d["op"], d["model"], d["impl"], d["detail"])
    print(f"replayed {len(cases)} case(s): {len(chk.failures)} oracle failure(s), {len(chk.disagreements)} disagreement(s)")
    return 1 if (chk.failures or chk.disagreements) else 0
