"""C20 — runs are reproducible given the same explicit random sources; a supplied generator is the one used.

(1) wiring table: for every sampler class the facts (constructor / sample accept `rng`; `sample` overwrites a
    constructor-supplied generator) are extracted from the CURRENT source (inspect.signature + a probe run) and handed
    to the Lean model (Model/Wiring.lean, op `wiring`), which says which source each route ends up using; the
    decidable predicate `WiringOK` of theorem `C20.user_rng_is_used` is evaluated on the extracted table.
(2) non-interference: every sampler / flow back-end is run twice with identical explicit sources (seeds, keys,
    generators) and DIFFERENT ambient entropy (argument-less `default_rng()`, fresh `ArrayRNG`, global torch state);
    samples, weights, evidence and history must be bit-identical, and `sampler.rng is user_rng` must hold.
"""
from __future__ import annotations

import contextlib
import inspect
import json
import os

import numpy as np

from .. import aspire_level as al
from .. import core, ns, smcrun

ROUTES = ("ctor", "call", "top")


@contextlib.contextmanager
def ambient(seed):
    """control everything the code obtains without being given it"""
    import numpy.random as npr

    orig = npr.default_rng
    counter = {"k": 0}

    def patched(*a, **k):
        if not a and not k or (a and a[0] is None):
            counter["k"] += 1
            return orig(1_000_003 * seed + counter["k"])
        return orig(*a, **k)

    npr.default_rng = patched
    try:
        import torch

        torch.manual_seed(seed + 99)
    except Exception:
        pass
    with al.orng_seed(7919 * seed + 1):
        try:
            yield
        finally:
            npr.default_rng = orig


# ----------------------------------------------------------------------------- wiring table (regeneration)
def extract_table(name):
    cfg = {"sampler": name, "n_samples": 8, "kernel_steps": 1, "seed": 5}
    target = smcrun.Target(2)
    if name in ("minipcn_smc", "emcee_smc"):
        s, _ = smcrun.make_sampler({**smcrun.DEFAULT, **cfg}, target)
        K = type(s)
    elif name == "minipcn":
        from aspire.samplers.mcmc import MiniPCN as K
    elif name == "emcee":
        from aspire.samplers.mcmc import Emcee as K
    elif name == "blackjax_smc":
        from aspire.samplers.smc.blackjax import BlackJAXSMC as K
    else:
        from aspire.samplers.importance import ImportanceSampler as K
    init_has = "rng" in inspect.signature(K.__init__).parameters
    sample_has = "rng" in inspect.signature(K.sample).parameters
    overwrites = False
    consumes = name in ("minipcn_smc", "minipcn", "blackjax_smc")
    if name == "minipcn_smc" and init_has:
        g = np.random.default_rng(1)
        flow = smcrun.make_proposal(2, seed=3)
        s2 = K(log_likelihood=target.log_likelihood, log_prior=target.log_prior, dims=2, prior_flow=flow, xp=ns.get_xp("numpy"),
               parameters=["a", "b"], rng=g)
        with ambient(1):
            s2.sample(8, sampler_kwargs={"n_steps": 1})
        overwrites = s2.rng is not g
    return {"initHasRng": init_has, "sampleHasRng": sample_has, "sampleOverwrites": overwrites, "consumesRng": consumes}


ENTROPY: dict = {}


def check_wiring(chk):
    drv = core.LeanDriver()
    names = ["importance", "minipcn", "emcee", "minipcn_smc", "emcee_smc", "blackjax_smc"]
    tables = {n: extract_table(n) for n in names}
    reps = drv.batch(["f64 wiring " + " ".join("1" if tables[n][k] else "0" for k in ("initHasRng", "sampleHasRng", "sampleOverwrites", "consumesRng")) for n in names])
    chk.extra["wiring_tables"] = tables
    # non-interference model (Model/Entropy.lean, theorem C20.runs_reproducible): same / different predicted per class and route
    ent_lines, ent_keys = [], []
    for n in names:
        for r in ROUTES:
            ent_lines.append("f64 entropy " + " ".join("1" if tables[n][k] else "0" for k in ("initHasRng", "sampleHasRng", "sampleOverwrites", "consumesRng"))
                             + f" {r} 1 7 100 200")
            ent_keys.append((n, r))
    ENTROPY.clear()
    for key, rep in zip(ent_keys, drv.batch(ent_lines)):
        if not rep.ok:
            raise core.HarnessError(rep.err)
        ENTROPY[key] = rep.tok()
    pred = {}
    for n, rep in zip(names, reps):
        if not rep.ok:
            raise core.HarnessError(rep.err)
        ok = rep.tok() == "1"
        routes = {}
        for r in ROUTES:
            acc, src = rep.tok() == "1", rep.tok()
            routes[r] = (acc, src)
        pred[n] = routes
        chk.case({"level": "wiring", "sampler": n, "table": tables[n], "model": routes}, f"wiring:{n}:{tables[n]}")
        if tables[n]["consumesRng"] and not ok:
            bad = [r for r, (acc, src) in routes.items() if acc and src != "user"]
            chk.fail("a generator supplied by the user is the one actually used", {"level": "wiring", "sampler": n, "table": tables[n]},
                     f"{n}: on route(s) {bad} the sampler ends up drawing from a fresh generator (table {tables[n]})",
                     {"clause": "wiring", "sampler": n, "routes": bad})
    return pred


# ----------------------------------------------------------------------------- paired runs
def snapshot(samples, history=None):
    out = {"x": ns.to_np(samples.x).tobytes(), "ll": ns.to_np(samples.log_likelihood).tobytes()}
    for k in ("log_w", "weights"):
        v = getattr(samples, k, None)
        if v is not None:
            out[k] = ns.to_np(v).tobytes()
    for k in ("log_evidence", "log_evidence_error"):
        v = getattr(samples, k, None)
        if v is not None:
            out[k] = float(v)
    if history is not None and hasattr(history, "beta"):
        out["beta"] = [float(b) for b in history.beta]
        out["ratio"] = [float(b) for b in history.log_norm_ratio]
        out["accept"] = [float(b) for b in history.mcmc_acceptance]
    return out


def make_generator(gkind, seed):
    """the kinds of NumPy generator a user may hand in: the modern default, one with another bit generator, the legacy RandomState"""
    if gkind == "RandomState":
        return np.random.RandomState(seed)
    if gkind == "MT19937":
        return np.random.Generator(np.random.MT19937(seed))
    return np.random.default_rng(seed)


def one(sampler, route, amb, seed, nsn="numpy", n_final=None, gkind="default_rng"):
    """one run with explicit sources derived from `seed` only and ambient entropy from `amb`"""
    from aspire.samples import Samples

    dims = 2
    target = smcrun.Target(dims)
    g = make_generator(gkind, seed)
    with ambient(amb):
        if route == "top":
            a = al.make_aspire(target, dims=dims, flow_seed=seed % 1000, xp_name=nsn)
            a.fit(al.training_samples(dims, seed))
            kw = {}
            if sampler == "smc":
                kw = dict(sampler_kwargs={"n_steps": 2}, n_final_samples=n_final, rng=g)
            elif sampler == "minipcn":
                kw = dict(n_steps=3, rng=g)
            s = a.sample_posterior(n_samples=12, sampler=sampler, **kw)
            smp = a.sampler
        else:
            flow = smcrun.make_proposal(dims, seed=seed + 17, xp_name=nsn)
            common = dict(log_likelihood=target.log_likelihood, log_prior=target.log_prior, dims=dims, prior_flow=flow,
                          xp=ns.get_xp(nsn), parameters=["a", "b"])
            if sampler == "smc":
                from aspire.samplers.smc.minipcn import MiniPCNSMC

                if route == "ctor":
                    smp = MiniPCNSMC(rng=g, **common)
                    s = smp.sample(12, sampler_kwargs={"n_steps": 2}, n_final_samples=n_final)
                else:
                    smp = MiniPCNSMC(**common)
                    s = smp.sample(12, sampler_kwargs={"n_steps": 2}, n_final_samples=n_final, rng=g)
            elif sampler == "minipcn":
                from aspire.samplers.mcmc import MiniPCN

                smp = MiniPCN(**common)
                s = smp.sample(12, rng=g, n_steps=3)
            else:
                from aspire.samplers.importance import ImportanceSampler

                smp = ImportanceSampler(**common)
                s = smp.sample(12)
        used = getattr(smp, "rng", None)
        kernel_rng = getattr(getattr(smp, "sampler", None), "rng", None)
    return snapshot(s, getattr(smp, "history", None)), used, kernel_rng, g


def check_pairs(chk, r, n_seeds, pred):
    combos = [("importance", "call"), ("importance", "top"), ("minipcn", "call"), ("minipcn", "top"),
              ("smc", "ctor"), ("smc", "call"), ("smc", "top")]
    for i in range(n_seeds):
        seed = int(r.integers(1, 100000))
        for sampler, route in combos:
            nsn = ("numpy", "torch", "jax")[(i + len(sampler)) % 3] if sampler != "importance" or route != "top" else "numpy"
            if sampler == "minipcn" and nsn == "jax":
                nsn = "torch"      # MiniPCN + jax + identity preconditioning crashes in IdentityTransform (numpy z): noted in DESIGN
            n_final = None if i % 2 else 20
            gkind = ("default_rng", "RandomState", "MT19937")[(i + len(route)) % 3] if sampler == "smc" else "default_rng"
            chk.count(f"generator:{gkind}")
            case = {"level": "pair", "sampler": sampler, "route": route, "seed": seed, "ns": nsn, "n_final_samples": n_final, "generator": gkind}
            chk.count(f"{sampler}/{route}")
            chk.case(case if chk.evaluations < 12 else None, json.dumps(case))
            try:
                a, used_a, kern_a, ga = one(sampler, route, 1, seed, nsn, n_final, gkind)
                b, used_b, kern_b, gb = one(sampler, route, 2, seed, nsn, n_final, gkind)
            except Exception as exc:   # noqa
                chk.fail("run total", case, repr(exc)[:300], {"clause": "raise", "sampler": sampler, "route": route})
                continue
            diff = [k for k in a if a[k] != b.get(k) and not (isinstance(a[k], float) and a[k] != a[k] and b.get(k) != b.get(k))]
            sig = {"clause": "reproducible", "sampler": sampler, "route": route}
            if diff:
                chk.fail("same explicit sources give bit-identical results", case,
                         f"two runs with the same seeds/generators but different ambient entropy differ in {diff}", {**sig, "fields": diff})
            if sampler == "smc" and used_a is not ga:
                chk.fail("a generator supplied by the user is the one actually used", case,
                         f"sampler.rng is not the supplied generator ({type(used_a).__name__})", {**sig, "clause": "identity"})
            if sampler == "minipcn" and kern_a is not ga:
                chk.fail("a generator supplied by the user is the one actually used", case,
                         "the kernel was not given the supplied generator", {**sig, "clause": "identity"})
            # model prediction for this route
            name = {"smc": "minipcn_smc"}.get(sampler, sampler)
            if name in pred and pred[name][route][0]:
                says_user = pred[name][route][1] == "user"
                observed_user = (used_a is ga) if sampler == "smc" else (kern_a is ga) if sampler == "minipcn" else True
                if sampler != "importance" and says_user != observed_user:
                    chk.disagree("wiring", case, pred[name][route], "user" if observed_user else "ambient")
                # the non-interference model: `same` predicted <=> the two runs (different ambient entropy) are bit-identical
                if tables_consume(name) and (name, route) in ENTROPY:
                    chk.count("entropy_model:" + ENTROPY[(name, route)])
                    if (ENTROPY[(name, route)] == "same") != (not diff):
                        chk.disagree("entropy", case, ENTROPY[(name, route)], "same" if not diff else "diff")


def tables_consume(name):
    return name in ("minipcn", "minipcn_smc", "emcee_smc", "blackjax_smc", "emcee")


def check_reuse(chk, r, n):
    """one sampler OBJECT serving several sampling calls, each with its own explicit generator: the second call with the same explicit
    sources must give bit-identical results to the first (and to a fresh object), and must draw from the generator it was handed"""
    from aspire.samplers.mcmc import MiniPCN
    from aspire.samplers.smc.minipcn import MiniPCNSMC

    for i in range(n):
        seed = int(r.integers(1, 100000))
        for kind in ("smc", "minipcn"):
            nsn = ("numpy", "torch")[i % 2]
            dims = 2
            target = smcrun.Target(dims)
            flow = smcrun.make_proposal(dims, seed=seed + 17, xp_name=nsn)
            common = dict(log_likelihood=target.log_likelihood, log_prior=target.log_prior, dims=dims, prior_flow=flow,
                          xp=ns.get_xp(nsn), parameters=["a", "b"])
            case = {"level": "reuse", "sampler": kind, "seed": seed, "ns": nsn}
            chk.count(f"reuse:{kind}")
            chk.case(None, json.dumps(case))
            try:
                with ambient(1):
                    smp = MiniPCNSMC(**common) if kind == "smc" else MiniPCN(**common)
                    outs, states = [], []
                    for call in range(3):
                        g = np.random.default_rng(seed if call != 1 else seed + 1)      # call 1 uses OTHER sources in between
                        flow.g = np.random.default_rng(seed + 17)
                        if kind == "smc":
                            s_ = smp.sample(12, sampler_kwargs={"n_steps": 2}, rng=g)
                            outs.append(snapshot(s_, smp.history))
                        else:
                            s_ = smp.sample(12, rng=g, n_steps=3)
                            outs.append(snapshot(s_, None))
                        states.append(g.bit_generator.state["state"]["state"])
            except Exception as exc:   # noqa
                chk.fail("run total", case, repr(exc)[:300], {"clause": "raise", "sampler": kind, "route": "reuse"})
                continue
            a, b = outs[0], outs[2]
            diff = [k for k in a if a[k] != b.get(k) and not (isinstance(a[k], float) and a[k] != a[k] and b.get(k) != b.get(k))]
            if diff or states[0] != states[2]:
                chk.fail("same explicit sources give bit-identical results", case,
                         f"first and third call on the same sampler object with identical explicit sources differ in {diff or 'the final state of the supplied generator'}",
                         {"clause": "reproducible", "sampler": kind, "route": "reuse", "fields": diff})


def check_flows(chk, quick):
    """flow construction + training twice with the same seed / key, different ambient entropy"""
    import torch

    r = np.random.default_rng(4)
    data = r.normal(0.3, 0.7, (120, 2))
    from aspire.flows import get_flow_wrapper

    # (a seed is a seed whatever integer type it has: a Python int, a NumPy integer drawn from a SeedSequence or a generator)
    for backend, seeds in (("zuko", [0, 1234, np.int64(77), np.uint32(5)]), ("flowjax", [0, 7])):
        for seed in seeds[: 1 if quick and backend == "flowjax" else 4]:
            outs = []
            for amb in (1, 2):
                with ambient(amb):
                    F, xp = get_flow_wrapper(backend)
                    if backend == "zuko":
                        f = F(dims=2, seed=seed, device="cpu")
                        f.fit(data, n_epochs=2)
                        torch.manual_seed(seed + 5)            # the draw's source is explicit too
                        x, lq = f.sample_and_log_prob(16)
                    else:
                        import jax

                        ns.enable_x64()
                        f = F(dims=2, key=jax.random.key(seed))
                        f.fit(data, max_epochs=2)
                        x, lq = f.sample_and_log_prob(16)
                    with torch.no_grad():
                        lp = f.log_prob(data[:8])
                    outs.append((ns.to_np(x).tobytes(), ns.to_np(lq).tobytes(), ns.to_np(lp).tobytes()))
            case = {"level": "flow", "backend": backend, "seed": int(seed), "seed_type": type(seed).__name__}
            chk.count(f"flow:{backend}")
            chk.case(case, json.dumps(case))
            if outs[0] != outs[1]:
                what = [n for n, u, v in zip(("samples", "log_q", "log_prob"), outs[0], outs[1]) if u != v]
                chk.fail("same explicit sources give bit-identical results", case,
                         f"{backend} flow built and trained twice with seed/key {seed!r} ({type(seed).__name__}) differs in {what}",
                         {"clause": "reproducible", "sampler": backend, "route": "flow", "seed": int(seed)})


def check_resume_without_generator(chk):
    """a seeded run is interrupted and CONTINUED by a call that supplies no generator of its own (the checkpoint carries the state of the
    one the run was started with): done twice under different ambient entropy, the continued runs are bit-identical"""
    for seed in (3, 11):
        cfg = {"seed": seed, "dims": 2, "n_samples": 14, "kernel_steps": 2, "like_width": 0.5, "checkpoint_every": 1}
        probe = smcrun.run_smc(cfg)
        if probe["status"] != "done" or probe["target"].n_like < 6:
            continue
        k = probe["target"].n_like // 2
        outs = []
        for amb in (1, 2):
            with ambient(amb):
                r1 = smcrun.run_smc(cfg, fault_at=k, record_checkpoints=True)
                if r1["status"] != "fault" or not r1["ckpts"]:
                    outs.append(None)
                    continue
                s2, _ = smcrun.make_sampler(cfg, smcrun.Target(2, width=cfg["like_width"]))        # built with NO generator
                kw = smcrun.sample_kwargs(cfg, None)
                kw.pop("rng", None)
                smp = s2.sample(cfg["n_samples"], resume_from=r1["ckpts"][-1]["bytes"], **kw)
                outs.append((ns.to_np(smp.x).tobytes(), float(smp.log_evidence), tuple(float(b) for b in s2.history.beta)))
        case = {"level": "resume_without_generator", "cfg": cfg, "fault_at_likelihood_call": k}
        chk.count("resume_without_generator")
        chk.case(case, json.dumps(case))
        if None in outs:
            continue
        if outs[0] != outs[1]:
            chk.fail("same explicit sources give bit-identical results", case,
                     "a seeded run interrupted and continued from its checkpoint by a call without a generator gives different results under different ambient entropy "
                     f"(evidence {outs[0][1]!r} vs {outs[1][1]!r})", {"clause": "reproducible", "sampler": "minipcn_smc", "route": "resume-no-generator", "seed": seed})


def check_loaded_flow(chk):
    """a proposal loaded from a file carries its seed: loading it and drawing, twice in one session (other torch randomness used in
    between), gives bit-identical draws and log-densities"""
    import tempfile

    import h5py
    import torch

    from aspire.flows import get_flow_wrapper

    F, xp = get_flow_wrapper("zuko")
    data = np.random.default_rng(9).normal(0.1, 0.8, (100, 2))
    f = F(dims=2, seed=4321, device="cpu")
    f.fit(data, n_epochs=1)
    tmp = tempfile.mkdtemp(prefix="aspire_verif_")
    try:
        p = f"{tmp}/flow.h5"
        with h5py.File(p, "w") as h:
            f.save(h, "flow")
        outs = []
        for k in range(3):
            with ambient(k + 1):
                if k:
                    torch.rand(7 * k)            # unrelated use of torch's global generator between the loads
                with h5py.File(p, "r") as h:
                    g = F.load(h, "flow")
                x, lq = g.sample_and_log_prob(12)
                outs.append((ns.to_np(x).tobytes(), ns.to_np(lq).tobytes()))
        case = {"level": "flow", "backend": "zuko", "route": "load-then-draw", "seed": 4321}
        chk.count("flow:loaded")
        chk.case(case, json.dumps(case))
        if not (outs[0] == outs[1] == outs[2]):
            chk.fail("same explicit sources give bit-identical results", case,
                     "the same saved proposal (seed 4321 stored in the file) loaded and sampled three times in one session gives different draws",
                     {"clause": "reproducible", "sampler": "zuko", "route": "flow-load", "seed": 4321})
    finally:
        import shutil

        shutil.rmtree(tmp, ignore_errors=True)


def check_fresh_processes(chk):
    """the same explicit seeds give the same result in ANOTHER process and whatever ran earlier in the process: the reference analysis
    alone (interpreter hash seed 1) and after an unrelated analysis of another dimensionality (interpreter hash seed 2)"""
    import subprocess
    import sys

    env0 = dict(os.environ)
    procs = []
    for mode, hs in (("alone", "1"), ("after", "2")):
        env = dict(env0, PYTHONHASHSEED=hs, PYTHONPATH=os.pathsep.join([str(core.VERIF)] + [p_ for p_ in env0.get("PYTHONPATH", "").split(os.pathsep) if p_]))
        procs.append((mode, subprocess.Popen([sys.executable, "-m", "harness.props.c20_child", mode], cwd=str(core.VERIF), env=env,
                                             stdout=subprocess.PIPE, stderr=subprocess.PIPE, text=True)))
    res = {}
    for mode, pr in procs:
        try:
            out, err = pr.communicate(timeout=900)
        except subprocess.TimeoutExpired:
            pr.kill()
            raise core.HarnessError(f"c20 child `{mode}` timed out")
        if pr.returncode != 0:
            chk.fail("run total", {"level": "fresh_process", "mode": mode}, (err or out)[-300:], {"clause": "raise", "level": "fresh_process"})
            return
        res[mode] = json.loads(out.strip().splitlines()[-1])
    if "unrelated_work" in res["after"]:
        raise core.HarnessError("c20 child: " + res["after"]["unrelated_work"])
    for what in ("smc_default_options", "preconditioning_flow", "flowjax_default_precision"):
        a, b = res["alone"].get(what), res["after"].get(what)
        case = {"level": "fresh_process", "what": what, "alone": a, "after_an_unrelated_analysis_other_hash_seed": b}
        chk.count("fresh_process:" + what)
        chk.case(case, json.dumps([what]))
        if str(a).startswith("ERROR") or str(b).startswith("ERROR"):
            chk.fail("run total", case, f"{a} / {b}", {"clause": "raise", "level": "fresh_process", "what": what})
        elif a != b:
            chk.fail("same explicit sources give bit-identical results", case,
                     f"{what}: the same seeds give another result in another process / after an unrelated earlier analysis", {"clause": "reproducible", "level": "fresh_process", "what": what})


def run(chk: core.Check):
    r = np.random.default_rng(chk.seed + 20020)
    quick = chk.tier == "quick"
    chk.rule = ("wiring tables of 6 sampler classes extracted from the source; paired runs (same explicit sources, different ambient entropy) of "
                "importance / MiniPCN / MiniPCNSMC x supply route (constructor, sample call, top-level sample_posterior) x namespace x n_final_samples x seed; "
                "zuko and flowjax construction + training pairs; every pair counts as non-trivial")
    chk.trusted += ["ambient entropy is controlled by patching numpy.random.default_rng (argument-less), the ArrayRNG double and torch's global seed",
                    "Emcee / EmceeSMC take their kernel randomness from numpy's global state and accept no generator: outside the quantifier",
                    "kernel doubles draw only from the generator they are handed"]
    pred = check_wiring(chk)
    check_pairs(chk, r, 3 if quick else 40, pred)
    check_reuse(chk, r, 3 if quick else 30)
    check_loaded_flow(chk)
    check_resume_without_generator(chk)
    check_flows(chk, quick)

    check_fresh_processes(chk)

    def search():
        sub = core.Check(chk.pid, chk.tier, chk.seed)
        sub.known, sub.matchers = chk.known, chk.matchers
        p2 = check_wiring(sub)
        check_pairs(sub, np.random.default_rng(chk.seed + 1), 6, p2)
        return sub.failures[0] if sub.failures else None

    return search


def replay(chk: core.Check, path: str) -> int:
    pred = check_wiring(chk)
    check_pairs(chk, np.random.default_rng(chk.seed + 20020), 3, pred)
    for f in chk.failures[:10]:
        print("FAIL", f["clause"], f["detail"])
    print(f"re-ran the wiring extraction and the paired runs: {len(chk.failures)} oracle failure(s)")
    return 1 if chk.failures else 0
