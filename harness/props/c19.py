"""C19 — temporary overrides are fully restored on every exit path.

Programs over {act, touch, obs, raise, seq, pool(close, parallelize_prior), auto_checkpoint(path, every, ...)} are run on a real
`Aspire` instance (recording fake pool, exceptions at every position) and on the Lean model (Model/Ctx.lean, op `ctx`);
quick: all programs up to depth 2 plus random ones to depth 4, thorough: all programs to depth 3.  Besides the model
comparison the property's clauses are evaluated directly: identity (`is`) of log_likelihood / log_prior / checkpoint
defaults after every context exit AND equality with a deep copy taken on entry; pool closed iff asked.
"""
from __future__ import annotations

import copy
import itertools
import json

import numpy as np

from .. import core, smcrun


class Boom(Exception):
    pass


class BoomBase(BaseException):
    """leaves a with-block like KeyboardInterrupt / SystemExit do: not an Exception subclass"""


# how the same program is run on the implementation (the model is the same for all of them): which exception class leaves
# the blocks, and whether the pool handlers are created inline (`with a.enable_pool(...)`) or all up front and entered later
VARIANTS = [("Exception", False), ("BaseException", False), ("KeyboardInterrupt", False), ("Exception", True), ("BaseException", True)]
EXC = {"Exception": Boom, "BaseException": BoomBase, "KeyboardInterrupt": KeyboardInterrupt}


class FakePool:
    def __init__(self, pid):
        self.pid = pid
        self.log = []

    def map(self, f, xs):
        return list(map(f, xs))

    def close(self):
        self.log.append(("close", self.pid))

    def join(self):
        self.log.append(("join", self.pid))

    def terminate(self):
        self.log.append(("close", self.pid))      # terminating a pool closes it


def make_instance():
    from aspire import Aspire

    def ll(samples, map_fn=map):
        return 0.0

    def lp(samples, map_fn=map):
        return 0.0

    return Aspire(log_likelihood=ll, log_prior=lp, dims=1, parameters=["a"])


# ----------------------------------------------------------------------------- programs
def path_name(i) -> str:
    return f"/nonexistent/verif_{i}.h5"


def path_id(name) -> int:
    return int(str(name).rsplit("_", 1)[1].split(".")[0])


def wire(p) -> str:
    k = p[0]
    if k in ("act", "touch", "raise", "obs"):
        return k
    if k == "seq":
        return f"seq {wire(p[1])} {wire(p[2])}"
    if k == "pool":
        return f"pool {p[1]} {int(p[2])} {int(p[3])} {wire(p[4])}"
    if k == "auto":
        return f"auto {p[1]} {p[2]} {int(p[3])} {int(p[4])} {wire(p[5])}"
    raise ValueError(k)


def depth(p):
    return 1 + max([depth(q) for q in p if isinstance(q, tuple)] + [0])


class Env:
    def __init__(self, a):
        self.a = a
        self.tok = {id(a.log_likelihood): 0, id(a.log_prior): 1}
        self.keep = [a.log_likelihood, a.log_prior]       # keep objects alive so that ids stay unique
        self.fresh = 2
        self.events = []
        self.clause_failures = []
        self.exc_cls = Boom
        self.prebuilt = None          # id(pool node) -> (FakePool, handler) when handlers are built before the program runs

    def token(self, obj, expected_new):
        if id(obj) not in self.tok:
            self.tok[id(obj)] = expected_new
            self.keep.append(obj)
        return self.tok[id(obj)]

    def snapshot(self):
        d = getattr(self.a, "_checkpoint_defaults", None)
        dd = None if d is None else (path_id(d["path"]), d["every"], bool(d["save_config"]), bool(d["save_flow"]), bool(d["saved_config"]), bool(d["saved_flow"]))
        return dd


def run_prog(env: Env, p):
    """interpret `p` on the real instance; returns True iff an exception escaped"""
    a = env.a
    k = p[0]
    if k == "act":
        return False
    if k == "touch":
        d = getattr(a, "_checkpoint_defaults", None)
        if d is not None:
            d["saved_config"] = True
            d["saved_flow"] = True
        return False
    if k == "raise":
        raise env.exc_cls()
    if k == "obs":
        env.events.append(("seen", env.token(a.log_likelihood, None), env.token(a.log_prior, None), env.snapshot()))
        return False
    if k == "seq":
        run_prog(env, p[1])
        run_prog(env, p[2])
        return False
    if k == "pool":
        _, pid, close, par, body = p
        if env.prebuilt is not None:
            pool, handler = env.prebuilt[id(p)]
        else:
            pool, handler = FakePool(pid), None
        ll0, lp0 = a.log_likelihood, a.log_prior
        d0 = getattr(a, "_checkpoint_defaults", None)
        base = env.fresh
        env.fresh += 2
        try:
            with (handler if handler is not None else a.enable_pool(pool, close_pool=close, parallelize_prior=par)):
                env.token(a.log_likelihood, base)
                if par:
                    env.token(a.log_prior, base + 1)
                if a.log_likelihood is ll0:
                    env.clause_failures.append(("pool body sees the pooled likelihood", "log_likelihood not replaced inside enable_pool"))
                run_prog(env, body)
        finally:
            env.events.extend(pool.log)
            if a.log_likelihood is not ll0 or a.log_prior is not lp0:
                env.clause_failures.append(("likelihood and prior restored on leaving the pool context", f"pool {pid}: callables differ after exit"))
            asked = bool(close)
            closed = ("close", pid) in pool.log
            if closed != asked:
                env.clause_failures.append(("pool closed only when asked to (and when asked)", f"pool {pid}: close_pool={close} but closed={closed}"))
        return False
    if k == "auto":
        _, path, every, sc, sf, body = p
        had = hasattr(a, "_checkpoint_defaults")
        d0 = getattr(a, "_checkpoint_defaults", None)
        d0_copy = copy.deepcopy(d0)
        try:
            with a.auto_checkpoint(path_name(path), every=every, save_config=sc, save_flow=sf):
                run_prog(env, body)      # the file is never opened: nothing samples here
        finally:
            now_has = hasattr(a, "_checkpoint_defaults")
            d1 = getattr(a, "_checkpoint_defaults", None)
            if now_has != had or d1 is not d0:
                env.clause_failures.append(("checkpoint defaults restored on leaving the auto-checkpoint context", f"auto({path}): defaults object differs after exit"))
            elif d1 != d0_copy:
                env.clause_failures.append(("checkpoint defaults restored on leaving the auto-checkpoint context",
                                            f"auto({path}): defaults {d1} differ from their value on entry {d0_copy}"))
        return False
    raise ValueError(k)


def prebuild(env, p):
    """create the handler of every pool node before anything is entered (ExitStack / helper-function style)"""
    if p[0] == "pool":
        _, pid, close, par, body = p
        pool = FakePool(pid)
        env.prebuilt[id(p)] = (pool, env.a.enable_pool(pool, close_pool=close, parallelize_prior=par))
        prebuild(env, body)
    elif p[0] == "auto":
        prebuild(env, p[5])
    elif p[0] == "seq":
        prebuild(env, p[1]); prebuild(env, p[2])


def execute(p, d0, variant=("Exception", False)):
    a = make_instance()
    if d0 is not None:
        a._checkpoint_defaults = {"path": path_name(d0[0]), "every": d0[1], "save_config": bool(d0[2]), "save_flow": bool(d0[3]),
                                  "saved_config": False, "saved_flow": False}
    env = Env(a)
    env.exc_cls = EXC[variant[0]]
    if variant[1]:
        env.prebuilt = {}
        prebuild(env, p)
    raised = False
    try:
        run_prog(env, p)
    except env.exc_cls:
        raised = True
    final = (env.token(a.log_likelihood, None), env.token(a.log_prior, None), env.snapshot())
    return raised, final, env


# ----------------------------------------------------------------------------- enumeration
LEAVES = [("act",), ("touch",), ("raise",), ("obs",)]


def all_progs(d):
    """all programs of depth <= d over a small alphabet (pool ids / paths are assigned later)"""
    if d == 1:
        return list(LEAVES)
    sub = all_progs(d - 1)
    out = list(sub)
    bodies = sub
    for b in bodies:
        for close in (False, True):
            for par in (False, True):
                out.append(("pool", 0, close, par, b))
        for path in (1, 2):
            out.append(("auto", path, 2 + path, True, path == 1, b))
    small = [q for q in sub if depth(q) <= max(1, d - 1)]
    for x in small:
        for y in LEAVES + [q for q in small if depth(q) >= 2][:6]:
            out.append(("seq", x, y))
    return out


def renumber(p, counter):
    k = p[0]
    if k == "pool":
        counter[0] += 1
        pid = counter[0]
        return ("pool", pid, p[2], p[3], renumber(p[4], counter))
    if k == "auto":
        return ("auto", p[1], p[2], p[3], p[4], renumber(p[5], counter))
    if k == "seq":
        return ("seq", renumber(p[1], counter), renumber(p[2], counter))
    return p


def rand_prog(r, d):
    if d <= 1 or r.random() < 0.2:
        return LEAVES[int(r.integers(4))]
    k = r.choice(["seq", "seq", "pool", "auto"])
    if k == "seq":
        return ("seq", rand_prog(r, d - 1), rand_prog(r, d - 1))
    if k == "pool":
        return ("pool", 0, bool(r.random() < 0.5), bool(r.random() < 0.5), rand_prog(r, d - 1))
    path = int(r.integers(1, 3))
    return ("auto", path, int(r.integers(1, 5)), bool(r.random() < 0.5), bool(r.random() < 0.5), rand_prog(r, d - 1))


def check_progs(chk, progs, exhaustive_note=None):
    drv = core.LeanDriver()
    lines, runs = [], []
    for item in progs:
        p, d0 = item[0], item[1]
        p = renumber(p, [10])
        lines.append("f64 ctx " + ("1 " + " ".join(str(int(v)) for v in d0) if d0 is not None else "0") + " " + wire(p))
        variant = tuple(item[2]) if len(item) > 2 and item[2] else VARIANTS[len(runs) % len(VARIANTS)]
        chk.count(f"variant:{variant[0]}/{'prebuilt' if variant[1] else 'inline'}")
        runs.append((p, d0, execute(p, d0, variant), variant))
    for (p, d0, (raised, final, env), variant), rep in zip(runs, drv.batch(lines)):
        if not rep.ok:
            raise core.HarnessError(rep.err + " :: " + wire(p))
        case = {"prog": wire(p), "initial_defaults": d0, "variant": list(variant)}
        nontriv = ("pool" in wire(p) or "auto" in wire(p))
        chk.count(f"depth:{depth(p)}")
        if "raise" in wire(p):
            chk.count("with_exception")
        chk.case(case if chk.evaluations < 10 and depth(p) >= 3 else None, wire(p) + str(d0) if nontriv else None)
        for clause, detail in env.clause_failures:
            chk.fail(clause, case, detail, {"clause": clause.split()[0]})
        toks = rep.t
        m_raised = toks[0] == "1"
        i = 1

        def inst(i):
            ll_, lp_ = int(toks[i]), int(toks[i + 1])
            if toks[i + 2] == "none":
                return (ll_, lp_, None), i + 3
            d = (int(toks[i + 3]), int(toks[i + 4]), toks[i + 5] == "1", toks[i + 6] == "1", toks[i + 7] == "1", toks[i + 8] == "1")
            return (ll_, lp_, d), i + 9

        m_final, i = inst(i)
        n_ev = int(toks[i]); i += 1
        m_events = []
        for _ in range(n_ev):
            if toks[i] in ("close", "join"):
                m_events.append((toks[i], int(toks[i + 1]))); i += 2
            else:
                s_, i = inst(i + 1)
                m_events.append(("seen",) + s_)
        got_events = [e if e[0] != "seen" else ("seen", e[1], e[2], e[3]) for e in env.events]
        if m_raised != raised or m_final != final or m_events != got_events:
            chk.disagree("contexts", case, {"raised": m_raised, "final": m_final, "events": m_events[:6]},
                         {"raised": raised, "final": final, "events": got_events[:6]})


class PoolBroken(RuntimeError):
    pass


class FaultyPool(FakePool):
    """a pool whose own shutdown fails while the context is being left (a dead worker makes join() raise; close() on a broken pool
    raises; an executor-style object has no close() at all)"""

    def __init__(self, pid, fail):
        super().__init__(pid)
        self.fail = fail

    def close(self):
        if self.fail == "close":
            raise PoolBroken("close")
        super().close()

    def join(self):
        if self.fail == "join":
            raise PoolBroken("join")
        super().join()


class NoClosePool:
    def __init__(self, pid):
        self.pid, self.log = pid, []

    def map(self, f, xs):
        return list(map(f, xs))


def check_shutdown_faults(chk):
    """leaving the pool context is an exit path also when the pool's own shutdown raises: likelihood, prior and checkpoint defaults
    must be those of entry afterwards (direct oracle; the model's pools always shut down cleanly)"""
    layouts = ("pool", "auto(pool)", "pool(auto)", "pool(pool)")
    for layout in layouts:
        for fail in ("close", "join", "no_close_method"):
            for par in (False, True):
                for body_raises in (False, True):
                    for close in (True, False):
                        a = make_instance()
                        ll0, lp0 = a.log_likelihood, a.log_prior
                        had = hasattr(a, "_checkpoint_defaults")
                        case = {"level": "shutdown_fault", "layout": layout, "fail": fail, "parallelize_prior": par, "body_raises": body_raises, "close_pool": close}
                        chk.count("shutdown_fault:" + fail)
                        chk.case(case if chk.evaluations < 30 else None, json.dumps(case))
                        mk = (lambda pid: NoClosePool(pid)) if fail == "no_close_method" else (lambda pid: FaultyPool(pid, fail))

                        def body():
                            if a.log_likelihood is ll0:
                                raise AssertionError("not replaced")
                            if body_raises:
                                raise Boom()
                        try:
                            if layout == "pool":
                                with a.enable_pool(mk(1), close_pool=close, parallelize_prior=par):
                                    body()
                            elif layout == "auto(pool)":
                                with a.auto_checkpoint(path_name(1), every=2):
                                    with a.enable_pool(mk(1), close_pool=close, parallelize_prior=par):
                                        body()
                            elif layout == "pool(auto)":
                                with a.enable_pool(mk(1), close_pool=close, parallelize_prior=par):
                                    with a.auto_checkpoint(path_name(1), every=2):
                                        body()
                            else:
                                with a.enable_pool(FakePool(2), close_pool=False, parallelize_prior=not par):
                                    with a.enable_pool(mk(1), close_pool=close, parallelize_prior=par):
                                        body()
                        except (Boom, PoolBroken, AttributeError):
                            pass
                        except AssertionError as e:
                            chk.fail("pool body sees the pooled likelihood", case, repr(e), {"clause": "pool"})
                            continue
                        if a.log_likelihood is not ll0 or a.log_prior is not lp0:
                            what = [n for n, (x, y) in {"log_likelihood": (a.log_likelihood, ll0), "log_prior": (a.log_prior, lp0)}.items() if x is not y]
                            chk.fail("likelihood and prior restored on leaving the pool context", case,
                                     f"{what} still replaced after the context was left through a failing pool shutdown ({fail})", {"clause": "likelihood", "shutdown_fault": fail})
                        if hasattr(a, "_checkpoint_defaults") != had:
                            chk.fail("checkpoint defaults restored on leaving the auto-checkpoint context", case,
                                     "checkpoint defaults left behind after a failing pool shutdown", {"clause": "checkpoint", "shutdown_fault": fail})


def check_rejected_requests(chk):
    """a pool request the library rejects (a callable without `map_fn`) is an exit path too - the usual "try the pool, fall back to
    serial" pattern: whatever raises, wherever (constructing the handler or entering it), the instance must be as before"""
    from aspire import Aspire

    for lacks in ("log_prior", "log_likelihood"):
        for par in (True, False):
            for layout in ("plain", "inside auto", "inside pool", "one with statement"):
                def ll(samples, map_fn=map):
                    return 0.0

                def ll_plain(samples):
                    return 0.0

                def lp(samples, map_fn=map):
                    return 0.0

                def lp_plain(samples):
                    return 0.0
                a = Aspire(log_likelihood=ll_plain if lacks == "log_likelihood" else ll, log_prior=lp_plain if lacks == "log_prior" else lp, dims=1, parameters=["a"])
                ll0, lp0 = a.log_likelihood, a.log_prior
                case = {"level": "rejected_request", "lacks_map_fn": lacks, "parallelize_prior": par, "layout": layout}
                rejected = lacks == "log_likelihood" or par
                chk.count("rejected_request" if rejected else "accepted_request_control")
                chk.case(case if chk.evaluations < 40 else None, json.dumps(case))
                inner_ll = []
                try:
                    if layout == "plain":
                        with a.enable_pool(FakePool(1), parallelize_prior=par):
                            inner_ll.append(a.log_likelihood)
                    elif layout == "inside auto":
                        with a.auto_checkpoint(path_name(1)):
                            with a.enable_pool(FakePool(1), parallelize_prior=par):
                                inner_ll.append(a.log_likelihood)
                    elif layout == "inside pool":
                        if lacks == "log_likelihood":
                            continue
                        with a.enable_pool(FakePool(2), parallelize_prior=False):
                            mid = a.log_likelihood
                            try:
                                with a.enable_pool(FakePool(1), parallelize_prior=par):
                                    inner_ll.append(a.log_likelihood)
                            except ValueError:
                                pass
                            if rejected and a.log_likelihood is not mid:
                                chk.fail("likelihood and prior restored on leaving the pool context", case,
                                         "a rejected inner pool request left the likelihood of the enclosing pool context replaced", {"clause": "likelihood", "rejected": True})
                    else:
                        with a.auto_checkpoint(path_name(1)), a.enable_pool(FakePool(1), parallelize_prior=par):
                            inner_ll.append(a.log_likelihood)
                except ValueError:
                    pass
                if a.log_likelihood is not ll0 or a.log_prior is not lp0:
                    what = [n for n, (x, y) in {"log_likelihood": (a.log_likelihood, ll0), "log_prior": (a.log_prior, lp0)}.items() if x is not y]
                    chk.fail("likelihood and prior restored on leaving the pool context", case,
                             f"{what} still replaced after a pool request that was rejected (no map_fn in {lacks})", {"clause": "likelihood", "rejected": True})
                if hasattr(a, "_checkpoint_defaults"):
                    chk.fail("checkpoint defaults restored on leaving the auto-checkpoint context", case, "defaults left behind after a rejected pool request",
                             {"clause": "checkpoint", "rejected": True})


def check_decorator_form(chk):
    """the decorator form `@aspire.auto_checkpoint(path, ...)` (every `contextlib` context manager is a decorator too): the decorated
    function is entered again while it is running (it calls itself, or a helper it calls is decorated with the same manager) - nesting of
    the context at any depth; the innermost body ends normally or raises.  Each level sees the manager's defaults; after the outermost
    call the instance's defaults are exactly what they were on entry."""
    for depth_ in (1, 2, 3, 4):
        for raises in (False, True):
            for outer in (None, (2, 9, True, True)):
                for touch in (False, True):
                    case = {"level": "decorator_form", "depth": depth_, "raises": raises, "initial_defaults": outer, "touch": touch}
                    chk.count("decorator_form")
                    chk.case(case if chk.evaluations < 40 else None, json.dumps(case))
                    a = make_instance()
                    if outer is not None:
                        a._checkpoint_defaults = {"path": path_name(outer[0]), "every": outer[1], "save_config": outer[2], "save_flow": outer[3],
                                                  "saved_config": False, "saved_flow": False}
                    had, d0 = hasattr(a, "_checkpoint_defaults"), getattr(a, "_checkpoint_defaults", None)
                    d0_copy = copy.deepcopy(d0)
                    seen = []
                    try:
                        deco = a.auto_checkpoint(path_name(1), every=3, save_config=True, save_flow=False)

                        @deco
                        def stage(k):
                            d = getattr(a, "_checkpoint_defaults", None)
                            seen.append(None if d is None else (d["path"], d["every"], d["saved_config"]))
                            if touch and d is not None:
                                d["saved_config"] = True
                            if k > 1:
                                stage(k - 1)
                            elif raises:
                                raise Boom()
                            seen.append(("after", None if getattr(a, "_checkpoint_defaults", None) is None else a._checkpoint_defaults["path"]))

                        try:
                            stage(depth_)
                        except Boom:
                            pass
                    except Exception as e:   # noqa
                        chk.fail("checkpoint defaults restored on leaving the auto-checkpoint context", case, f"the decorator form raised {e!r}", {"clause": "checkpoint", "decorator": True})
                        continue
                    now_has, d1 = hasattr(a, "_checkpoint_defaults"), getattr(a, "_checkpoint_defaults", None)
                    if now_has != had or d1 is not d0 or d1 != d0_copy:
                        chk.fail("checkpoint defaults restored on leaving the auto-checkpoint context", case,
                                 f"after the outermost call of a function decorated with auto_checkpoint (entered {depth_} deep{', innermost body raised' if raises else ''}) the "
                                 f"defaults are {d1}, on entry they were {d0_copy}", {"clause": "checkpoint", "decorator": True})
                    entered = [s_ for s_ in seen if s_ is None or s_[0] != "after"]
                    if any(s_ is None or s_[0] != path_name(1) or s_[1] != 3 or s_[2] is not False for s_ in entered) or len(entered) != depth_:
                        chk.fail("checkpoint defaults restored on leaving the auto-checkpoint context", case,
                                 f"inside the decorated function the defaults seen at entry of each level were {entered}", {"clause": "checkpoint", "decorator": True, "inside": True})


def check_body_replaces_callables(chk):
    """inside a pool context the BODY assigns `aspire.log_prior` / `aspire.log_likelihood` itself (a temporarily tempered or instrumented
    function) - also the one the context did not replace (the prior under `parallelize_prior=False`, both under `enable_pool(None, ...)`):
    leaving the context, normally or through an exception, puts back exactly what was there on entry"""
    for which in ("log_prior", "log_likelihood", "both"):
        for par in (False, True):
            for pool_kind in ("pool", "none"):
                for close in (False, True):
                    for raises in (False, True):
                        for inner_auto in (False, True):
                            if pool_kind == "none" and close:
                                continue
                            case = {"level": "body_replaces_callables", "replaced_in_body": which, "parallelize_prior": par, "pool": pool_kind,
                                    "close_pool": close, "raises": raises, "auto_checkpoint_inside": inner_auto}
                            chk.count("body_replaces_callables")
                            chk.case(case if chk.evaluations < 40 else None, json.dumps(case))
                            a = make_instance()
                            ll0, lp0 = a.log_likelihood, a.log_prior
                            had = hasattr(a, "_checkpoint_defaults")

                            def tmp_fn(samples, map_fn=map):
                                return 0.0
                            try:
                                try:
                                    with a.enable_pool(FakePool(1) if pool_kind == "pool" else None, close_pool=close, parallelize_prior=par):
                                        if inner_auto:
                                            with a.auto_checkpoint(path_name(1)):
                                                if which in ("log_prior", "both"):
                                                    a.log_prior = tmp_fn
                                                if which in ("log_likelihood", "both"):
                                                    a.log_likelihood = tmp_fn
                                                if raises:
                                                    raise Boom()
                                        else:
                                            if which in ("log_prior", "both"):
                                                a.log_prior = tmp_fn
                                            if which in ("log_likelihood", "both"):
                                                a.log_likelihood = tmp_fn
                                            if raises:
                                                raise Boom()
                                except Boom:
                                    pass
                            except Exception as e:   # noqa
                                chk.fail("likelihood and prior restored on leaving the pool context", case, f"raised {e!r}", {"clause": "likelihood", "body_replaces": True, "exc": type(e).__name__})
                                continue
                            left = [n for n, (x, y) in {"log_likelihood": (a.log_likelihood, ll0), "log_prior": (a.log_prior, lp0)}.items() if x is not y]
                            if left:
                                chk.fail("likelihood and prior restored on leaving the pool context", case,
                                         f"{left} assigned inside the pool context is still on the instance after leaving it", {"clause": "likelihood", "body_replaces": True})
                            if hasattr(a, "_checkpoint_defaults") != had:
                                chk.fail("checkpoint defaults restored on leaving the auto-checkpoint context", case, "defaults left behind", {"clause": "checkpoint", "body_replaces": True})


def check_unusable_paths(chk):
    """an automatic-checkpoint context opened for a path that cannot be used (no path at all to switch checkpointing off for a block, a path
    below a regular file, a directory): whatever happens - the body raises at once, entering the context raises - the caller that catches the
    error finds the instance's defaults exactly as they were, at the top level and inside other contexts"""
    import os
    import tempfile

    with tempfile.TemporaryDirectory(prefix="aspire_verif_") as td:
        blocker = os.path.join(td, "a_file")
        open(blocker, "w").write("x")
        paths = {"none": None, "below_a_regular_file": os.path.join(blocker, "sub", "ckpt.h5"), "a_directory": td, "ordinary": os.path.join(td, "ok", "ckpt.h5")}
        for pname, pth in paths.items():
            for layout in ("top", "inside auto", "inside pool", "inside pool and auto"):
                case = {"level": "unusable_path", "path": pname, "layout": layout}
                chk.count("unusable_paths")
                chk.case(case if chk.evaluations < 40 else None, json.dumps(case))
                a = make_instance()
                ll0, lp0 = a.log_likelihood, a.log_prior
                seen_mid = []

                def attempt():
                    try:
                        with a.auto_checkpoint(pth, every=2):
                            raise Boom()
                    except (Boom, OSError, TypeError, ValueError):
                        pass

                try:
                    if layout == "top":
                        attempt()
                    elif layout == "inside auto":
                        with a.auto_checkpoint(path_name(2), every=5):
                            d_in = a._checkpoint_defaults
                            d_copy = copy.deepcopy(d_in)
                            attempt()
                            seen_mid.append(a._checkpoint_defaults is d_in and a._checkpoint_defaults == d_copy)
                    elif layout == "inside pool":
                        with a.enable_pool(FakePool(1), parallelize_prior=True):
                            attempt()
                            seen_mid.append(not hasattr(a, "_checkpoint_defaults"))
                    else:
                        with a.enable_pool(FakePool(1)), a.auto_checkpoint(path_name(2), every=5):
                            d_in = a._checkpoint_defaults
                            d_copy = copy.deepcopy(d_in)
                            attempt()
                            seen_mid.append(a._checkpoint_defaults is d_in and a._checkpoint_defaults == d_copy)
                except Exception as e:   # noqa
                    chk.fail("checkpoint defaults restored on leaving the auto-checkpoint context", case, f"raised {e!r}", {"clause": "checkpoint", "unusable_path": True, "exc": type(e).__name__})
                    continue
                if hasattr(a, "_checkpoint_defaults") or (seen_mid and not all(seen_mid)):
                    chk.fail("checkpoint defaults restored on leaving the auto-checkpoint context", case,
                             f"after a context for the path `{pname}` was left through an exception: defaults on the instance = {getattr(a, '_checkpoint_defaults', None)}; "
                             f"enclosing context saw its own defaults again: {seen_mid}", {"clause": "checkpoint", "unusable_path": True})
                if a.log_likelihood is not ll0 or a.log_prior is not lp0:
                    chk.fail("likelihood and prior restored on leaving the pool context", case, "callables differ", {"clause": "likelihood", "unusable_path": True})


def run(chk: core.Check):
    check_body_replaces_callables(chk)
    check_unusable_paths(chk)
    check_decorator_form(chk)
    check_shutdown_faults(chk)
    check_rejected_requests(chk)
    r = np.random.default_rng(chk.seed + 19019)
    quick = chk.tier == "quick"
    chk.rule = ("programs over act/touch/obs/raise/seq/enable_pool(close_pool, parallelize_prior)/auto_checkpoint(path, every, save_config, save_flow), "
                "with and without pre-existing checkpoint defaults (as left by resume_from_file): all programs to depth "
                f"{2 if quick else 3} plus random programs to depth 4; non-trivial = contains at least one context; distinct = different program text")
    chk.trusted += ["CPython `with` / `finally` semantics; the fake pool records close/join/terminate"]
    progs = []
    base = all_progs(2 if quick else 3)
    for p in base:
        progs.append((p, None))
        if "auto" in wire(p):
            progs.append((p, (1, 7, True, False)))      # same path as an inner context, different options
    for _ in range(300 if quick else 4000):
        p = rand_prog(r, 4)
        progs.append((p, None if r.random() < 0.6 else (int(r.integers(1, 3)), 9, bool(r.random() < 0.5), True)))
    chk.exhaustive = False
    chk.extra["enumerated_to_depth"] = 2 if quick else 3
    chk.extra["enumerated_programs"] = len(base)
    for i in range(0, len(progs), 500):
        check_progs(chk, progs[i:i + 500])

    def search():
        sub = core.Check(chk.pid, chk.tier, chk.seed)
        sub.known, sub.matchers = chk.known, chk.matchers
        check_progs(sub, [(p, None) for p in all_progs(3)][:3000])
        return sub.failures[0] if sub.failures else None

    return search


def parse_wire(toks):
    t = toks.pop(0)
    if t in ("act", "touch", "raise", "obs"):
        return (t,)
    if t == "seq":
        a = parse_wire(toks); b = parse_wire(toks)
        return ("seq", a, b)
    if t == "pool":
        pid, c, par = int(toks.pop(0)), toks.pop(0) == "1", toks.pop(0) == "1"
        return ("pool", pid, c, par, parse_wire(toks))
    path, ev, sc, sf = int(toks.pop(0)), int(toks.pop(0)), toks.pop(0) == "1", toks.pop(0) == "1"
    return ("auto", path, ev, sc, sf, parse_wire(toks))


def replay(chk: core.Check, path: str) -> int:
    doc = json.loads(open(path).read())
    p = doc["payload"]
    cases = [p["case"]] if "case" in p else [d["case"] for d in p.get("correspondence", [])]
    fixed = {"decorator_form": check_decorator_form, "rejected_request": check_rejected_requests, "body_replaces_callables": check_body_replaces_callables,
             "unusable_path": check_unusable_paths}
    for lv in sorted({c.get("level") for c in cases if c.get("level") in fixed}):
        fixed[lv](chk)           # the fixed scenario family is run again in full
    cases = [c for c in cases if c.get("level") not in fixed]
    check_progs(chk, [(parse_wire(c["prog"].split()), tuple(c["initial_defaults"]) if c.get("initial_defaults") else None, c.get("variant"))
                      for c in cases])
    for f in chk.failures[:10]:
        print("FAIL", f["clause"], f["detail"])
    for d in chk.disagreements[:5]:
        print("DISAGREE", d["model"], d["impl"])
    print(f"replayed {len(cases)} case(s): {len(chk.failures)} oracle failure(s), {len(chk.disagreements)} disagreement(s)")
    return 1 if (chk.failures or chk.disagreements) else 0
