"""C05 — kernels are handed the correct (tempered) target in the preconditioned space.

`sampler.log_prob(z, beta)` of MiniPCNSMC / EmceeSMC / BlackJAXSMC and `log_prob(z)` of MiniPCN / Emcee on random z
(including pre-images outside the prior, likelihoods returning nan there, zero-likelihood regions, beta = 1)  vs
the Lean model (Model/Tempering.lean `smcTarget` / `mcmcTarget`) fed with L, pi, q evaluated by the user functions
and the proposal at the pre-image and with the transform's own inverse log-Jacobian; the property's formula is
recomputed independently in the harness, and the points actually handed to the user's functions are compared
with the pre-image.  (Exactness of the transform and its Jacobian is C04's subject.)
"""
from __future__ import annotations

import json
import math

import numpy as np

from .. import core, ns, smcrun
from ..core import fh, fl

NSS = ("numpy", "torch", "jax")
SAMPLERS = ("minipcn_smc", "emcee_smc", "blackjax_smc", "minipcn", "emcee")
PRECONDS = [None,
            {"bounded_to_unbounded": True, "bounded_transform": "logit", "affine_transform": False},
            {"bounded_to_unbounded": True, "bounded_transform": "probit", "affine_transform": False},
            {"bounded_to_unbounded": True, "bounded_transform": "logit", "affine_transform": True},
            {"bounded_to_unbounded": False, "affine_transform": True},
            {"bounded_to_unbounded": False, "affine_transform": False, "periodic": [0]},
            {"bounded_to_unbounded": True, "bounded_transform": "probit", "affine_transform": True, "periodic": [0]}]


def make(cfg):
    target = smcrun.Target(cfg["dims"], center=cfg["like_center"], width=cfg["like_width"], half=cfg["half"],
                           like_cut=cfg.get("like_cut"))
    target.nan_outside = cfg.get("nan_outside", False)
    if cfg.get("memo"):
        target.memo = {}          # an expensive model that caches what it returned for a batch of points
    full = {**smcrun.DEFAULT, **cfg}
    if cfg["sampler"] in ("minipcn_smc", "emcee_smc"):
        s, flow = smcrun.make_sampler(full, target)
    else:
        xp = ns.get_xp(full["ns"])
        dt = ns.native_dtype(full["ns"], full["width"])
        flow = smcrun.make_proposal(full["dims"], mu=full["prop_mu"], sigma=full["prop_sigma"], seed=3, xp_name=full["ns"],
                                    kind=full.get("prop_kind", "gauss"))
        params = [f"p{i}" for i in range(full["dims"])]
        transform = None
        if full.get("precond"):
            from aspire.transforms import CompositeTransform

            pc = dict(full["precond"])
            bounds = {p: [-full["half"], full["half"]] for p in params}
            transform = CompositeTransform(parameters=params, prior_bounds=bounds, xp=xp, dtype=dt,
                                           periodic_parameters=[params[i] for i in pc.pop("periodic", [])], **pc)
        if cfg["sampler"] == "blackjax_smc":
            from aspire.samplers.smc.blackjax import BlackJAXSMC as K
        elif cfg["sampler"] == "minipcn":
            from aspire.samplers.mcmc import MiniPCN as K
        else:
            from aspire.samplers.mcmc import Emcee as K
        s = K(log_likelihood=target.log_likelihood, log_prior=target.log_prior, dims=full["dims"], prior_flow=flow,
              xp=xp, dtype=dt, parameters=params, preconditioning_transform=transform)
    return s, flow, target


def gen_case(r, i, tier):
    sampler = SAMPLERS[i % 5]
    nsn = NSS[(i // 5) % 3]
    pre = PRECONDS[(i // 15) % len(PRECONDS)]
    if sampler == "emcee_smc" and nsn == "jax" and pre is None:
        pre = PRECONDS[1]        # EmceeSMC + jax + identity crashes inside IdentityTransform (numpy z): not C05's subject
    dims = int(r.choice([1, 2, 3]))
    if pre and pre.get("periodic") and dims == 1 and pre.get("bounded_to_unbounded"):
        dims = 2
    cfg = {"sampler": sampler, "ns": nsn, "width": "f64" if r.random() < 0.7 else "f32", "dims": dims, "precond": pre,
           "like_center": float(r.normal(0, 2)), "like_width": float(r.choice([0.3, 1.0, 3.0])), "half": float(r.choice([3.0, 10.0])),
           "prop_sigma": float(r.choice([1.0, 2.5])), "prop_mu": float(r.normal(0, 0.5)),
           "prop_kind": "uniform" if r.random() < 0.3 else "gauss",
           "nan_outside": bool(r.random() < 0.4), "like_cut": float(r.normal(0, 1)) if r.random() < 0.3 else None}
    n = int(r.choice([1, 4, 9]))
    if i % 37 == 11:
        # ONE evaluation of a very large set of kernel states (a population of ten or twenty thousand particles), not a multiple of any
        # power of two: the target of point k is still computed from the proposal density, prior and likelihood of point k
        n = int(r.choice([8193, 9001, 20011]))
        cfg["like_cut"] = None
    bounded = bool(pre and pre.get("bounded_to_unbounded"))
    if bounded:
        z = r.normal(0, 1.5, (n, dims))
        if r.random() < 0.35:
            # a kernel state far out in the unbounded space (pre-image within ~1e-6 .. 1e-12 of a prior bound): beyond the
            # clipping margin of the forward map, where the INVERSE map's own Jacobian must still be used
            far = r.random((n, dims)) < 0.5
            z = np.where(far, np.sign(z) * r.uniform(12.0, 28.0, (n, dims)), z)
    else:
        z = r.uniform(-1.6 * cfg["half"], 1.6 * cfg["half"], (n, dims))     # some pre-images fall outside the prior box
    cfg["z"] = z.tolist()
    cfg["beta"] = float(r.choice([1.0, 1.0, r.uniform(1e-3, 1), 10 ** r.uniform(-6, -1)]))
    if n > 1000:
        cfg["beta"] = float(r.uniform(0.05, 0.9))
    cfg["fit_seed"] = int(r.integers(1 << 30))
    cfg["memo"] = bool(i % 4 == 1)
    cfg["refit"] = bool(i % 3 == 2)
    cfg["pole"] = bool(i % 7 == 3)
    return cfg


def run_case(c):
    s, flow, target = make(c)
    xp = ns.get_xp(c["ns"])
    tr = s.preconditioning_transform
    rfit = np.random.default_rng(c["fit_seed"])
    xfit = rfit.uniform(-0.9 * c["half"], 0.9 * c["half"], (40, c["dims"]))
    if c.get("refit"):
        # the preconditioning is fitted again and again (once on the initial population, then in every mutation, each time on a
        # population of another spread): the target handed to the kernel belongs to the LAST fit
        s.fit_preconditioning_transform(xp.asarray(0.05 * xfit + 0.3 * c["half"]))
    s.fit_preconditioning_transform(xp.asarray(xfit))
    txp = tr.xp
    z_in = txp.asarray(np.asarray(c["z"]), dtype=tr.dtype) if tr.dtype is not None else txp.asarray(np.asarray(c["z"]))
    x_pre, j = tr.inverse(z_in)
    x_pre, j = ns.to_np(x_pre), ns.to_np(j).reshape(-1)
    # (double precision only: in float32 the sampler rounds the pre-image, so "exactly at the pole" would have to be decided after that rounding)
    if c.get("pole") and c["width"] == "f64" and np.all(np.abs(x_pre[0]) < c["half"]):
        target.pole = x_pre[0].copy()       # the likelihood is +inf exactly at the pre-image of the first kernel state
    target.calls.clear()
    seen = {}
    orig_ll = target.log_likelihood

    def spy(samples):
        seen["x"] = ns.to_np(samples.x).copy()
        seen["prior"] = None if getattr(samples, "log_prior", None) is None else ns.to_np(samples.log_prior).copy()
        return orig_ll(samples)

    s._log_likelihood = spy
    smc = c["sampler"].endswith("_smc")
    with np.errstate(all="ignore"):
        if smc:
            out = s.log_prob(z_in, c["beta"])
            if c.get("memo"):
                # the same batch is evaluated again (a kernel re-evaluates its current state; a schedule of temperatures is scanned):
                # the values handed to the kernel the SECOND time are the ones that are checked
                s.log_prob(z_in, min(1.0, c["beta"] * 0.5 + 0.1))
                out = s.log_prob(z_in, c["beta"])
        else:
            out = s.log_prob(z_in)
            if c.get("memo"):
                out = s.log_prob(z_in)
    out = ns.to_np(out).reshape(-1)
    with np.errstate(all="ignore"):
        ll = target.like_np(x_pre)
        lp = target.prior_np(x_pre)
        lq = flow._lp(x_pre)
    aff = getattr(tr, "_affine_transform", None)
    aff_state = None
    if aff is not None and getattr(aff, "_mean", None) is not None:
        aff_state = (ns.to_np(aff._mean).reshape(-1).astype(float), ns.to_np(aff._std).reshape(-1).astype(float))
    return {"out": out, "x": x_pre, "j": j, "ll": ll, "lp": lp, "lq": lq, "seen": seen, "smc": smc, "affine": aff_state,
            "width": ns.width_of(tr.inverse(z_in)[0]) if True else None}


def jacobian_reference(c, o):
    """log|det dx/dz| of the composite preconditioning map at z, in closed form and WITHOUT the implementation's transform code:
    affine stage u = z*std + mean (sum log|std|), then per coordinate: periodic / free 0, logit log(hi-lo) + log sigmoid'(u),
    probit log(hi-lo) + log phi(u).  None for the identity / non-composite case."""
    pre = c["precond"]
    if not pre:
        return None
    z = np.asarray(c["z"], dtype=float)
    u, lj = z, np.zeros(len(z))
    cond = np.zeros(len(z))      # conditioning of the implementation's formula log(x) + log1p(-x) at x = sigmoid(u): ~ exp(|u|) ulps
    if pre.get("affine_transform"):
        if o["affine"] is None:
            return None
        mean, std = o["affine"]
        u = z * std + mean
        lj = lj + np.sum(np.log(np.abs(std)))
    if pre.get("bounded_to_unbounded"):
        per = set(pre.get("periodic", []))
        width = 2 * c["half"]
        for k in range(z.shape[1]):
            if k in per:
                continue
            if pre.get("bounded_transform", "probit") == "logit":
                a = np.abs(u[:, k])
                lj = lj + np.log(width) - a - 2 * np.log1p(np.exp(-a))
                cond = cond + np.exp(np.minimum(a, 700.0))
            else:
                lj = lj + np.log(width) - 0.5 * (np.log(2 * np.pi) + u[:, k] ** 2)
    return lj, cond


def check_cases(chk, cases):
    drv = core.LeanDriver()
    lines, res = [], []
    for c in cases:
        try:
            o = run_case(c)
        except Exception as e:   # noqa
            o = e
        res.append(o)
        if isinstance(o, Exception):
            lines.append("f64 mcmc_target 0 0 0")
        elif o["smc"]:
            lines.append(f"f64 smc_target {fh(c['beta'])} {fl(o['lq'])} {fl(o['ll'])} {fl(o['lp'])} {fl(o['j'])}")
        else:
            lines.append(f"f64 mcmc_target {fl(o['ll'])} {fl(o['lp'])} {fl(o['j'])}")
    reps = drv.batch(lines)
    for c, o, rep in zip(cases, res, reps):
        pre = c["precond"]
        pname = "identity" if not pre else "+".join(k for k, v in (("periodic", pre.get("periodic")), (pre.get("bounded_transform", "bounded") if pre.get("bounded_to_unbounded") else None, pre.get("bounded_to_unbounded")), ("affine", pre.get("affine_transform"))) if v and k)
        chk.count(f"sampler:{c['sampler']}")
        chk.count(f"ns:{c['ns']}/{c['width']}")
        chk.count(f"precond:{pname}")
        key = json.dumps([c["sampler"], c["ns"], c["width"], pname, c["z"][:2], c["beta"]])
        case = dict(c)
        sig = {"sampler": c["sampler"], "ns": c["ns"], "precond": pname}
        if isinstance(o, Exception):
            chk.case(None, None)
            chk.fail("log_prob total", case, repr(o), {**sig, "clause": "raise", "exc": type(o).__name__})
            continue
        n_out = int(np.sum(~np.isfinite(o["lp"])))
        if n_out:
            chk.count("points:zero_prior", n_out)
        if c["beta"] == 1.0:
            chk.count("beta:one")
        chk.case({"sampler": c["sampler"], "ns": c["ns"], "precond": pname, "beta": c["beta"], "n": len(o["out"]), "zero_prior_points": n_out}
                 if chk.evaluations < 10 else None, key)
        f32 = c["width"] == "f32"
        rtol, atol = (1e-9, 1e-9) if not f32 else (2e-4, 2e-3)
        if not rep.ok:
            raise core.HarnessError(rep.err)
        m = np.asarray(rep.fs())
        mag = float(np.max(np.abs(np.concatenate([o["ll"][np.isfinite(o["ll"])], o["lq"][np.isfinite(o["lq"])], o["j"][np.isfinite(o["j"])], [1.0]]))))
        tol_abs = atol * mag
        if len(m) != len(o["out"]) or not core.all_close(m, o["out"], rtol, tol_abs):
            chk.disagree("log_prob", case, m.tolist()[:6], o["out"].tolist()[:6])
        # ---- the property's formula, independently
        with np.errstate(all="ignore"):
            if o["smc"]:
                b = c["beta"]
                exp = (1 - b) * o["lq"] + b * (o["ll"] + o["lp"]) + o["j"]
                exp = np.where(np.isnan(exp), -np.inf, exp)
            else:
                exp = o["ll"] + o["lp"] + o["j"]
        jref = jacobian_reference(c, o)
        if jref is not None:
            jref, jcond = jref
            jtol = (1e-7 if not f32 else 5e-3) * (1 + np.abs(jref)) + 16 * (2.0 ** -52 if not f32 else 2.0 ** -23) * jcond
            badj = [k for k in range(len(jref)) if np.isfinite(jref[k]) and np.isfinite(o["j"][k]) and abs(jref[k] - o["j"][k]) > jtol[k]]
            if badj:
                k = badj[0]
                chk.fail("kernel target equals (1-b) log q + b (log L + log pi) + log|J| at the pre-image", case,
                         f"point {k} (z={np.asarray(c['z'])[k].tolist()}): the log-Jacobian of the pre-image map used is {o['j'][k]!r}, "
                         f"log|det dx/dz| in closed form is {jref[k]!r}", {**sig, "clause": "jacobian"})
        bad = [k for k in range(len(exp)) if not core.close(float(exp[k]), float(o["out"][k]), rtol, tol_abs)]
        if bad:
            k = bad[0]
            chk.fail("kernel target equals (1-b) log q + b (log L + log pi) + log|J| at the pre-image", case,
                     f"point {k}: got {o['out'][k]!r}, formula {exp[k]!r} (ll={o['ll'][k]}, lp={o['lp'][k]}, lq={o['lq'][k]}, j={o['j'][k]}, beta={c['beta']})",
                     {**sig, "clause": "formula", "beta_is_one": c["beta"] == 1.0})
        for k in range(len(exp)):
            if o["lp"][k] == -np.inf:
                v = o["out"][k]
                if o["smc"] and v != -np.inf:
                    chk.fail("zero prior gives minus infinity, never a finite number", case, f"point {k}: {v!r}", {**sig, "clause": "zero_prior"})
                if not o["smc"] and np.isfinite(v):
                    chk.fail("zero prior gives minus infinity, never a finite number", case, f"point {k}: {v!r}", {**sig, "clause": "zero_prior"})
        if o["smc"] and np.any(np.isnan(o["out"])):
            chk.fail("an undefined tempered value is mapped to minus infinity", case, f"{o['out'].tolist()}", {**sig, "clause": "nan"})
        # the user's functions are called at the pre-image of z
        if "x" in o["seen"]:
            xs = o["seen"]["x"].reshape(o["x"].shape) if o["seen"]["x"].size == o["x"].size else o["seen"]["x"]
            if xs.shape != o["x"].shape or not np.allclose(xs, o["x"], rtol=1e-5 if f32 else 1e-12, atol=1e-5 if f32 else 1e-12, equal_nan=True):
                chk.fail("user functions are evaluated at the pre-image of z", case, "points handed to the likelihood differ from inverse(z)", {**sig, "clause": "preimage"})


def gen_run_cfg(r, i):
    """whole runs whose loop may end below temperature 1 (step cap with an explicit minimum step) and whose final set is
    enlarged or shrunk: the kernel must always be handed the target at the temperature of the population it moves"""
    cfg = {"seed": int(r.integers(1, 10000)), "n_samples": int(r.choice([10, 16])), "dims": int(r.choice([1, 2])), "kernel_steps": 2,
           "like_width": float(r.choice([0.05, 0.3, 1.0])), "sampler": ["minipcn_smc", "emcee_smc"][i % 2]}
    mode = i % 4
    if mode == 0:
        cfg.update(max_n_steps=int(r.choice([1, 2, 3])), min_step=float(r.choice([1e-3, 0.01, 0.05])))
    elif mode == 1:
        cfg.update(adaptive=False, n_steps=int(r.choice([2, 3])))
    elif mode == 2:
        cfg.update(max_n_steps=int(r.choice([2, 4])))
    if cfg["sampler"] == "emcee_smc":
        cfg.pop("min_step", None), cfg.pop("max_n_steps", None)
        cfg["n_samples"] = 16
        cfg["emcee_moves"] = bool((i // 2) % 2)      # every second EmceeSMC run: the user chooses the proposal moves
    cfg["n_final_samples"] = [None, int(cfg["n_samples"] * 2), max(4, int(cfg["n_samples"] // 2))][i % 3]
    return cfg


def check_runs(chk, cfgs):
    from .. import smcrun

    for cfg in cfgs:
        res = smcrun.run_smc(cfg)
        chk.case(None, json.dumps(cfg))
        chk.count("run-level")
        if smcrun.collapsed_population(res):
            chk.count("skipped:population_collapsed_rejected_by_library")
            continue
        case = {"level": "run", "cfg": cfg}
        if res["status"] != "done":
            chk.fail("run total", case, repr(res.get("exc")), {"clause": "raise", "level": "run"})
            continue
        betas = [float(b) for b in res["sampler"].history.beta]
        if betas and betas[-1] < 1.0:
            chk.count("run-level:loop_ended_below_one")
        for t, rec in enumerate(res["mutate_trace"]):
            expect = betas[t] if t < len(betas) else 1.0      # iteration t moves to beta_t; the enlargement happens at temperature 1
            if t >= len(betas):
                chk.count("run-level:final_enlargement")
            bad = [b for b in rec["target_betas"] if b is None or b != expect]
            if rec["pop_beta"] is not None and rec["pop_beta"] != expect:
                bad.append(rec["pop_beta"])
            if bad or not rec["target_betas"]:
                chk.fail("kernel target equals (1-b) log q + b (log L + log pi) + log|J| at the pre-image", dict(case, mutate_call=t),
                         f"mutation {t}: the population carries temperature {rec['pop_beta']}, the step's temperature is {expect}, "
                         f"but the kernel's target was evaluated at temperature(s) {sorted(set(bad))[:3]} ({len(rec['target_betas'])} evaluations)",
                         {"clause": "run_beta", "level": "run"})
                break


def run(chk: core.Check):
    r = np.random.default_rng(chk.seed + 5005)
    quick = chk.tier == "quick"
    chk.rule = ("sampler class (MiniPCNSMC, EmceeSMC, BlackJAXSMC, MiniPCN, Emcee) x namespace x width x preconditioning (identity, "
                "periodic, logit, probit, affine and mixes) x random z (pre-images inside and outside the prior) x beta (incl. 1 and 1e-6) x "
                "likelihood returning nan outside the prior / -inf on a half space; all distinct cases count as non-trivial")
    chk.trusted += ["the transform's own inverse and log-Jacobian are taken from the implementation (their exactness is C04)",
                    "numpy/torch/jax arithmetic; the model is executed at Float"]
    cases = [gen_case(r, i, chk.tier) for i in range(315 if quick else 6300)]
    for i in range(0, len(cases), 315):
        check_cases(chk, cases[i:i + 315])
    check_runs(chk, [gen_run_cfg(r, i) for i in range(24 if quick else 400)])

    def search():
        sub = core.Check(chk.pid, chk.tier, chk.seed)
        sub.known, sub.matchers = chk.known, chk.matchers
        rr = np.random.default_rng(chk.seed + 9)
        check_cases(sub, [gen_case(rr, i, "thorough") for i in range(1050)])
        return sub.failures[0] if sub.failures else None

    return search


def replay(chk: core.Check, path: str) -> int:
    doc = json.loads(open(path).read())
    p = doc["payload"]
    cases = [p["case"]] if "case" in p else [d["case"] for d in p.get("correspondence", [])]
    check_runs(chk, [dict(c["cfg"]) for c in cases if c.get("level") == "run"])
    cases = [c for c in cases if c.get("level") != "run"]
    check_cases(chk, cases)
    for f in chk.failures[:10]:
        print("FAIL", f["clause"], f["detail"])
    for d in chk.disagreements[:10]:
        print("DISAGREE", d["op"], d["model"], d["impl"])
    print(f"replayed {len(cases)} case(s): {len(chk.failures)} oracle failure(s), {len(chk.disagreements)} disagreement(s)")
    return 1 if (chk.failures or chk.disagreements) else 0
