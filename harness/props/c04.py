"""C04 — parameter transforms are bijections with exact log-Jacobians.

Every transform class (Identity, Periodic, Logit, Probit, Affine, Composite with all 8 on/off combinations x bounded
kind) x namespace x width x batch shape: forward / inverse / fit of the implementation  vs  the Lean model
(Model/Transforms.lean, op `tfm`, with erf/erfinv implemented numerically in the driver).  Oracle: round trip scaled by
conditioning, forward log-Jacobian against a central finite difference of the implementation's own forward map
(diagonal Jacobian), inverse log-Jacobian = minus forward, wrapping range / congruence / zero log-Jacobian for periodic
parameters, fit(x) = forward(x).
"""
from __future__ import annotations

import json
import math

import numpy as np

from .. import core, ns
from ..core import fh, fl

NSS = ("numpy", "torch", "jax")
EPS = 1e-6


gen_open_override = None


# ----------------------------------------------------------------------------- generation
def gen_bounds(r, d, f32=False):
    lo, hi = [], []
    rel = 1e-2 if f32 else 1e-9        # narrowest interval relative to its offset that the width can still resolve
    for _ in range(d):
        mag = 10 ** r.uniform(-3, 6)
        off = r.choice([0.0, 1.0, -1.0]) * 10 ** r.uniform(-2, 5)
        a = off
        b = off + mag
        if not (b - a) > rel * max(1.0, abs(a), abs(b)):
            b = a + max(1.0, abs(a)) * max(rel * 10, 1e-3)
        lo.append(float(a)); hi.append(float(b))
    return lo, hi


def gen_case(r, i, tier):
    cls = ["composite", "composite", "logit", "probit", "periodic", "affine", "identity", "composite"][i % 8]
    nsn = NSS[(i // 8) % 3]
    width = "f64" if (i // 24) % 3 != 2 else "f32"
    d = int(r.choice([1, 2, 3, 4]))
    n = int(r.choice([1, 2, 7]))
    lo, hi = gen_bounds(r, d, width == "f32")
    if i % 9 == 4:
        # every range has width EXACTLY one, none (or not all) of them starting at zero: [-0.5, 0.5], [1, 2], [-1, 0], [100, 101]
        lo = [float(r.choice([-0.5, 1.0, -1.0, 0.0, 100.0, -3.0])) for _ in range(d)]
        if all(v == 0.0 for v in lo):
            lo[0] = -0.5
        hi = [v + 1.0 for v in lo]
    elif i % 9 == 7 and cls in ("composite", "logit", "probit"):
        # MANY parameters whose widths multiply to something outside the range of the working precision (twenty parameters on [-50, 50]
        # in float32, thirty narrow ones, a dozen of width 1e26 in float64): the log-Jacobian is the SUM of the logs of the widths
        if width == "f32":
            d = int(r.choice([20, 30]))
            w_ = float(r.choice([100.0, 1e-2]))
        else:
            d = 12
            w_ = float(r.choice([1e26, 1e-27]))
        lo = [-0.5 * w_] * d
        hi = [0.5 * w_] * d
    c = {"cls": cls, "ns": nsn, "width": width, "d": d, "n": n, "lo": lo, "hi": hi, "bounded_kind": str(r.choice(["logit", "probit"])),
         "periodic_on": False, "bounded_on": False, "affine_on": False, "periodic_idx": [], "shape1d": False, "order": i % 3}
    if cls == "composite":
        k = (i // 8) % 8
        c["periodic_on"], c["bounded_on"], c["affine_on"] = bool(k & 1), bool(k & 2), bool(k & 4)
        if c["periodic_on"]:
            m = int(r.integers(1, d + 1))
            c["periodic_idx"] = sorted(int(v) for v in r.choice(d, m, replace=False))
    elif cls == "periodic":
        c["periodic_on"], c["periodic_idx"] = True, list(range(d))
    elif cls in ("logit", "probit"):
        c["bounded_on"], c["bounded_kind"] = True, cls
    elif cls == "affine":
        c["affine_on"] = True
    # points
    x = np.empty((n, d))
    for j in range(d):
        w = hi[j] - lo[j]
        if j in c["periodic_idx"]:
            mode = r.choice(["inside", "far", "edge", "multiple"], n)
            for t in range(n):
                if mode[t] == "inside":
                    x[t, j] = lo[j] + r.uniform(0, 1) * w
                elif mode[t] == "far":
                    x[t, j] = lo[j] + r.uniform(-40, 40) * w
                elif mode[t] == "edge":
                    x[t, j] = float(r.choice([lo[j], hi[j], lo[j] - 1e-20, np.nextafter(lo[j], -np.inf), np.nextafter(hi[j], -np.inf)]))
                else:
                    x[t, j] = lo[j] + float(r.integers(-5, 6)) * w
        else:
            u = r.choice([r.uniform(0.05, 0.95), r.uniform(2 * EPS, 1e-3), 1 - r.uniform(2 * EPS, 1e-3), 0.5], n) if True else None
            u = np.array([float(r.choice([r.uniform(0.05, 0.95), r.uniform(2 * EPS, 1e-3), 1 - r.uniform(2 * EPS, 1e-3), 0.5])) for _ in range(n)])
            x[:, j] = lo[j] + u * w
    if width == "f32":
        x = x.astype(np.float32).astype(np.float64)
        c["lo"] = [float(np.float32(v)) for v in lo]
        c["hi"] = [float(np.float32(v)) for v in hi]
    # after rounding every non-periodic point must still be strictly inside the clipping margin
    for j in range(d):
        if j not in c["periodic_idx"]:
            a, b = c["lo"][j], c["hi"][j]
            u = (x[:, j] - a) / (b - a)
            badu = ~((u > 1.5 * EPS) & (u < 1 - 1.5 * EPS))
            x[badu, j] = np.float32(0.5 * (a + b)) if width == "f32" else 0.5 * (a + b)
    c["x"] = x.tolist()
    fit = r.normal(0, 1, (12, d))
    for j in range(d):
        fit[:, j] = c["lo"][j] + (0.5 + 0.2 * np.tanh(fit[:, j])) * (c["hi"][j] - c["lo"][j])
    if cls == "affine" and (i // 8) % 2 == 1:
        # a column that is numerically (not exactly) constant: its spread is far below the machine epsilon of the width, around zero,
        # where such spreads are representable (a parameter that barely moves, an offset that was subtracted upstream)
        tiny = 1e-9 if width == "f32" else 1e-19
        fit[:, 0] = tiny * r.normal(0, 1, len(fit))
        xs_ = np.asarray(c["x"])
        xs_[:, 0] = tiny * r.normal(0, 3, len(xs_))
        c["x"] = (xs_.astype(np.float32).astype(np.float64) if width == "f32" else xs_).tolist()
        c["tiny_spread_column"] = True
    if width == "f32":
        fit = fit.astype(np.float32).astype(np.float64)
    c["fit"] = fit.tolist()
    c["shape1d"] = bool(cls == "composite" and n == 1 and r.random() < 0.5)
    return c


# ----------------------------------------------------------------------------- implementation
def build(c):
    from aspire import transforms as T

    xp = ns.get_xp(c["ns"])
    dt = ns.native_dtype(c["ns"], c["width"])
    d = c["d"]
    params = [f"p{i}" for i in range(d)]
    lo, hi = np.asarray(c["lo"]), np.asarray(c["hi"])
    if c["cls"] == "identity":
        return T.IdentityTransform(xp=xp, dtype=dt)
    if c["cls"] == "periodic":
        return T.PeriodicTransform(lower=xp.asarray(lo, dtype=dt), upper=xp.asarray(hi, dtype=dt), xp=xp, dtype=dt)
    if c["cls"] == "logit":
        return T.LogitTransform(lower=xp.asarray(lo, dtype=dt), upper=xp.asarray(hi, dtype=dt), xp=xp, eps=EPS, dtype=dt)
    if c["cls"] == "probit":
        return T.ProbitTransform(lower=xp.asarray(lo, dtype=dt), upper=xp.asarray(hi, dtype=dt), xp=xp, eps=EPS, dtype=dt)
    if c["cls"] == "affine":
        return T.AffineTransform(xp=xp, dtype=dt)
    # the mapping of bounds and the list of periodic names are given in an order that need not be the order of `parameters`
    # (a dictionary built from a configuration file, a sorted list): the transform must match them BY NAME
    items = [(p, [float(a), float(b)]) for p, a, b in zip(params, lo, hi)]
    per = [params[j] for j in c["periodic_idx"]] if c["periodic_on"] else []
    order = c.get("order", 0)
    if order == 1:
        items, per = items[::-1], per[::-1]
    elif order == 2:
        items, per = items[1:] + items[:1], per[1:] + per[:1]
    bounds = dict(items)
    return T.CompositeTransform(parameters=params, periodic_parameters=per,
                                prior_bounds=bounds, bounded_to_unbounded=c["bounded_on"], bounded_transform=c["bounded_kind"],
                                affine_transform=c["affine_on"], xp=xp, eps=EPS, dtype=dt)


def kinds_wire(c):
    toks = []
    for j in range(c["d"]):
        if c["periodic_on"] and j in c["periodic_idx"]:
            toks += ["p", fh(c["lo"][j]), fh(c["hi"][j])]
        elif c["bounded_on"] and math.isfinite(c["lo"][j]) and math.isfinite(c["hi"][j]):
            toks += ["b", fh(c["lo"][j]), fh(c["hi"][j])]
        else:
            toks.append("f")
    return toks


def cfg_wire(c, affine=None):
    toks = [str(c["d"])] + kinds_wire(c) + [c["bounded_kind"], fh(EPS)]
    if affine is None:
        toks.append("0")
    else:
        toks += ["1"] + [fh(v) for v in affine[0]] + [fh(v) for v in affine[1]]
    toks += [fh(math.sqrt(2)), fh(math.log(2 * math.pi))]
    return toks


def rows_wire(rows):
    rows = np.asarray(rows, dtype=float)
    return [str(len(rows))] + [fh(v) for v in rows.reshape(-1)]


def run_impl(c):
    xp = ns.get_xp(c["ns"])
    dt = ns.native_dtype(c["ns"], c["width"])
    t = build(c)
    out = {}
    xfit = xp.asarray(np.asarray(c["fit"]), dtype=dt)
    if c.get("refit", True):
        # an earlier fit on data with a different spread (objects are refitted at every SMC iteration)
        f0 = np.asarray(c["fit"])
        f0 = np.asarray(c["lo"]) + (f0 - np.asarray(c["lo"])) * 0.37 + 0.11 * (np.asarray(c["hi"]) - np.asarray(c["lo"]))
        t.fit(xp.asarray(f0, dtype=dt))
    yfit = t.fit(xfit)
    out["fit_y"] = ns.to_np(yfit)
    yf2, _ = t.forward(xfit)
    out["fit_fwd"] = ns.to_np(yf2)
    aff = getattr(t, "_affine_transform", None) if c["cls"] == "composite" else (t if c["cls"] == "affine" else None)
    if aff is not None and getattr(aff, "_mean", None) is not None:
        out["affine"] = (ns.to_np(aff._mean).reshape(-1), ns.to_np(aff._std).reshape(-1))
    x = np.asarray(c["x"])
    xin = xp.asarray(x[0] if c["shape1d"] else x, dtype=dt)
    # the same fitted object is used for many batches of the same shape (every kernel step): two warm-up batches first; the
    # results that are checked are those of the THIRD call, and what the earlier calls returned must not change afterwards
    fit_rows = np.asarray(c["fit"])
    warm = []
    for shift in (0, 1):
        rows = fit_rows[[(k + shift) % len(fit_rows) for k in range(max(1, len(x)))]]
        win = xp.asarray(rows[0] if c["shape1d"] else rows, dtype=dt)
        yw, ljw = t.forward(win)
        xbw, ljiw = t.inverse(yw)
        warm.append((ljw, np.array(ns.to_np(ljw), copy=True), ljiw, np.array(ns.to_np(ljiw), copy=True)))
    y, lj = t.forward(xin)
    out["y"], out["lj"] = ns.to_np(y).reshape(-1, c["d"]), ns.to_np(lj).reshape(-1)
    out["lj_width"] = ns.width_of(lj)
    xb, lji = t.inverse(y)
    out["x_back"], out["lji"] = ns.to_np(xb).reshape(-1, c["d"]), ns.to_np(lji).reshape(-1)
    out["warm_changed"] = [k for k, (a, a0, b, b0) in enumerate(warm)
                           if not (np.array_equal(ns.to_np(a), a0, equal_nan=True) and np.array_equal(ns.to_np(b), b0, equal_nan=True))]
    out["t"], out["xp"], out["dt"] = t, xp, dt
    return out


def check_cases(chk, cases):
    drv = core.LeanDriver()
    res, lines = [], []
    for c in cases:
        try:
            o = run_impl(c)
        except Exception as e:   # noqa
            o = e
        res.append(o)
        if isinstance(o, Exception):
            lines += ["f64 lse 1 " + fh(0.0)] * 3
            continue
        w = c["width"]
        ddof = 1 if c["ns"] == "torch" else 0
        cw_fit = cfg_wire(c, ([0.0] * c["d"], [1.0] * c["d"]) if c["affine_on"] else None)
        lines.append(" ".join([w, "tfm", "fit"] + cw_fit + [str(ddof)] + rows_wire(c["fit"])))
        cw = cfg_wire(c, o.get("affine") if c["affine_on"] else None)
        x = np.asarray(c["x"])[:1] if c["shape1d"] else np.asarray(c["x"])
        lines.append(" ".join([w, "tfm", "fwd"] + cw + ["0"] + rows_wire(x)))
        lines.append(" ".join([w, "tfm", "inv"] + cw + ["0"] + rows_wire(o["y"])))
    reps = drv.batch(lines)
    for k, (c, o) in enumerate(zip(cases, res)):
        r_fit, r_fwd, r_inv = reps[3 * k: 3 * k + 3]
        check_one(chk, c, o, r_fit, r_fwd, r_inv)


def combo(c):
    if c["cls"] != "composite":
        return c["cls"]
    return "composite:" + "".join(s for s, on in (("P", c["periodic_on"]), ("B" + c["bounded_kind"][0], c["bounded_on"]), ("A", c["affine_on"])) if on) or "composite:-"


def check_one(chk, c, o, r_fit, r_fwd, r_inv):
    d, w = c["d"], c["width"]
    f32 = w == "f32"
    eps = 2.0 ** -23 if f32 else 2.0 ** -52
    chk.count(f"class:{combo(c)}")
    chk.count(f"ns:{c['ns']}/{w}")
    key = json.dumps([c["cls"], c["ns"], w, c["periodic_on"], c["bounded_on"], c["affine_on"], c["bounded_kind"], c["lo"], c["x"][0]])
    case = {k: c[k] for k in c}
    sig = {"cls": combo(c), "ns": c["ns"], "width": w}
    if isinstance(o, Exception):
        chk.case(None, None)
        chk.fail("transform total", case, repr(o)[:300], {**sig, "clause": "raise", "exc": type(o).__name__})
        return
    chk.case({k: c[k] for k in ("cls", "ns", "width", "d", "n", "periodic_on", "bounded_on", "affine_on", "bounded_kind", "lo", "hi")} if chk.evaluations < 8 else None, key)
    if o.get("warm_changed"):
        chk.fail("inverse log-Jacobian is the negative of the forward one", case,
                 f"log-Jacobian arrays returned by earlier call(s) {o['warm_changed']} on the same object changed after later calls",
                 {**sig, "clause": "aliasing"})
    x = np.asarray(c["x"])[:1] if c["shape1d"] else np.asarray(c["x"])
    lo, hi = np.asarray(c["lo"]), np.asarray(c["hi"])
    wdt = hi - lo
    y, lj, xb, lji = o["y"], o["lj"], o["x_back"], o["lji"]
    per = np.zeros(d, bool)
    if c["periodic_on"]:
        per[c["periodic_idx"]] = True
    bnd = (~per) & c["bounded_on"]
    # ---------------- model vs implementation
    for rep in (r_fit, r_fwd, r_inv):
        if not rep.ok:
            raise core.HarnessError(rep.err)
    scale_x = np.maximum(np.abs(lo), np.abs(hi)) + wdt
    ytol = 256 * eps * (1 + np.abs(y)) + (1e-9 if not f32 else 1e-3)
    if bnd.any():
        # conditioning of the bounded maps near a bound: dy = du / (u (1-u))
        ub = (x[:, bnd] - lo[bnd]) / wdt[bnd]
        extra = np.zeros_like(ytol)
        extra[:, bnd] = 256 * eps / np.maximum(np.minimum(ub, 1 - ub), EPS / 2)
        ytol = ytol + extra
    if per.any():
        # conditioning of the wrap: the result inherits the ABSOLUTE rounding error of x - lower (an input many periods away from
        # the interval is known only to within ulp(x), whatever the size of the wrapped value)
        extra = np.zeros_like(ytol)
        extra[:, per] = 8 * eps * (np.abs(x[:, per]) + np.abs(lo[per]) + wdt[per])
        ytol = ytol + extra
    my = np.asarray(r_fwd.fs()).reshape(-1, d); mlj = np.asarray(r_fwd.fs())
    ljtol = (1e-9 if not f32 else 2e-3) * (1 + np.abs(lj)) * d
    if bnd.any():
        ljtol = ljtol + (256 * eps / np.maximum(np.minimum(ub, 1 - ub), EPS / 2)).sum(axis=1) * (1 + np.abs(y[:, bnd]).max(axis=1))
    # knife edge of the wrapping: a point within a few ulps of a multiple of the period may land on either side
    near_wrap = np.zeros(len(x), bool)
    if per.any():
        fr = ((x[:, per] - lo[per]) / wdt[per]) % 1.0
        near_wrap = np.any((fr < 64 * eps * (1 + np.abs(x[:, per] - lo[per]) / wdt[per])) | (1 - fr < 64 * eps * (1 + np.abs(x[:, per] - lo[per]) / wdt[per])), axis=1)
        if near_wrap.any():
            chk.knife_edge += int(near_wrap.sum())
    ok_rows = ~near_wrap
    if c["affine_on"] and near_wrap.any():
        ok_rows = ~near_wrap
    if my.shape != y.shape or not np.all(np.abs(my - y)[ok_rows] <= (ytol * (1 + (np.abs(1 / o["affine"][1]) if c["affine_on"] and "affine" in o else 0)))[ok_rows]):
        chk.disagree("forward", case, my.tolist()[:2], y.tolist()[:2])
    elif not np.all(np.abs(mlj - lj) <= ljtol):
        chk.disagree("forward.log_jacobian", case, mlj.tolist()[:4], lj.tolist()[:4])
    mxb = np.asarray(r_inv.fs()).reshape(-1, d); mlji = np.asarray(r_inv.fs())
    xtol = (1e-9 if not f32 else 2e-3) * scale_x * (1 + np.abs(y).max(initial=0.0))
    if not np.all(np.abs(mxb - xb)[ok_rows] <= xtol):
        chk.disagree("inverse", case, mxb.tolist()[:2], xb.tolist()[:2])
    elif not np.all(np.abs(mlji - lji) <= ljtol):
        chk.disagree("inverse.log_jacobian", case, mlji.tolist()[:4], lji.tolist()[:4])
    mfy = np.asarray(r_fit.fs()).reshape(-1, d)
    mm, ms = np.asarray(r_fit.fs()), np.asarray(r_fit.fs())
    if c["affine_on"] and "affine" in o:
        if not np.allclose(mm, o["affine"][0], rtol=1e-9 if not f32 else 1e-3, atol=(1e-9 if not f32 else 1e-3) * (1 + np.abs(o["affine"][0]).max())) or \
           not np.all(np.abs(ms - o["affine"][1]) <= (1e-8 if not f32 else 5e-3) * np.abs(ms) + 256 * eps * (np.abs(mm) + np.abs(ms))):
            chk.disagree("fit.affine", case, [mm.tolist(), ms.tolist()], [o["affine"][0].tolist(), o["affine"][1].tolist()])
    # ---------------- the property's clauses on the implementation
    # fit returns exactly the forward image of the fitting data
    if o["fit_y"].shape != o["fit_fwd"].shape or not np.array_equal(o["fit_y"], o["fit_fwd"], equal_nan=True):
        chk.fail("fitting returns exactly the forward image of the fitting data", case,
                 f"max |fit(x) - forward(x)| = {np.max(np.abs(o['fit_y'] - o['fit_fwd']))}", {**sig, "clause": "fit"})
    # periodic wrapping
    if per.any():
        yp = y if not c["affine_on"] else None
        if yp is not None:
            ypp = yp[:, per] if not c["bounded_on"] else yp[:, per]
            below = ypp < lo[per]
            above = ypp >= hi[per]
            if below.any() or above.any():
                t_, j_ = np.argwhere(below | above)[0]
                xv = x[t_, np.nonzero(per)[0][j_]]
                lov, hiv = lo[per][j_], hi[per][j_]
                chk.fail("periodic parameters are wrapped into [lower, upper)", case,
                         f"x={xv!r} -> {ypp[t_, j_]!r} not in [{lov!r}, {hiv!r})",
                         {**sig, "clause": "periodic_range", "equals_upper": bool(ypp[t_, j_] == hiv),
                          "dist_below_lower_in_widths": float((lov - xv) / (hiv - lov)) if xv < lov else None,
                          "frac_below_a_period": float(((lov - xv) / (hiv - lov)) % 1.0),
                          "rounding_unit": float(64 * eps * (1 + abs(lov - xv) / (hiv - lov)))})
            k_ = (ypp - x[:, per]) / wdt[per]
            if not np.all(np.abs(k_ - np.round(k_)) <= 1e-6 + 64 * eps * (1 + np.abs(x[:, per] - lo[per]) / wdt[per])):
                chk.fail("wrapping is modulo the period", case, f"(y - x)/period = {k_.tolist()}", {**sig, "clause": "periodic_congr"})
    if c["cls"] == "periodic" and not np.all(lj == 0):
        chk.fail("periodic wrapping has zero log-Jacobian", case, f"log_j = {lj.tolist()}", {**sig, "clause": "periodic_lj"})
    # round trip inside the bounds (periodic coordinates: only points already in [lo, hi))
    inside = np.ones_like(x, bool)
    inside[:, per] = (x[:, per] >= lo[per]) & (x[:, per] < hi[per])
    cond = np.ones_like(x)
    if bnd.any():
        u = (x[:, bnd] - lo[bnd]) / wdt[bnd]
        cond[:, bnd] = 1 + np.abs(np.log(u / (1 - u)))
    rt_tol = 512 * eps * (scale_x * cond) + (0 if not f32 else 1e-6 * scale_x)
    if c["affine_on"] and "affine" in o:
        rt_tol = rt_tol + 512 * eps * np.abs(o["affine"][0])
    bad = inside & ~(np.abs(xb - x) <= rt_tol) & ~near_wrap[:, None]
    if bad.any():
        t_, j_ = np.argwhere(bad)[0]
        chk.fail("inverse(forward(x)) = x inside the bounds", case,
                 f"row {t_} coordinate {j_}: x={x[t_, j_]!r} -> {xb[t_, j_]!r} (tolerance {rt_tol[t_, j_] if rt_tol.ndim == 2 else rt_tol[j_]:.3g})", {**sig, "clause": "round_trip"})
    # inverse log-Jacobian is the negative of the forward one at the corresponding point
    neg_tol = (1e-9 if not f32 else 2e-3) * (1 + np.abs(lj)) * d
    if bnd.any():
        neg_tol = neg_tol + (1024 * eps / np.maximum(np.minimum(ub, 1 - ub), EPS / 2)).sum(axis=1)
    if not np.all(np.abs(lji + lj) <= neg_tol):
        t_ = int(np.argmax(np.abs(lji + lj) - neg_tol))
        chk.fail("inverse log-Jacobian is the negative of the forward one", case,
                 f"row {t_}: forward {lj[t_]!r}, inverse at forward(x) {lji[t_]!r}", {**sig, "clause": "negation"})
    # forward log-Jacobian = log |det| of the true derivative: central finite difference of the implementation's forward
    if not f32 and not near_wrap.any():
        t, xp, dt = o["t"], o["xp"], o["dt"]
        h = 1e-6 * np.where(bnd, np.minimum(x - lo, hi - x).min(axis=0), np.maximum(1.0, np.abs(x)).max(axis=0))
        h = np.maximum(h, 1e-9 * scale_x)
        fd = np.zeros(len(x))
        okfd = True
        for j in range(d):
            dx = np.zeros(d); dx[j] = h[j]
            yp_, _ = t.forward(xp.asarray(x + dx, dtype=dt))
            ym_, _ = t.forward(xp.asarray(x - dx, dtype=dt))
            dj = (ns.to_np(yp_).reshape(-1, d)[:, j] - ns.to_np(ym_).reshape(-1, d)[:, j]) / (2 * h[j])
            if np.any(dj == 0) or not np.all(np.isfinite(dj)):
                okfd = False
                break
            fd += np.log(np.abs(dj))
        # points right at the clipping margin have a kink in the clipped map: skip those rows
        at_margin = np.zeros(len(x), bool)
        if bnd.any():
            u = (x[:, bnd] - lo[bnd]) / wdt[bnd]
            at_margin = np.any((u < 3 * EPS) | (u > 1 - 3 * EPS), axis=1)
        # the finite difference itself needs h to be well above the spacing of floats at x, and must not straddle a wrap
        fd_ok_rows = np.all(h[None, :] >= 1e5 * eps * np.maximum(np.abs(x), 1e-300), axis=1)
        # only well-conditioned boxes: a narrow interval far from the origin makes x +- h itself inexact
        fd_ok_rows &= bool(np.all(wdt >= 1e-2 * np.maximum(1.0, np.maximum(np.abs(lo), np.abs(hi)))) or not (bnd.any() or per.any()))
        if per.any():
            fr = ((x[:, per] - lo[per]) / wdt[per]) % 1.0
            fd_ok_rows &= np.all((fr > 1e-3) & (fr < 1 - 1e-3), axis=1)
        at_margin = at_margin | ~fd_ok_rows
        if okfd:
            fd_tol = 2e-4 * d * (1 + np.abs(lj))
            badfd = ~at_margin & ~(np.abs(fd - lj) <= fd_tol)
            if badfd.any():
                t_ = int(np.argmax(badfd))
                chk.fail("forward log-Jacobian = log |det of the true derivative|", case,
                         f"row {t_}: reported {lj[t_]!r}, finite difference {fd[t_]!r}", {**sig, "clause": "jacobian"})
            chk.count("finite_difference_rows", int((~at_margin).sum()))
    # precision of the reported log-Jacobian (dtype is C15's subject; the value must be exact at the working width)
    if o["lj_width"] != w:
        chk.count(f"logJ_width_mismatch:{c['ns']}/{w}->{o['lj_width']}")


def check_open_ranges(chk, r, n_cases):
    """composites whose prior ranges are partly half-open ((0, inf), (-inf, 3)) or the whole line: such parameters are not mapped by the
    bounded transform (there is no unit interval to scale to); they pass through, and the other parameters are transformed exactly as in
    a composite that only has them.  All clauses of the property hold on the whole composite."""
    from aspire import transforms as T

    drv = core.LeanDriver()
    todo = list(gen_open_override or [])
    for i in range(n_cases):
        nsn, width = NSS[i % 3], ("f64" if (i // 3) % 3 != 2 else "f32")
        d = int(r.integers(2, 5))
        lo, hi = gen_bounds(r, d, width == "f32")
        kinds = [str(r.choice(["finite", "lower_only", "upper_only", "line"])) for _ in range(d)]
        kinds[int(r.integers(d))] = str(r.choice(["lower_only", "upper_only"]))
        x = np.empty((5, d)); fit = np.empty((12, d))
        for j, k in enumerate(kinds):
            wj = hi[j] - lo[j]
            if k == "finite":
                x[:, j] = lo[j] + r.uniform(0.05, 0.95, 5) * wj; fit[:, j] = lo[j] + r.uniform(0.1, 0.9, 12) * wj
            elif k == "lower_only":
                x[:, j] = lo[j] + np.exp(r.normal(0, 2, 5)) * wj; fit[:, j] = lo[j] + np.exp(r.normal(0, 1, 12)) * wj; hi[j] = math.inf
            elif k == "upper_only":
                x[:, j] = hi[j] - np.exp(r.normal(0, 2, 5)) * wj; fit[:, j] = hi[j] - np.exp(r.normal(0, 1, 12)) * wj; lo[j] = -math.inf
            else:
                x[:, j] = r.normal(0, 3, 5) * wj; fit[:, j] = r.normal(0, 1, 12) * wj; lo[j], hi[j] = -math.inf, math.inf
        if width == "f32":
            x, fit = x.astype(np.float32).astype(np.float64), fit.astype(np.float32).astype(np.float64)
            lo = [float(np.float32(v)) for v in lo]; hi = [float(np.float32(v)) for v in hi]
            for j, k in enumerate(kinds):     # rounding must not move a point out of its range
                if k == "finite":
                    u = (x[:, j] - lo[j]) / (hi[j] - lo[j]); x[~((u > 0.01) & (u < 0.99)), j] = np.float32(0.5 * (lo[j] + hi[j]))
                    u = (fit[:, j] - lo[j]) / (hi[j] - lo[j]); fit[~((u > 0.01) & (u < 0.99)), j] = np.float32(0.5 * (lo[j] + hi[j]))
        c = {"cls": "composite", "ns": nsn, "width": width, "d": d, "n": 5, "lo": lo, "hi": hi, "kinds": kinds, "bounded_kind": str(r.choice(["logit", "probit"])),
             "periodic_on": False, "periodic_idx": [], "bounded_on": bool(i % 4 != 3), "affine_on": bool((i // 2) % 2), "shape1d": False, "order": i % 3,
             "x": x.tolist(), "fit": fit.tolist(), "level": "open_ranges"}
        todo.append(c)
    lines, outs = [], []
    for c in todo:
        try:
            xp, dt = ns.get_xp(c["ns"]), ns.native_dtype(c["ns"], c["width"])
            t = build(c)
            fy = t.fit(xp.asarray(np.asarray(c["fit"]), dtype=dt))
            ff, _ = t.forward(xp.asarray(np.asarray(c["fit"]), dtype=dt))
            y, lj = t.forward(xp.asarray(np.asarray(c["x"]), dtype=dt))
            xb, lji = t.inverse(y)
            fin = [j for j, k in enumerate(c["kinds"]) if k == "finite"]
            ref = None
            if fin and not c["affine_on"]:
                c2 = {**c, "d": len(fin), "lo": [c["lo"][j] for j in fin], "hi": [c["hi"][j] for j in fin], "order": 0}
                t2 = build(c2)
                t2.fit(xp.asarray(np.asarray(c["fit"])[:, fin], dtype=dt))
                y2, lj2 = t2.forward(xp.asarray(np.asarray(c["x"])[:, fin], dtype=dt))
                ref = (ns.to_np(y2), ns.to_np(lj2).reshape(-1))
            aff = getattr(t, "_affine_transform", None)
            o = {"fy": ns.to_np(fy), "ff": ns.to_np(ff), "y": ns.to_np(y), "lj": ns.to_np(lj).reshape(-1), "xb": ns.to_np(xb), "lji": ns.to_np(lji).reshape(-1), "ref": ref,
                 "affine": (ns.to_np(aff._mean).reshape(-1), ns.to_np(aff._std).reshape(-1)) if c["affine_on"] and aff is not None and getattr(aff, "_mean", None) is not None else None}
        except Exception as e:   # noqa
            o = e
        outs.append(o)
        if isinstance(o, Exception) or (c["affine_on"] and o["affine"] is None):
            lines.append("f64 lse 1 " + fh(0.0))
        else:
            lines.append(" ".join([c["width"], "tfm", "fwd"] + cfg_wire(c, o["affine"] if c["affine_on"] else None) + ["0"] + rows_wire(c["x"])))
    reps = drv.batch(lines)
    for c, o, rep in zip(todo, outs, reps):
        case = dict(c)
        sig = {"cls": "composite:open", "ns": c["ns"], "width": c["width"], "level": "open_ranges"}
        chk.count("class:composite:open_ranges")
        chk.case(None, json.dumps([c["ns"], c["width"], c["kinds"], c["bounded_on"], c["affine_on"], c["lo"][0], c["x"][0]]))
        if isinstance(o, Exception):
            chk.fail("transform total", case, repr(o)[:300], {**sig, "clause": "raise", "exc": type(o).__name__})
            continue
        f32 = c["width"] == "f32"
        eps = 2.0 ** -23 if f32 else 2.0 ** -52
        x = np.asarray(c["x"])
        if not (np.all(np.isfinite(o["y"])) and np.all(np.isfinite(o["lj"])) and np.all(np.isfinite(o["xb"]))):
            chk.fail("inverse(forward(x)) = x inside the bounds", case, f"non-finite image / log-Jacobian / round trip for ranges {c['kinds']}", {**sig, "clause": "round_trip"})
            continue
        if not np.array_equal(o["fy"], o["ff"]):
            chk.fail("fitting returns exactly the forward image of the fitting data", case, "fit(x) differs from forward(x)", {**sig, "clause": "fit"})
        rt = np.abs(o["xb"] - x) <= (1e-9 if not f32 else 2e-3) * (1 + np.abs(x)) * (1 + np.abs(o["y"]))
        if not rt.all():
            t_, j_ = np.argwhere(~rt)[0]
            chk.fail("inverse(forward(x)) = x inside the bounds", case, f"row {t_} coordinate {j_} ({c['kinds'][j_]}): {x[t_, j_]!r} -> {o['xb'][t_, j_]!r}", {**sig, "clause": "round_trip"})
        if not np.all(np.abs(o["lj"] + o["lji"]) <= (1e-9 if not f32 else 2e-3) * (1 + np.abs(o["lj"])) * c["d"]):
            chk.fail("inverse log-Jacobian is the negative of the forward one", case, f"forward {o['lj'][:2].tolist()} inverse {o['lji'][:2].tolist()}", {**sig, "clause": "negation"})
        if not c["affine_on"]:
            for j, k in enumerate(c["kinds"]):
                if k != "finite" and not np.array_equal(o["y"][:, j], x[:, j].astype(o["y"].dtype)):
                    chk.fail("forward log-Jacobian = log |det of the true derivative|", case,
                             f"coordinate {j} with the {k} range [{c['lo'][j]}, {c['hi'][j]}] does not pass through unchanged: {x[:2, j].tolist()} -> {o['y'][:2, j].tolist()}",
                             {**sig, "clause": "jacobian"})
                    break
            if o["ref"] is not None:
                fin = [j for j, k in enumerate(c["kinds"]) if k == "finite"]
                if not (np.array_equal(o["y"][:, fin], o["ref"][0]) and np.allclose(o["lj"], o["ref"][1], rtol=64 * eps, atol=64 * eps)):
                    chk.fail("forward log-Jacobian = log |det of the true derivative|", case,
                             "the finite-range coordinates are not transformed as in the composite that only has them (values or log-Jacobian differ)", {**sig, "clause": "jacobian"})
        if rep.ok and not (c["affine_on"] and o["affine"] is None):
            my = np.asarray(rep.fs()).reshape(-1, c["d"]); mlj = np.asarray(rep.fs())
            tol = (1e-8 if not f32 else 5e-3) * (1 + np.abs(o["y"]))
            if my.shape != o["y"].shape or not np.all(np.abs(my - o["y"]) <= tol) or not np.all(np.abs(mlj - o["lj"]) <= (1e-8 if not f32 else 5e-3) * (1 + np.abs(o["lj"])) * c["d"]):
                chk.disagree("forward.open_ranges", case, [my.tolist()[:2], mlj.tolist()[:2]], [o["y"].tolist()[:2], o["lj"].tolist()[:2]])
        elif not rep.ok:
            raise core.HarnessError(rep.err)


def m_periodic_upper(rec, sig):
    s = rec["signature"]
    d = s.get("frac_below_a_period")
    # x lies within one rounding unit of lower + k*period (k any integer; just below it, or just above it with `x - lower` rounding
    # down across the multiple): `%` returns period - tiny, and lower + (period - tiny) rounds up to `upper`
    ru = s.get("rounding_unit", 0)
    return s.get("clause") == "periodic_range" and s.get("equals_upper") and d is not None and (0 <= d < ru or 0 <= 1 - d < ru)


MATCHERS = {"periodic_forward_returns_upper_just_below_lower": m_periodic_upper}


def run(chk: core.Check):
    r = np.random.default_rng(chk.seed + 4004)
    quick = chk.tier == "quick"
    chk.rule = ("transform class (identity, periodic, logit, probit, affine, composite with all 8 periodic/bounded/affine combinations x logit|probit) x "
                "namespace x width x batch shape (n x d, 1 x d, 1-D) x bounds over 9 decades of width and 7 of offset x points (interior, at the clipping margin, "
                "periodic: far outside, at the edges, lower - 1e-20, exact multiples of the period); all distinct cases count as non-trivial")
    chk.trusted += ["scipy erf/erfinv (the driver uses its own numerical erf/erfinv, agreement is part of the correspondence)", "numpy/torch/jax elementwise ops and `%`"]
    cases = [gen_case(r, i, chk.tier) for i in range(576 if quick else 5760)]
    for i in range(0, len(cases), 288):
        check_cases(chk, cases[i:i + 288])
    check_open_ranges(chk, r, 72 if quick else 720)

    def search():
        sub = core.Check(chk.pid, chk.tier, chk.seed)
        sub.known, sub.matchers = chk.known, chk.matchers
        rr = np.random.default_rng(chk.seed + 44)
        check_cases(sub, [gen_case(rr, i, "thorough") for i in range(1152)])
        return sub.failures[0] if sub.failures else None

    return search


def replay(chk: core.Check, path: str) -> int:
    doc = json.loads(open(path).read())
    p = doc["payload"]
    cases = [p["case"]] if "case" in p else [d["case"] for d in p.get("correspondence", [])]
    if any(c.get("level") == "open_ranges" for c in cases):
        return replay_open(chk, cases)
    check_cases(chk, cases)
    for f in chk.failures[:10]:
        print("FAIL", f["clause"], f["detail"])
    for d in chk.disagreements[:10]:
        print("DISAGREE", d["op"], d["model"], d["impl"])
    print(f"replayed {len(cases)} case(s): {len(chk.failures)} oracle failure(s), {len(chk.disagreements)} disagreement(s); known-finding hits {chk.known_hits}")
    return 1 if (chk.failures or chk.disagreements) else 0


def replay_open(chk, cases):
    global gen_open_override
    gen_open_override = [c for c in cases if c.get("level") == "open_ranges"]
    check_open_ranges(chk, None, 0)
    for f in chk.failures[:10]:
        print("FAIL", f["clause"], f["detail"])
    for d in chk.disagreements[:10]:
        print("DISAGREE", d["op"], d["model"], d["impl"])
    print(f"replayed {len(gen_open_override)} case(s): {len(chk.failures)} oracle failure(s), {len(chk.disagreements)} disagreement(s)")
    return 1 if (chk.failures or chk.disagreements) else 0
