"""C14 — a checkpoint file stays self-consistent under any sequence of operations.

Operation sequences over {fit A/B with/without overwrite, explicit or context path; sample_posterior importance / SMC, completed or
interrupted after k checkpoints; enter / leave auto_checkpoint; resume_from_file} are executed on a real `Aspire` (entry-point
stub proposal whose parameters identify the fit that produced it, kernel doubles) and on the Lean model (Model/Session.lean, op
`session`).  After every operation each file is inspected: the proposal stored in the file is loaded and evaluated on the
stored checkpoint's particles and compared with their stored log q (the property's first clause), and the stored
`sampler_type` is compared with the sampler that wrote the checkpoint (second clause); the model must predict the same
observations.  quick: all sequences to length 3 over a reduced alphabet plus random ones to length 6; thorough: to length 4 / 8.
"""
from __future__ import annotations

import itertools
import json
import os
import pickle
import shutil
import tempfile

import numpy as np

from .. import aspire_level as al
from .. import core, ns, smcrun

CLS2KIND = {"MiniPCNSMC": "smc", "ImportanceSampler": "importance"}


def op_wire(op):
    k = op[0]
    o = lambda v: "-1" if v is None else str(v)
    if k == "fit":
        return f"fit {o(op[1])} {int(op[2])}"
    if k == "sample":
        return f"sample {op[1]} {o(op[2])} {int(op[3])} {op[4]}"
    if k == "enter":
        return f"enter {op[1]} {int(op[2])}"
    if k == "exit":
        return "exit"
    return f"resume {op[1]}"


class Session:
    def __init__(self, tmp, seed):
        self.tmp = tmp
        self.seed = seed
        self.dims = 2
        self.target = smcrun.Target(self.dims)
        self.a = al.make_aspire(self.target, dims=self.dims, flow_seed=seed % 1000)
        self.version = 0
        self.flow_sig = {}              # (mu, sigma) rounded -> version
        self.stack = []                 # context managers entered
        self.nfit = 0
        self.pending_exc = None         # the interruption that is propagating out of the enclosing with-blocks
        self.dflt_every = []            # `every` of the checkpoint defaults in force (contexts entered; primed by resume_from_file)
        self.enter_log = []             # the cadence of every context entered, in order (recorded in the replay)
        self.last_every = 1

    def path(self, p):
        return os.path.join(self.tmp, f"f{p}.h5")

    def do(self, op):
        """returns True iff the operation raised"""
        a, k = self.a, op[0]
        if k != "exit":
            self.pending_exc = None     # the interruption was handled inside the block; the session goes on
        try:
            if k == "fit":
                self.nfit += 1
                data = al.training_samples(self.dims, self.seed + 31 * self.nfit, center=0.2 * self.nfit, spread=0.6 + 0.35 * self.nfit)
                a.fit(data, checkpoint_path=None if op[1] is None else self.path(op[1]), overwrite=op[2])
                self.version += 1
                self.flow_sig[(round(a.flow.mu, 9), round(a.flow.sigma, 9))] = self.version
            elif k == "sample":
                _, kind, p, completed, nck = op
                if a.flow is None:
                    return True
                kw = dict(n_samples=10)
                if kind == "smc":
                    kw.update(sampler="smc", sampler_kwargs={"n_steps": 1}, adaptive=False, n_steps=4)
                if p is not None:
                    kw["checkpoint_path"] = self.path(p)
                # the cadence in force: the context's when the path comes from the context, the call's default otherwise
                self.last_every = self.dflt_every[-1] if (p is None and self.dflt_every) else 1
                self.target.fault_at = None
                if kind == "smc" and not completed:
                    # interrupted after `nck` checkpoints: initial likelihood call + 3 per iteration (kernel 1+1, re-evaluation)
                    self.target.n_like = 0
                    self.target.fault_at = 1 + 3 * nck
                    # the interruption arrives as an ordinary exception or as a KeyboardInterrupt (Ctrl-C)
                    self.target.fault_exc = smcrun.FaultInterrupt if self.seed % 2 else smcrun.Fault
                self.fault_fired = None
                with al.orng_seed(self.seed):
                    try:
                        a.sample_posterior(**kw)
                        if self.target.fault_at is not None:
                            # the planted interruption never arrived (e.g. a run resumed from a FINAL checkpoint has no likelihood call
                            # left): what happened in the environment is a completed run
                            self.fault_fired = self.target.n_like > self.target.fault_at
                    except smcrun.FAULTS as e:
                        self.pending_exc = e
                        self.fault_fired = True
                    finally:
                        self.target.fault_at = None
            elif k == "enter":
                # cadences a user writes: every iteration, only the final checkpoint (0), every second iteration
                every = op[3] if len(op) > 3 else (1, 0, 2, 1)[(self.seed + len(self.stack) + len(self.dflt_every)) % 4]
                cm = a.auto_checkpoint(self.path(op[1]), every=every, save_config=op[2])
                cm.__enter__()
                self.stack.append((cm, a))
                self.dflt_every.append(every)
                self.enter_log.append(every)
            elif k == "exit":
                if self.stack:
                    cm, inst = self.stack.pop()
                    if self.dflt_every:
                        self.dflt_every.pop()
                    e = self.pending_exc
                    if e is not None:
                        # the with-block is left BY the interruption (the usual way an interrupted run leaves its context)
                        try:
                            cm.__exit__(type(e), e, e.__traceback__)
                        except smcrun.FAULTS:
                            pass
                    else:
                        cm.__exit__(None, None, None)
                    if not self.stack:
                        self.pending_exc = None
            elif k == "resume":
                from aspire import Aspire

                self.a = Aspire.resume_from_file(self.path(op[1]), log_likelihood=self.target.log_likelihood, log_prior=self.target.log_prior)
                self.stack = []      # a new instance: contexts of the old one no longer apply
                self.dflt_every = [1]  # ... and it is primed with checkpoint defaults of its own (every=1)
            return False
        except smcrun.FAULTS:
            return False
        except Exception:   # noqa
            return True

    def observe(self, p):
        """what is in file p: flow version, config, checkpoint tag, and the property's two clauses evaluated directly"""
        path = self.path(p)
        s = al.file_summary(path)
        out = {"flow": None, "has_config": False, "cfg": None, "ckpt": None, "consistent": True, "why": None}
        if not s.get("exists"):
            return out
        if s.get("has_flow"):
            out["flow"] = self.flow_sig.get((round(s["flow_mu"], 9), round(s["flow_sigma"], 9)), -1)
        out["has_config"] = bool(s.get("has_config"))
        out["cfg"] = s.get("config_sampler_type")
        b = s.get("ckpt_bytes")
        if b is not None:
            st = pickle.loads(b)
            smp = st["samples"]
            kind = CLS2KIND.get(st.get("sampler"), st.get("sampler"))
            x, lq = ns.to_np(smp.x), ns.to_np(smp.log_q)
            # which proposal were these particles weighted under?  identify it by evaluating every known proposal
            weighted_under = None
            for (mu, sg), v in self.flow_sig.items():
                ref = (-0.5 * ((x - mu) / sg) ** 2 - np.log(sg) - 0.5 * np.log(2 * np.pi)).sum(-1)
                if np.allclose(ref, lq, rtol=1e-9, atol=1e-9):
                    weighted_under = v
            out["ckpt"] = (weighted_under, kind)
            # clause 1: the proposal stored in the file reproduces the stored log q of the checkpoint's particles
            ok1 = False
            if s.get("has_flow"):
                mu, sg = s["flow_mu"], s["flow_sigma"]
                ref = (-0.5 * ((x - mu) / sg) ** 2 - np.log(sg) - 0.5 * np.log(2 * np.pi)).sum(-1)
                ok1 = bool(np.allclose(ref, lq, rtol=1e-9, atol=1e-9))
            # clause 2: the stored configuration names the sampler that wrote the checkpoint
            ok2 = out["cfg"] in ("smc", "minipcn_smc") and kind == "smc" or out["cfg"] == kind
            out["consistent"] = ok1 and ok2
            out["why"] = None if out["consistent"] else ("proposal" if not ok1 else "") + ("+" if not ok1 and not ok2 else "") + ("config" if not ok2 else "")
        return out


def parse_model(rep, nops):
    snaps = " ".join(rep.t).split(" | ")
    out = []
    for sn in snaps:
        t = sn.split()
        raised, mem = t[0] == "1", t[1]
        files = []
        i = 2
        for _ in range(2):
            flow = None if t[i] == "-" else int(t[i])
            hascfg = t[i + 1] == "1"
            cfg = None if t[i + 2] == "-" else t[i + 2]
            ck = None if t[i + 3] == "-" else (int(t[i + 3]), t[i + 4])
            cons = t[i + 5] == "1"
            files.append({"flow": flow, "has_config": hascfg, "cfg": cfg, "ckpt": ck, "consistent": cons})
            i += 6
        out.append({"raised": raised, "files": files})
    return out


def canonical(ops):
    """drop an `exit` that leaves no context this instance entered (nothing a user can write: a `with` block that was never
    opened); resume_from_file builds a new instance, whose primed defaults are not a context that can be left"""
    out, depth = [], 0
    for op in ops:
        if op[0] == "enter":
            depth += 1
        elif op[0] == "resume":
            depth = 0
        elif op[0] == "exit":
            if depth == 0:
                continue
            depth -= 1
        out.append(op)
    return out


def check_sequences(chk, seqs):
    drv = core.LeanDriver()
    seqs = [canonical(ops) for ops in seqs]
    # 1. execute every sequence on a real Aspire, observing both files after every operation.  An `interrupted` SMC run whose planted
    #    interruption never fired (no likelihood call left, e.g. after resuming from a final checkpoint) IS a completed run: the model
    #    is told what happened in the environment (`effective` operations), never what the implementation made of it.
    runs = []
    for ops in seqs:
        tmp = tempfile.mkdtemp(prefix="aspire_verif_")
        try:
            sess = Session(tmp, seed=len(ops) + 7)
            eff, obs = [], []
            for op in ops:
                sess.fault_fired = None
                raised = sess.do(op)
                # (an importance-kind operation is never interrupted by this harness, but a resumed instance may run it as SMC)
                if op[0] == "sample" and not op[3] and not raised and sess.fault_fired is not True:
                    op = ("sample", op[1], op[2], True, 0)
                    chk.count("interruption_never_fired")
                elif op[0] == "sample" and not op[3] and sess.last_every != 1:
                    # interrupted after op[4] ITERATIONS; the number of checkpoints written before that depends on the cadence in force
                    e_ = sess.last_every
                    op = ("sample", op[1], op[2], False, 0 if e_ == 0 else op[4] // e_)
                    chk.count(f"cadence_in_force:{e_}")
                eff.append(op)
                obs.append([sess.observe(p) for p in (1, 2)])
            runs.append((eff, obs, list(sess.enter_log)))
        finally:
            shutil.rmtree(tmp, ignore_errors=True)
    reps = drv.batch(["f64 session " + " ".join([str(len(eff))] + [op_wire(o) for o in eff]) for eff, _, _ in runs])
    for ops, (eff, obs, entered), rep in zip(seqs, runs, reps):
        if not rep.ok:
            raise core.HarnessError(rep.err)
        model = parse_model(rep, len(eff))
        text = [op_wire(o) for o in eff]
        case = {"ops": text}
        # what is replayed: the operations as PLANNED (where the interruption is planted) with the cadence each context was opened with
        planned, ent = [], list(entered)
        for o in ops:
            w = op_wire(o)
            if o[0] == "enter" and ent:
                w += f" every={ent.pop(0)}"
            planned.append(w)
        case["planned_ops"] = planned
        chk.count(f"length:{len(ops)}")
        nontriv, stopped = False, False
        for j in range(len(eff)):
            for p in (1, 2):
                ob = obs[j][p - 1]
                m = model[j]["files"][p - 1]
                if ob["ckpt"] is not None:
                    nontriv = True
                got = {"flow": ob["flow"], "has_config": ob["has_config"], "cfg": "smc" if ob["cfg"] in ("smc", "minipcn_smc") else ob["cfg"],
                       "ckpt": ob["ckpt"], "consistent": ob["consistent"]}
                if not ob["consistent"]:
                    ck = ob["ckpt"]
                    chk.fail("the stored proposal and configuration belong to the stored checkpoint", {**case, "after_op": j, "file": p},
                             f"after `{text[j]}` file {p}: proposal version {ob['flow']}, config sampler {ob['cfg']}, checkpoint {ck} ({ob['why']})",
                             {"clause": ob["why"], "model_predicts": (not m["consistent"]) and got == m, "last_op": text[j].split()[0],
                              "ckpt_older_than_flow": bool(ck and ob["flow"] is not None and ck[0] is not None and ck[0] < ob["flow"]),
                              "config_names_no_sampler": ob["cfg"] is None,
                              "config_other_sampler": ob["cfg"] not in (None, ck[1] if ck else None) and not (ob["cfg"] in ("smc", "minipcn_smc") and ck and ck[1] == "smc")})
                    stopped = True
                if got != m:
                    chk.disagree("session", {**case, "after_op": j, "file": p}, m, got)
                    stopped = True
                if stopped:
                    break
            if stopped:
                break
        if stopped:
            chk.case(None, " ; ".join(text))
        else:
            chk.case(case if chk.evaluations < 8 else None, " ; ".join(text) if nontriv else None)


# ----------------------------------------------------------------------------- sequences
ALPHA_SMALL = [("fit", 1, False), ("fit", 1, True), ("fit", None, False), ("sample", "smc", 1, True, 0), ("sample", "smc", 1, False, 0),
               ("sample", "smc", 1, False, 2), ("sample", "importance", 1, True, 0), ("sample", "smc", None, True, 0), ("enter", 1, True), ("exit",), ("resume", 1)]


def rand_op(r):
    k = r.choice(["fit", "fit", "sample", "sample", "sample", "enter", "exit", "resume"])
    if k == "fit":
        return ("fit", [None, 1, 2][int(r.integers(3))], bool(r.random() < 0.4))
    if k == "sample":
        kind = "smc" if r.random() < 0.7 else "importance"
        completed = bool(r.random() < 0.6)
        return ("sample", kind, [None, 1, 2][int(r.integers(3))], completed, 0 if completed else int(r.integers(0, 3)))
    if k == "enter":
        return ("enter", int(r.integers(1, 3)), bool(r.random() < 0.8))
    if k == "exit":
        return ("exit",)
    return ("resume", int(r.integers(1, 3)))


def m_stale_checkpoint(rec, sig):
    s = rec["signature"]
    # the (fixed) model of the current code predicts exactly this inconsistency, and it is of the known kind: a checkpoint of an
    # earlier run left next to a replaced proposal or configuration
    return bool(s.get("model_predicts")) and (s.get("ckpt_older_than_flow") or s.get("config_other_sampler") or s.get("config_names_no_sampler"))


MATCHERS = {"stale_checkpoint_of_earlier_run_kept": m_stale_checkpoint}


def check_two_instances(chk):
    """two live objects on one file (outside the single-instance Lean model: direct oracle only): an object obtained by
    resume_from_file keeps what it READ; the original object then refits and samples into the same file; the resumed object's run
    must leave the file consistent (its own proposal next to particles weighted under that proposal)"""
    for variant in (0, 1):
        tmp = tempfile.mkdtemp(prefix="aspire_verif_")
        try:
            sess = Session(tmp, seed=23 + variant)
            steps = []

            def do(op, who):
                sess.do(op)
                steps.append(f"{who}: {op_wire(op)}")
                ob = sess.observe(1)
                if not ob["consistent"]:
                    chk.fail("the stored proposal and configuration belong to the stored checkpoint", {"two_instances": True, "steps": list(steps)},
                             f"after `{steps[-1]}`: file proposal version {ob['flow']}, config sampler {ob['cfg']}, checkpoint {ob['ckpt']} ({ob['why']})",
                             {"clause": ob["why"], "two_instances": True, "model_predicts": False})
                    return False
                return True

            ok = do(("fit", None, False), "a") and do(("sample", "smc", 1, False, 2), "a")
            a_old = sess.a
            ok = ok and do(("resume", 1), "r = resume_from_file")
            r_new = sess.a
            sess.a = a_old
            ok = ok and do(("fit", None, False), "a") and do(("sample", "smc", 1, bool(variant), 0 if variant else 2), "a")
            sess.a = r_new
            ok = ok and do(("sample", "smc", None, True, 0), "r")
            chk.count("two_instance_scenarios")
            chk.case(None, f"two-instances-{variant}")
        finally:
            shutil.rmtree(tmp, ignore_errors=True)


def check_adopted_proposal(chk):
    """an object that has already sampled is given ANOTHER proposal object (the documented manual-resume route `load_flow`, or a plain
    assignment `aspire.flow = ...`) and samples again with the same settings into the same file: the particles of the new run are
    weighted under the proposal the file now holds (outside the Lean model's operations: direct oracle only)"""
    import h5py

    for how in ("load_flow", "assignment"):
        tmp = tempfile.mkdtemp(prefix="aspire_verif_")
        try:
            sess = Session(tmp, seed=31)
            steps = []

            def look(what):
                steps.append(what)
                ob = sess.observe(1)
                if not ob["consistent"]:
                    chk.fail("the stored proposal and configuration belong to the stored checkpoint", {"adopted_proposal": how, "steps": list(steps)},
                             f"after `{steps[-1]}`: file proposal version {ob['flow']}, config sampler {ob['cfg']}, checkpoint {ob['ckpt']} ({ob['why']})",
                             {"clause": ob["why"], "adopted_proposal": how, "model_predicts": False})
                    return False
                return True

            sess.do(("fit", None, False))
            sess.do(("sample", "smc", 1, True, 0))
            ok = look("a: fit; sample smc -> file 1")
            # another object trains another proposal and stores it in file 2
            other = Session(tmp, seed=32)
            other.nfit = 5
            other.do(("fit", 2, False))
            mu, sg = round(other.a.flow.mu, 9), round(other.a.flow.sigma, 9)
            sess.version += 1
            sess.flow_sig[(mu, sg)] = sess.version
            if how == "load_flow":
                with h5py.File(sess.path(2), "r") as f:
                    sess.a.load_flow(f)
            else:
                sess.a.flow = other.a.flow
            sess.do(("sample", "smc", 1, True, 0))
            ok = ok and look(f"a: adopt the proposal of file 2 by {how}; sample smc -> file 1 (same settings as before)")
            chk.count("adopted_proposal_scenarios")
            chk.case(None, f"adopted-proposal-{how}")
        except Exception as e:   # noqa
            chk.fail("run total", {"adopted_proposal": how}, repr(e)[:300], {"clause": "raise", "adopted_proposal": how})
        finally:
            shutil.rmtree(tmp, ignore_errors=True)


def check_real_flow_refit(chk, quick):
    """a REAL proposal (zuko; flowjax too in the thorough tier) fitted a SECOND time on the same object before anything is written: what the
    checkpoint file then holds as `flow` is the proposal the stored particles were weighted under - reloaded from the file, it reproduces
    their stored log q (direct oracle; the Lean session model abstracts a proposal to a version number)"""
    import h5py
    import torch

    from aspire import Aspire
    from aspire.flows import get_flow_wrapper
    from aspire.samples import Samples

    for backend in (("zuko",) if quick else ("zuko", "flowjax")):
        for seq in ("fit;fit;smc->F", "fit;smc->F;fit;smc->F"):
            tmp = tempfile.mkdtemp(prefix="aspire_verif_")
            case = {"level": "real_flow_refit", "backend": backend, "sequence": seq}
            chk.count("real_flow_refit")
            chk.case(None, json.dumps(case))
            try:
                from .. import ns as _ns
                if backend == "flowjax":
                    _ns.enable_x64()
                t = smcrun.Target(2, center=0.4, width=0.8, half=6.0)
                a = Aspire(log_likelihood=t.log_likelihood, log_prior=t.log_prior, dims=2, parameters=["p0", "p1"],
                           prior_bounds={"p0": [-6.0, 6.0], "p1": [-6.0, 6.0]}, flow_backend=backend, dtype="float64", **({"seed": 7} if backend == "zuko" else {}))
                r = np.random.default_rng(3)
                fk = {"n_epochs": 2} if backend == "zuko" else {"max_epochs": 2}
                A = Samples(x=r.normal(-1.0, 0.5, (300, 2)), parameters=["p0", "p1"])
                B = Samples(x=r.normal(1.5, 1.6, (300, 2)), parameters=["p0", "p1"])
                path = os.path.join(tmp, "F.h5")
                skw = dict(n_samples=24, sampler="smc", sampler_kwargs={"n_steps": 1}, adaptive=False, n_steps=2, checkpoint_path=path, checkpoint_every=1)
                a.fit(A, **fk)
                if seq.startswith("fit;smc"):
                    with al.orng_seed(4), torch.no_grad():
                        a.sample_posterior(**skw)
                a.fit(B, **fk)
                with al.orng_seed(5), torch.no_grad():
                    _, hist = a.sample_posterior(return_history=True, **skw)
                smp = hist.sample_history[-1]
                F, fxp = get_flow_wrapper(backend)
                with h5py.File(path, "r") as h:
                    f2 = F.load(h, "flow")
                x, lq = _ns.to_np(smp.x), _ns.to_np(smp.log_q)
                with torch.no_grad():
                    ref = _ns.to_np(f2.log_prob(torch.as_tensor(x, dtype=torch.float64) if backend == "zuko" else fxp.asarray(x)))
                    mem = _ns.to_np(a.flow.log_prob(torch.as_tensor(x, dtype=torch.float64) if backend == "zuko" else fxp.asarray(x)))
                if not np.allclose(lq, mem, rtol=1e-6, atol=1e-6):
                    chk.count("real_flow_refit:in_memory_proposal_differs")      # C10's subject, counted only
                if not np.allclose(lq, ref, rtol=1e-5, atol=1e-5):
                    j = int(np.argmax(np.abs(lq - ref)))
                    chk.fail("the stored proposal and configuration belong to the stored checkpoint", case,
                             f"{seq} ({backend}): particle {j} stores log q = {lq[j]!r}, the proposal reloaded from the file gives {ref[j]!r} "
                             f"(max deviation {np.max(np.abs(lq - ref)):.3g} nats; the in-memory proposal gives {mem[j]!r})",
                             {"clause": "flow_vs_logq", "real_flow": backend, "model_predicts": False})
            except Exception as e:   # noqa
                chk.fail("run total", case, repr(e)[:300], {"clause": "raise", "real_flow": backend})
            finally:
                shutil.rmtree(tmp, ignore_errors=True)


def run(chk: core.Check):
    r = np.random.default_rng(chk.seed + 14014)
    quick = chk.tier == "quick"
    L = 3 if quick else 4
    chk.rule = (f"all operation sequences up to length {L} over an 11-letter alphabet (fit with/without overwrite and path, SMC run completed / interrupted before "
                "its first / after two checkpoints, importance run, context enter/exit, resume_from_file) starting with a fit, plus random sequences over two files to length "
                f"{6 if quick else 8}; non-trivial = a checkpoint exists at some point; distinct = different op text")
    chk.trusted += ["the stub proposal's save/load and its (mu, sigma) signature identify the fit that produced a stored proposal", "kernel doubles; h5py"]
    # documented usage patterns (docs/checkpointing.rst) first: run in a context, crash, resume with the default sampler inside a
    # context on the same file, crash again, resume again; refit with overwrite inside a context that has already saved the proposal
    seqs = [
        [("fit", None, False), ("enter", 1, True), ("sample", "smc", None, False, 2), ("exit",), ("resume", 1), ("enter", 1, True),
         ("sample", "importance", None, False, 1), ("exit",), ("resume", 1), ("sample", "importance", None, True, 0)],
        [("fit", None, False), ("sample", "smc", 1, False, 2), ("resume", 1), ("sample", "importance", 1, True, 0), ("resume", 1), ("sample", "importance", None, True, 0)],
        [("enter", 1, True), ("fit", None, False), ("sample", "smc", None, True, 0), ("fit", None, True), ("sample", "smc", None, True, 0), ("exit",), ("resume", 1)],
        [("enter", 1, True), ("fit", None, False), ("sample", "smc", None, True, 0), ("fit", None, True), ("sample", "smc", None, False, 1), ("exit",), ("resume", 1), ("sample", "smc", None, True, 0)],
        # the same without overwrite: a refit inside one context followed by an interrupted run
        [("enter", 1, True), ("fit", None, False), ("sample", "smc", None, True, 0), ("fit", None, False), ("sample", "smc", None, False, 1), ("exit",), ("resume", 1), ("sample", "smc", None, True, 0)],
        [("enter", 1, True), ("fit", None, False), ("sample", "smc", None, True, 0), ("fit", None, False), ("sample", "smc", None, False, 2), ("exit",), ("resume", 1)],
        # the file already holds a proposal; the object is refitted; the next run on that file is interrupted after some checkpoints
        [("fit", 1, False), ("fit", None, False), ("sample", "smc", 1, False, 2)],
        [("fit", 1, False), ("fit", None, False), ("sample", "smc", 1, False, 1), ("resume", 1), ("sample", "smc", None, True, 0)],
        [("fit", 1, False), ("sample", "smc", 1, True, 0), ("fit", None, False), ("sample", "smc", 1, False, 2), ("resume", 1)],
        # an SMC run inside a context is interrupted (even-length sequences: by a KeyboardInterrupt), the context is left by that
        # interruption, and the session carries on OUTSIDE the context with a refit and a path-less importance run
        [("enter", 1, True), ("fit", None, False), ("sample", "smc", None, False, 2), ("exit",), ("fit", None, False), ("sample", "importance", None, True, 0)],
        [("fit", None, False), ("enter", 1, True), ("sample", "smc", None, False, 1), ("exit",), ("fit", None, False), ("sample", "importance", None, True, 0),
         ("sample", "smc", None, True, 0), ("resume", 1)],
        [("fit", None, False), ("enter", 1, True), ("enter", 2, True), ("sample", "smc", None, False, 2), ("exit",), ("exit",), ("fit", None, False),
         ("sample", "importance", None, True, 0)],
        # nested contexts: a run in the outer context, a refit inside a nested context on another file, another run in the outer one
        [("enter", 1, True), ("fit", None, False), ("sample", "smc", None, True, 0), ("enter", 2, True), ("fit", None, False), ("exit",),
         ("sample", "smc", None, True, 0), ("exit",), ("resume", 1)],
        [("enter", 1, True), ("fit", None, False), ("sample", "smc", None, True, 0), ("enter", 2, True), ("fit", None, False), ("exit",),
         ("sample", "smc", None, False, 2), ("exit",), ("resume", 1)],
        # an explicit-path call on another file inside a context, then a default-path run on the context's file
        [("fit", 1, False), ("enter", 1, True), ("fit", None, False), ("sample", "smc", 2, True, 0), ("sample", "smc", None, True, 0), ("exit",)],
        [("fit", 1, False), ("enter", 1, True), ("sample", "smc", None, True, 0), ("fit", None, False), ("sample", "smc", 2, True, 0), ("sample", "smc", None, False, 1), ("exit",)],
        # a resumed object is refitted before it samples: the primed checkpoint belongs to the previous proposal
        [("fit", None, False), ("sample", "smc", 1, False, 2), ("resume", 1), ("fit", None, False), ("sample", "smc", None, True, 0)],
        [("fit", None, False), ("sample", "importance", 2, True, 0), ("fit", 2, False), ("sample", "smc", 2, True, 0), ("resume", 2), ("fit", None, False),
         ("sample", "smc", None, True, 0)],
        # a resumed object samples WITHOUT opening a new context, is interrupted again, and is resumed again
        [("fit", None, False), ("enter", 1, True), ("sample", "smc", None, False, 2), ("exit",), ("resume", 1), ("sample", "smc", None, False, 1),
         ("resume", 1), ("sample", "smc", None, True, 0)],
        # a context that asks for the FINAL checkpoint only (every=0) on a file that holds the checkpoint of an earlier run with the
        # previous proposal: the completed run must replace it; and the same with every second iteration
        [("fit", 1, False), ("sample", "smc", 1, True, 0), ("fit", None, False), ("enter", 1, True, 0), ("sample", "smc", None, True, 0), ("exit",), ("resume", 1)],
        [("fit", 1, False), ("sample", "smc", 1, True, 0), ("fit", None, False), ("enter", 1, True, 2), ("sample", "smc", None, True, 0), ("exit",), ("resume", 1)],
        [("fit", 1, False), ("sample", "smc", 1, True, 0), ("fit", None, False), ("enter", 1, True, 0), ("sample", "smc", None, False, 2), ("exit",)],
    ]
    corpus = list(seqs)
    seqs = []
    for n in range(1, L):
        for tail in itertools.product(ALPHA_SMALL, repeat=n):
            seqs.append([("fit", None, False)] + list(tail))
    if quick:
        idx = r.permutation(len(seqs))[:200]
        seqs = [seqs[i] for i in sorted(idx)]
    seqs = corpus + seqs        # the documented usage patterns always run
    for _ in range(60 if quick else 1500):
        n = int(r.integers(3, (6 if quick else 8) + 1))
        seqs.append([("fit", [None, 1][int(r.integers(2))], False)] + [rand_op(r) for _ in range(n - 1)])
    chk.extra["sequences"] = len(seqs)
    for i in range(0, len(seqs), 100):
        check_sequences(chk, seqs[i:i + 100])
    check_two_instances(chk)
    check_adopted_proposal(chk)
    check_real_flow_refit(chk, chk.tier == "quick")

    def search():
        sub = core.Check(chk.pid, chk.tier, chk.seed)
        sub.known, sub.matchers = chk.known, chk.matchers
        rr = np.random.default_rng(chk.seed + 141)
        check_sequences(sub, [[("fit", 1, False)] + [rand_op(rr) for _ in range(int(rr.integers(2, 7)))] for _ in range(200)])
        return sub.failures[0] if sub.failures else None

    return search


def parse_op(t):
    t = t.split()
    o = lambda v: None if v == "-1" else int(v)
    if t[0] == "fit":
        return ("fit", o(t[1]), t[2] == "1")
    if t[0] == "sample":
        return ("sample", t[1], o(t[2]), t[3] == "1", int(t[4]))
    if t[0] == "enter":
        ev = [int(x.split("=")[1]) for x in t[3:] if x.startswith("every=")]
        return ("enter", int(t[1]), t[2] == "1") + ((ev[0],) if ev else ())
    if t[0] == "exit":
        return ("exit",)
    return ("resume", int(t[1]))


def replay(chk: core.Check, path: str) -> int:
    doc = json.loads(open(path).read())
    p = doc["payload"]
    cases = [p["case"]] if "case" in p else [d["case"] for d in p.get("correspondence", [])]
    check_sequences(chk, [[parse_op(t) for t in c.get("planned_ops", c["ops"])] for c in cases])
    for f in chk.failures[:10]:
        print("FAIL", f["clause"], f["detail"])
    for d in chk.disagreements[:5]:
        print("DISAGREE", d["case"], d["model"], d["impl"])
    print(f"replayed {len(cases)} sequence(s): {len(chk.failures)} unlisted oracle failure(s), {len(chk.disagreements)} disagreement(s); known-finding hits {chk.known_hits}")
    return 1 if (chk.failures or chk.disagreements) else 0
