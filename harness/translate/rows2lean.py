"""Seventh vocabulary of the source translator: which field of the NEW sample set is built from which field of the old one, row-indexed
how (C16, C09) — `BaseSamples.__getitem__`, `Samples.__getitem__`, `SMCSamples.__getitem__`, the `return self.__class__(…)` of
`SMCSamples.resample`, `SMCSamples.to_standard_samples` — re-emitted as Lean functions over the sample-set record of
`Model/Rows.lean` (`pick`, `pickO` = numpy/torch/jax indexing with a normalised index list) and the two callables of
`lean/AspireModel/Gen/RowOps.lean` (what the `Samples` constructor recomputes, the ESS of a log-weight column).

Read from the source: the keyword arguments of the constructor call (`F=self.F[idx]`, guarded by `if self.F is not None else None` or
not, `F=self.F`, `beta=beta`), `sliced = super().__getitem__(idx)`, assignments `sliced.F = …`, `if self.F is not None:` blocks, the
max-shifted ESS expression.  `parameters=`, `dtype=`, `xp=` are not row data and are dropped.  Anything else is Untranslatable.
"""
from __future__ import annotations

import ast

from .py2lean import Untranslatable, indent

FIELD = {"x": "x", "log_likelihood": "ll", "log_prior": "lp", "log_q": "lq", "log_w": "logW", "weights": "weights",
         "log_evidence": "logZ", "log_evidence_error": "logZerr", "evidence": "evidence", "evidence_error": "evidenceErr",
         "effective_sample_size": "ess", "beta": "beta"}
COLS = {"x", "ll", "lp", "lq", "logW", "weights"}
NON_DATA = {"parameters", "dtype", "xp", "device"}
ESS_TEXT = "sliced.xp.exp(asarray(logsumexp(log_w) * 2 - logsumexp(log_w * 2), sliced.xp))"
SHIFT_TEXT = "sliced.log_w - sliced.xp.max(sliced.log_w)"


def strip(e):
    if isinstance(e, ast.Call) and isinstance(e.func, ast.Attribute) and e.func.attr == "array_to_namespace" and len(e.args) == 1:
        return strip(e.args[0])
    return e


class RowsTr:
    def __init__(self, idx_name, objs):
        self.idx, self.objs = idx_name, dict(objs)      # python object name -> lean record name
        self.notes = []

    def field_expr(self, e, want_col: bool):
        """value for a constructor keyword or an attribute assignment"""
        e = strip(e)
        u = ast.unparse(e)
        # guarded: self.F[idx] if self.F is not None else None   /   self.F if self.F is not None else None
        if isinstance(e, ast.IfExp) and isinstance(e.orelse, ast.Constant) and e.orelse.value is None:
            t = e.test
            if isinstance(t, ast.Compare) and len(t.ops) == 1 and isinstance(t.ops[0], ast.IsNot) and ast.unparse(t.comparators[0]) == "None":
                inner = self.field_expr(e.body, want_col)
                if ast.unparse(t.left) not in ast.unparse(e.body):
                    raise Untranslatable(f"guard on another field: {u}")
                return inner
            raise Untranslatable(f"conditional {u}")
        # O.F[idx]
        if isinstance(e, ast.Subscript) and isinstance(e.value, ast.Attribute) and isinstance(e.value.value, ast.Name) \
                and e.value.value.id in self.objs and e.value.attr in FIELD and isinstance(e.slice, ast.Name) and e.slice.id == self.idx:
            f = FIELD[e.value.attr]
            if f not in COLS:
                raise Untranslatable(f"row index on a scalar field: {u}")
            o = self.objs[e.value.value.id]
            return f"(Model.pick {self.idx} {o}.x)" if f == "x" else f"(Model.pickO {self.idx} {o}.{f})"
        # O.F
        if isinstance(e, ast.Attribute) and isinstance(e.value, ast.Name) and e.value.id in self.objs and e.attr in FIELD:
            return f"{self.objs[e.value.id]}.{FIELD[e.attr]}"
        if isinstance(e, ast.Name) and e.id == "beta":
            return "(some beta)"
        if u == "sliced.xp.exp(sliced.log_w)":
            return "(sliced.logW.map ops.expCol)"
        if u == ESS_TEXT:
            return "(log_w.map ops.essShifted)"
        raise Untranslatable(f"field expression {u}")

    def constructor(self, call, cls_expr):
        kw = {k.arg: k.value for k in call.keywords}
        if call.args:
            raise Untranslatable("positional constructor arguments")
        parts = [f"cls := {cls_expr}"]
        for k, v in kw.items():
            if k in NON_DATA:
                continue
            if k not in FIELD:
                raise Untranslatable(f"constructor keyword {k}")
            parts.append(f"{FIELD[k]} := {self.field_expr(v, FIELD[k] in COLS)}")
        if not any(p.startswith("x :=") for p in parts):
            raise Untranslatable("the constructor is not given x")
        return "({ " + ", ".join(parts) + " } : Model.SampleSet X V)"

    def stmts(self, body, final):
        if not body:
            return final()
        st, rest = body[0], body[1:]
        more = lambda: self.stmts(rest, final)   # noqa: E731
        u = ast.unparse(st)
        if isinstance(st, ast.Expr) and isinstance(st.value, ast.Constant):
            return more()
        if isinstance(st, ast.Assign) and len(st.targets) == 1:
            t, v = st.targets[0], st.value
            if isinstance(t, ast.Name) and ast.unparse(v) == f"super().__getitem__({self.idx})":
                self.objs[t.id] = t.id
                return f"let {t.id} := getitem_base ops {self.idx} self\n" + more()
            if isinstance(t, ast.Name) and t.id == "log_w" and ast.unparse(v) == SHIFT_TEXT:
                return "let log_w := sliced.logW.map ops.shiftMax\n" + more()
            if isinstance(t, ast.Attribute) and isinstance(t.value, ast.Name) and t.value.id in self.objs and t.value.id != "self" and t.attr in FIELD:
                o = self.objs[t.value.id]
                return f"let {o} := {{ {o} with {FIELD[t.attr]} := {self.field_expr(v, FIELD[t.attr] in COLS)} }}\n" + more()
            raise Untranslatable(f"assignment {u}")
        if isinstance(st, ast.If):
            t = st.test
            if not (isinstance(t, ast.Compare) and len(t.ops) == 1 and isinstance(t.ops[0], ast.IsNot) and ast.unparse(t.comparators[0]) == "None"
                    and isinstance(t.left, ast.Attribute) and isinstance(t.left.value, ast.Name) and t.left.value.id == "self" and t.left.attr in FIELD):
                raise Untranslatable(f"condition {ast.unparse(t)}")
            f = FIELD[t.left.attr]
            targets = sorted({self.objs[n.value.id] for s in ast.walk(st) if isinstance(s, ast.Assign) for n in s.targets
                              if isinstance(n, ast.Attribute) and isinstance(n.value, ast.Name) and n.value.id in self.objs})
            if len(targets) != 1:
                raise Untranslatable(f"`if` assigning to {targets}")
            o = targets[0]
            a = self.stmts(st.body, lambda: o)
            b = self.stmts(st.orelse, lambda: o)
            return f"let {o} := (if self.{f}.isSome then\n{indent(a)}\nelse\n{indent(b)})\n" + more()
        if isinstance(st, ast.Return):
            if isinstance(st.value, ast.Name) and st.value.id in self.objs:
                return self.objs[st.value.id]
            raise Untranslatable(f"return {u}")
        raise Untranslatable(f"statement {u[:80]}")


BINDERS = "{X V : Type} (ops : RowOps X V)"


def translate(tr, name, spec, fn) -> str:
    part = spec["part"]
    body = [s for s in fn.body if not (isinstance(s, ast.Expr) and isinstance(s.value, ast.Constant))]
    if part == "getitem_base":
        if [a.arg for a in fn.args.args] != ["self", "idx"] or len(body) != 1 or not isinstance(body[0], ast.Return):
            raise Untranslatable("BaseSamples.__getitem__ is not a single return")
        call = body[0].value
        if not (isinstance(call, ast.Call) and ast.unparse(call.func) == "self.__class__"):
            raise Untranslatable(f"returns {ast.unparse(call)[:60]}")
        rt = RowsTr("idx", {"self": "self"})
        text = (f"/-- translated from `{spec['py']}`: the new set is built by the class's own constructor (`ops.construct`: `Samples` recomputes\n"
                f"    its derived fields) from these columns -/\n"
                f"def {name} {BINDERS} (idx : List Nat) (self : Model.SampleSet X V) : Model.SampleSet X V :=\n"
                f"  ops.construct {rt.constructor(call, 'self.cls')}\n")
    elif part in ("getitem_samples", "getitem_smc"):
        if [a.arg for a in fn.args.args] != ["self", "idx"]:
            raise Untranslatable("signature")
        rt = RowsTr("idx", {"self": "self"})
        code = rt.stmts(body, lambda: (_ for _ in ()).throw(Untranslatable("no return")))
        text = (f"/-- translated from `{spec['py']}` -/\n"
                f"def {name} {BINDERS} (idx : List Nat) (self : Model.SampleSet X V) : Model.SampleSet X V :=\n{indent(code)}\n")
    elif part == "resample_return":
        rets = [s for s in body if isinstance(s, ast.Return) and isinstance(s.value, ast.Call) and ast.unparse(s.value.func) == "self.__class__"]
        if len(rets) != 1 or rets[0] is not body[-1]:
            raise Untranslatable("resample does not end with `return self.__class__(…)`")
        # the index array comes from rng.choice over all rows
        draws = [s for s in body if isinstance(s, ast.Assign) and ast.unparse(s.targets[0]) == "idx"]
        if len(draws) != 1 or not ast.unparse(draws[0].value).startswith("rng.choice(len(self.x), size=n_samples"):
            raise Untranslatable("`idx` is not `rng.choice(len(self.x), size=n_samples, …)`")
        rt = RowsTr("idx", {"self": "self"})
        text = (f"/-- translated from `{spec['py']}`: the population returned for the drawn indices `idx` and the new temperature -/\n"
                f"def {name} {{X V : Type}} (idx : List Nat) (beta : V) (self : Model.SampleSet X V) : Model.SampleSet X V :=\n"
                f"  {rt.constructor(rets[0].value, 'self.cls')}\n")
    elif part == "to_standard":
        if len(body) != 1 or not isinstance(body[0], ast.Return) or not (isinstance(body[0].value, ast.Call) and ast.unparse(body[0].value.func) == "Samples"):
            raise Untranslatable("to_standard_samples is not `return Samples(…)`")
        rt = RowsTr("idx", {"self": "self"})
        text = (f"/-- translated from `{spec['py']}` -/\n"
                f"def {name} {BINDERS} (self : Model.SampleSet X V) : Model.SampleSet X V :=\n"
                f"  ops.constructSamples {rt.constructor(body[0].value, 'Model.Cls.samples')}\n")
    else:
        raise Untranslatable(f"unknown part {part}")
    tr.sigs[name] = {"params": [], "ret": "X", "fuel": False}
    tr.report["functions"][name] = {"source": spec["py"], "lean": f"Gen.{name}", "lines": [fn.lineno, fn.end_lineno], "notes": [], "params": []}
    return text
