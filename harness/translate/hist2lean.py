"""Eleventh vocabulary of the source translator: the layout of a run's diagnostic history in an HDF5 file (C13, C18) —
`SMCHistory.save` and `SMCHistory.load` of `history.py` — re-emitted as Lean functions over `lean/AspireModel/Gen/HistOps.lean` (groups
addressed by the paths the code builds, Python's `d[k] = v`, `d.pop`, `enumerate`) and the codec of `Model/Codec.lean`.

Read from the source: `dictionary = copy.deepcopy(self.__dict__)`, what is popped under which key, the counter and the key it is stored under,
the `recursively_save_to_h5_file(h5_file, path, dictionary)` call, the group path of every population (`f"{path}<suffix>/{i}"` inside
`enumerate`), and on the way back the key and default of the counter, `int(…)`, the comprehension over `range(n)` with ITS path, the
`field_names` filter, the constructor call and the `setattr` loop for the remaining entries.  The f-string must have exactly the shape
`{path}<literal>/{i}`; the literal is carried into Lean, so a save and a load that disagree on it translate to different terms.
Anything else is Untranslatable.
"""
from __future__ import annotations

import ast

from .py2lean import Untranslatable


def fstr_suffix(e):
    """f"{path}<literal>/{i}" -> literal"""
    if not isinstance(e, ast.JoinedStr) or len(e.values) != 3:
        raise Untranslatable(f"group path {ast.unparse(e)}")
    a, b, c = e.values
    if not (isinstance(a, ast.FormattedValue) and ast.unparse(a.value) == "path" and isinstance(b, ast.Constant) and isinstance(b.value, str)
            and b.value.endswith("/") and isinstance(c, ast.FormattedValue) and ast.unparse(c.value) == "i"):
        raise Untranslatable(f"group path {ast.unparse(e)}")
    return b.value[:-1]


def lean_str(s):
    return '"' + s.replace("\\", "\\\\").replace('"', '\\"') + '".toList'


def translate(tr, name, spec, fn) -> str:
    part = spec["part"]
    body = [s for s in fn.body if not (isinstance(s, ast.Expr) and isinstance(s.value, ast.Constant))]
    if [a.arg for a in fn.args.args][1:] != ["h5_file", "path"]:
        raise Untranslatable(f"signature {[a.arg for a in fn.args.args]}")
    if part == "save":
        u = [ast.unparse(s) for s in body]
        if len(body) != 5:
            raise Untranslatable(f"{len(body)} statements in SMCHistory.save")
        if u[0] != "dictionary = copy.deepcopy(self.__dict__)":
            raise Untranslatable(f"first statement: {u[0]}")
        st = body[1]
        if not (isinstance(st, ast.Assign) and isinstance(st.value, ast.Call) and ast.unparse(st.value.func) == "dictionary.pop"
                and len(st.value.args) == 2 and isinstance(st.value.args[0], ast.Constant) and ast.unparse(st.value.args[1]) == "[]"):
            raise Untranslatable(f"second statement: {u[1]}")
        popped_var, popped_key = ast.unparse(st.targets[0]), st.value.args[0].value
        if popped_key != "sample_history":
            raise Untranslatable(f"the populations are popped under the key {popped_key!r}")
        st = body[2]
        if not (isinstance(st, ast.Assign) and isinstance(st.targets[0], ast.Subscript) and ast.unparse(st.targets[0].value) == "dictionary"
                and isinstance(st.targets[0].slice, ast.Constant) and ast.unparse(st.value) == f"len({popped_var})"):
            raise Untranslatable(f"third statement: {u[2]}")
        counter_key = st.targets[0].slice.value
        if u[3] != "recursively_save_to_h5_file(h5_file, path, dictionary)":
            raise Untranslatable(f"fourth statement: {u[3]}")
        lp = body[4]
        if not (isinstance(lp, ast.For) and ast.unparse(lp.target) == "(i, samples)" and ast.unparse(lp.iter) == f"enumerate({popped_var})"
                and len(lp.body) == 1 and not lp.orelse):
            raise Untranslatable(f"fifth statement: {u[4][:80]}")
        c = lp.body[0].value if isinstance(lp.body[0], ast.Expr) else None
        if not (isinstance(c, ast.Call) and ast.unparse(c.func) == "samples.save" and [ast.unparse(a) for a in c.args] == ["h5_file"]
                and [k.arg for k in c.keywords] == ["path"]):
            raise Untranslatable(f"loop body: {ast.unparse(lp.body[0])[:80]}")
        sfx = fstr_suffix(c.keywords[0].value)
        text = (f"/-- translated from `{spec['py']}`: the dictionary without the populations plus the counter `{counter_key}` goes through the codec into the\n"
                f"    group `path`; population `i` goes to the group `path{sfx}/i` -/\n"
                f"def {name} {{S G : Type}} (ops : HistOps S G) (h5_file : HFile G) (path : Model.Str) (self : HistObj S) : HFile G :=\n"
                f"  let dictionary := self.fields\n"
                f"  let sample_history := self.sample_history\n"
                f"  let dictionary := dictSet dictionary {lean_str(counter_key)} (.leaf (.int sample_history.length))\n"
                f"  let h5_file := h5_file.putDict (.base path) (Model.saveDict dictionary)\n"
                f"  forEnum sample_history 0 (fun i samples h5_file => h5_file.putSet (.item path {lean_str(sfx)} i) (ops.saveSet samples)) h5_file\n")
    elif part == "load":
        u = [ast.unparse(s) for s in body]
        if len(body) != 8:
            raise Untranslatable(f"{len(body)} statements in SMCHistory.load")
        if u[0] != "dictionary = load_from_h5_file(h5_file, path)":
            raise Untranslatable(f"first statement: {u[0]}")
        st = body[1]
        v = st.value if isinstance(st, ast.Assign) else None
        if not (isinstance(v, ast.Call) and ast.unparse(v.func) == "int" and len(v.args) == 1 and isinstance(v.args[0], ast.Call)
                and ast.unparse(v.args[0].func) == "dictionary.pop" and len(v.args[0].args) == 2 and isinstance(v.args[0].args[0], ast.Constant)
                and ast.unparse(v.args[0].args[1]) == "0"):
            raise Untranslatable(f"second statement: {u[1]}")
        nvar, counter_key = ast.unparse(st.targets[0]), v.args[0].args[0].value
        st = body[2]
        comp = st.value if isinstance(st, ast.Assign) else None
        if not (isinstance(comp, ast.ListComp) and ast.unparse(st.targets[0]) == "dictionary['sample_history']" and len(comp.generators) == 1
                and ast.unparse(comp.generators[0].target) == "i" and ast.unparse(comp.generators[0].iter) == f"range({nvar})" and not comp.generators[0].ifs):
            raise Untranslatable(f"third statement: {u[2][:100]}")
        c = comp.elt
        if not (isinstance(c, ast.Call) and ast.unparse(c.func) == "SMCSamples.load" and [ast.unparse(a) for a in c.args] == ["h5_file"]
                and [k.arg for k in c.keywords] == ["path"]):
            raise Untranslatable(f"comprehension element: {ast.unparse(c)[:80]}")
        sfx = fstr_suffix(c.keywords[0].value)
        want_tail = ["field_names = {field.name for field in cls.__dataclass_fields__.values()}",
                     "filtered_dict = {k: v for k, v in dictionary.items() if k in field_names}",
                     "instance = cls(**filtered_dict)",
                     "for k, v in dictionary.items():\n    if k not in field_names:\n        setattr(instance, k, v)",
                     "return instance"]
        if u[3:] != want_tail:
            raise Untranslatable(f"construction of the instance: {[x[:60] for x in u[3:]]}")
        text = (f"/-- translated from `{spec['py']}`: the dictionary of the group `path` through the codec, the counter `{counter_key}` (default 0), that many\n"
                f"    populations from the groups `path{sfx}/i`; the declared fields go to the constructor, every other entry is set as an attribute\n"
                f"    (`declared` = the dataclass field names).  `none`: the group or one of the population groups is missing (a KeyError in Python) -/\n"
                f"def {name} {{S G : Type}} (ops : HistOps S G) (declared : List Model.Str) (h5_file : HFile G) (path : Model.Str) : Option (HistObj S) :=\n"
                f"  match h5_file.getDict (.base path) with\n"
                f"  | none => none\n"
                f"  | some ds =>\n"
                f"    let dictionary := Model.loadDict ds\n"
                f"    let (cnt, dictionary) := dictPop dictionary {lean_str(counter_key)}\n"
                f"    match (match cnt with | none => some 0 | some v => valToNat v) with\n"
                f"    | none => none\n"
                f"    | some {nvar} =>\n"
                f"      match (List.range {nvar}).mapM (fun i => (h5_file.getSet (.item path {lean_str(sfx)} i)).map ops.loadSet) with\n"
                f"      | none => none\n"
                f"      | some sample_history =>\n"
                f"        let filtered_dict := dictionary.filter (fun e => declared.contains e.1)\n"
                f"        let rest := dictionary.filter (fun e => !declared.contains e.1)\n"
                f"        some {{ fields := filtered_dict ++ rest, sample_history := sample_history }}\n")
    else:
        raise Untranslatable(f"unknown part {part}")
    tr.sigs[name] = {"params": [], "ret": "X", "fuel": False}
    tr.report["functions"][name] = {"source": spec["py"], "lean": f"Gen.{name}", "lines": [fn.lineno, fn.end_lineno], "notes": [], "params": []}
    return text
