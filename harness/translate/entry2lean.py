"""Twelfth vocabulary of the source translator: the PROLOGUE of `SMCSampler.sample` — the statements from `resumed = resume_from is not None`
to `iterations = iterations or 0` — re-emitted as one Lean function over `lean/AspireModel/Gen/EntryOps.lean`: the state the loop starts
from, on a fresh call and on a resumed one.

Read from the source, statement by statement and in source order: the two branches of `if resumed:` (what comes from
`restore_from_checkpoint`, what from the initial draw, the temperature `0.0`, the new `SMCHistory()`), the append of the starting population
to `sample_history` and ITS condition, the `beta_step` rule (`1 / n_steps`, the ValueError, `nan`), `self.adaptive`, the `min_step` /
`adaptive_min_step` decision tree, the guard under which the minimum step restored from a checkpoint replaces it, `iterations or 0`.
Dropped (noted): `fit_preconditioning_transform` (C05's subject), the three NaN guards that raise, `logger.*`, the `sampler_kwargs` /
`n_final_steps` / `target_efficiency` assignments (kernel and schedule options the loop translation takes as parameters).
Anything else in the range is Untranslatable (broken tie -> failing-input search).
"""
from __future__ import annotations

import ast

from .py2lean import Untranslatable, indent

DROPPED_PREFIXES = ("logger.", "self.fit_preconditioning_transform(")
DROPPED_ASSIGN = ("self.sampler_kwargs", "n_final_steps", "self.target_efficiency", "self.target_efficiency_rate")


def cond(e):
    u = ast.unparse(e)
    table = {"resumed": "resumed", "not resumed": "!resumed", "store_sample_history and (not resumed)": "(store_sample_history && !resumed)",
             "store_sample_history and not resumed": "(store_sample_history && !resumed)", "store_sample_history": "store_sample_history",
             "not adaptive": "!adaptive",
             "n_steps is not None": "n_steps.isSome", "min_step is None": "min_step.isNone", "max_n_steps is None": "max_n_steps.isNone",
             "resumed and getattr(self, '_restored_min_step', None) is not None": "(resumed && st.restored_min_step.isSome)",
             "getattr(self, '_restored_min_step', None) is not None": "st.restored_min_step.isSome",
             "self._restored_min_step is not None": "st.restored_min_step.isSome"}
    if u not in table:
        raise Untranslatable(f"condition {u}")
    return table[u]


class EntryTr:
    """the prologue threads one record `st : Entry'` (all variables the range assigns); every statement is a record update"""

    FIELDS = ("samples", "beta", "iterations", "history", "beta_step", "min_step", "adaptive_flag", "adaptive_min_step", "restored_min_step", "err")

    def __init__(self):
        self.notes = []

    def assign(self, target, value, in_resumed=None):
        t, v = ast.unparse(target), ast.unparse(value)
        if t in DROPPED_ASSIGN:
            self.notes.append(f"`{t} = …` (kernel / schedule option) not part of the entry state")
            return None
        if t == "(samples, beta, iterations)" and v == "self.restore_from_checkpoint(resume_from)":
            return ("let r := ops.restore (resume_from.getD default)\n"
                    "let st := { st with samples := r.samples, beta := r.beta, iterations := r.iterations, history := r.history, restored_min_step := r.restored_min_step }")
        if t == "samples" and v == "self.draw_initial_samples(n_samples)":
            return "let st := { st with samples := ops.draw_initial_samples n_samples }"
        if t == "samples" and v == "SMCSamples.from_samples(samples, xp=self.xp, beta=0.0, dtype=self.dtype)":
            return "let st := { st with samples := ops.smc_from_samples st.samples ops.zero }"
        if t == "beta" and v == "0.0":
            return "let st := { st with beta := ops.zero }"
        if t == "iterations" and v == "0":
            return "let st := { st with iterations := 0 }"
        if t == "iterations" and v == "iterations or 0":
            return "let st := { st with iterations := st.iterations }      -- `iterations or 0`: a restored `None` counts as 0 (a natural number here)"
        if t == "self.history" and v == "SMCHistory()":
            return "let st := { st with history := ops.new_history }"
        if t == "beta_step" and v == "1 / n_steps":
            return "let st := { st with beta_step := ops.one_over (n_steps.getD 0) }"
        if t == "beta_step" and v == "np.nan":
            return "let st := { st with beta_step := ops.nanv }"
        if t == "self.adaptive" and v == "adaptive":
            return "let st := { st with adaptive_flag := adaptive }"
        if t == "min_step" and v == "0.0":
            return "let st := { st with min_step := ops.zero }"
        if t == "min_step" and v == "1 / max_n_steps":
            return "let st := { st with min_step := ops.one_over (max_n_steps.getD 0) }"
        if t == "min_step" and v == "self._restored_min_step":
            return "let st := { st with min_step := st.restored_min_step.getD st.min_step }"
        if t == "self.adaptive_min_step" and v in ("True", "False"):
            return f"let st := {{ st with adaptive_min_step := {v.lower()} }}"
        if t == "self._restored_min_step" and v == "None":
            return "let st := { st with restored_min_step := none }"
        raise Untranslatable(f"assignment {t} = {v[:70]}")

    def block(self, body):
        out = []
        for s_ in body:
            out.extend(self.stmt(s_))
        return out

    def stmt(self, st):
        u = ast.unparse(st)
        if isinstance(st, ast.Expr) and isinstance(st.value, ast.Constant):
            return []
        if isinstance(st, ast.Expr) and isinstance(st.value, ast.Call):
            if any(u.startswith(p) for p in DROPPED_PREFIXES):
                if u.startswith("self.fit_preconditioning_transform("):
                    self.notes.append("`self.fit_preconditioning_transform(samples.x)` dropped (C05's subject)")
                return []
            if u == "self.history.sample_history.append(samples)":
                return ["let st := { st with history := ops.append_pop st.history st.samples }"]
            raise Untranslatable(f"call {u[:80]}")
        if isinstance(st, ast.Assign) and len(st.targets) == 1:
            r = self.assign(st.targets[0], st.value)
            return [] if r is None else [r]
        if isinstance(st, ast.Raise):
            if "Either n_steps or adaptive=True must be set" in u:
                return ["let st := { st with err := some EntryErr.neitherStepsNorAdaptive }"]
            raise Untranslatable(f"raise {u[:80]}")
        if isinstance(st, ast.If):
            tu = ast.unparse(st.test)
            # NaN guards that raise: not part of the value
            if tu.startswith("self.xp.isnan(samples.") and len(st.body) == 1 and isinstance(st.body[0], ast.Raise):
                self.notes.append(f"NaN guard `{tu}` (raises) dropped")
                return []
            c = cond(st.test)
            a = self.block(st.body)
            b = self.block(st.orelse)
            at = "\n".join(a + ["st"]) if a else "st"
            bt = "\n".join(b + ["st"]) if b else "st"
            return [f"let st := (if {c} then\n{indent(at)}\nelse\n{indent(bt)})"]
        raise Untranslatable(f"statement {u[:90]}")


def translate(tr, name, spec, fn) -> str:
    body = [s for s in fn.body if not (isinstance(s, ast.Expr) and isinstance(s.value, ast.Constant))]
    us = [ast.unparse(s) for s in body]
    try:
        i0 = us.index("resumed = resume_from is not None")
        i1 = us.index("iterations = iterations or 0")
    except ValueError:
        raise Untranslatable("the prologue's first / last statement was not found (`resumed = resume_from is not None` … `iterations = iterations or 0`)")
    et = EntryTr()
    lines = et.block(body[i0 + 1: i1 + 1])
    need = [a.arg for a in fn.args.args + fn.args.kwonlyargs]
    for p in ("n_samples", "n_steps", "adaptive", "min_step", "max_n_steps", "store_sample_history", "resume_from"):
        if p not in need:
            raise Untranslatable(f"parameter {p} of sample() is gone")
    code = "\n".join(lines)
    text = (f"/-- translated from `{spec['py']}` (statements `resumed = resume_from is not None` … `iterations = iterations or 0`): the state the loop\n"
            f"    starts from.  `self0` = what the object carries into the call. -/\n"
            f"def {name} {{P H Src α : Type}} [Inhabited Src] (ops : EntryOps P H Src α) (self0 : EntrySelf H α) (pop0 : P) (resume_from : Option Src)\n"
            f"    (n_samples : Nat) (store_sample_history : Bool) (n_steps : Option Nat) (adaptive : Bool) (min_step : Option α) (max_n_steps : Option Nat) :\n"
            f"    Except EntryErr (Entry P H α) :=\n"
            f"  let resumed := resume_from.isSome\n"
            f"  let st : EntryVars P H α := {{ samples := pop0, beta := ops.zero, iterations := 0, history := self0.history, beta_step := ops.nanv, "
            f"min_step := min_step.getD ops.zero, adaptive_flag := adaptive, adaptive_min_step := false, "
            f"restored_min_step := self0.restored_min_step, err := none }}\n"
            f"{indent(code)}\n"
            f"  match st.err with\n"
            f"  | some e => .error e\n"
            f"  | none => .ok {{ samples := st.samples, beta := st.beta, iterations := st.iterations, history := st.history, beta_step := st.beta_step, "
            f"min_step := st.min_step, adaptive := st.adaptive_flag, adaptive_min_step := st.adaptive_min_step, resumed := resumed, "
            f"restored_min_step := st.restored_min_step }}\n")
    tr.sigs[name] = {"params": [], "ret": "X", "fuel": False}
    tr.report["functions"][name] = {"source": spec["py"], "lean": f"Gen.{name}", "lines": [body[i0].lineno, body[i1].end_lineno], "notes": sorted(set(et.notes)), "params": []}
    return text
