"""Which functions of /repo's source are translated to Lean, and how their Python parameters are typed.

kinds: S scalar, V vector (1-D array), N natural number, B bool, ON optional natural, OS optional scalar.
`objects` maps a Python object name (`self`, `samples`) to (class, Lean prefix): the fields listed in CLASSES become
separate Lean parameters.  `extract` selects a statement range of a larger function (its free variables are
`extra_params`), `result` names the variable whose value is the result of the range.
"""
from __future__ import annotations

import importlib.util
from pathlib import Path


def repo_src() -> Path:
    """directory of the `aspire` package the checks import (honours PYTHONPATH, otherwise the editable install of /repo)"""
    spec = importlib.util.find_spec("aspire")
    if spec is None or not spec.submodule_search_locations:
        return Path("/repo/src/aspire")
    return Path(list(spec.submodule_search_locations)[0])


CLASSES = {
    # per-sample columns of a weighted sample set and its length
    "Samples": [("log_likelihood", "V"), ("log_prior", "V"), ("log_q", "V"), ("n", "N")],
    "SamplesW": [("log_w", "V")],
    "Empty": [],
    "SamplesLP": [("log_likelihood", "V"), ("log_prior", "V")],
    "Hist": [("beta", "V"), ("log_norm_ratio", "V"), ("log_norm_ratio_var", "V")],
    "SamplerH": [("history", "O:Hist")],
    # transforms, acting on ONE row of coordinates (per-column parameters are vectors)
    "BoundedInit": [("lower", "V"), ("upper", "V")],
    "Bounded": [("lower", "V"), ("upper", "V"), ("_denom", "V"), ("_scale_log_abs_det_jacobian", "S"), ("eps", "S")],
    "Periodic": [("lower", "V"), ("upper", "V"), ("_width", "V")],
    "Affine": [("_mean", "V"), ("_std", "V"), ("log_abs_det_jacobian", "S")],
    "SMCSamples": [("beta", "S"), ("log_likelihood", "V"), ("log_prior", "V"), ("log_q", "V"), ("n", "N")],
    # schedule options held by the sampler
    "SMCSampler": [
        ("adaptive", "B"), ("adaptive_min_step", "B"), ("_adapative_target_efficiency", "B"),
        ("_target_efficiency", "S"), ("_target_efficiency[0]", "S"), ("_target_efficiency[1]", "S"),
        ("target_efficiency_rate", "S"),
    ],
}

SAMPLE_PARAMS = ["n_samples", "n_steps", "adaptive", "min_step", "max_n_steps", "target_efficiency", "target_efficiency_rate",
                 "n_final_samples", "checkpoint_callback", "checkpoint_every", "checkpoint_file_path", "resume_from",
                 "store_sample_history", "beta_tolerance"]

VEC_ORDER = ["log_likelihood", "log_prior", "log_q", "log_w", "log_u"]

SPECS = [
    # ---------------------------------------------------------------- utils.py
    dict(name="logsumexp", py="utils.py:logsumexp", params={"x": "V"}, ignore_params=["axis"]),
    dict(name="effective_sample_size", py="utils.py:effective_sample_size", params={"log_w": "V"}),
    # ---------------------------------------------------------------- samples.py: Samples
    dict(name="compute_weights", py="samples.py:Samples.compute_weights", objects={"self": ("Samples", "")},
         vec_order=VEC_ORDER),
    dict(name="scaled_weights", py="samples.py:Samples.scaled_weights", objects={"self": ("SamplesW", "")}),
    dict(name="rejection_accept", py="samples.py:Samples.rejection_sample", objects={"self": ("SamplesW", "")},
         ignore_params=["rng"], extra_params={"log_u": "V"}, extract={"first": "log_w", "count": 2}, result="accept",
         extract_doc="the acceptance rule: statements `log_w = ...; accept = ...`", vec_order=VEC_ORDER),
    # ---------------------------------------------------------------- samples.py: SMCSamples
    dict(name="log_p_t", py="samples.py:SMCSamples.log_p_t", objects={"self": ("SMCSamples", "self_")},
         params={"beta": "S"}, vec_order=["self_log_likelihood", "self_log_prior", "self_log_q"]),
    dict(name="unnormalized_log_weights", py="samples.py:SMCSamples.unnormalized_log_weights",
         objects={"self": ("SMCSamples", "self_")}, params={"beta": "S"}, vec_order=["self_log_likelihood", "self_log_prior", "self_log_q"]),
    dict(name="log_evidence_ratio", py="samples.py:SMCSamples.log_evidence_ratio",
         objects={"self": ("SMCSamples", "self_")}, params={"beta": "S"}),
    dict(name="log_evidence_ratio_variance", py="samples.py:SMCSamples.log_evidence_ratio_variance",
         objects={"self": ("SMCSamples", "self_")}, params={"beta": "S"}),
    dict(name="log_weights", py="samples.py:SMCSamples.log_weights",
         objects={"self": ("SMCSamples", "self_")}, params={"beta": "S"}),
    dict(name="resample_p", py="samples.py:SMCSamples.resample", objects={"self": ("SMCSamples", "self_")},
         params={"beta": "S"}, ignore_params=["n_samples", "rng"], extract={"first": "log_w", "stop": "idx"}, result="w",
         extract_doc="the probability vector handed to rng.choice: statements from `log_w = ...` up to `idx = ...`"),
    # ---------------------------------------------------------------- transforms (one row at a time)
    dict(name="logit", py="utils.py:logit", params={"x": "V", "eps": "OS"}),
    dict(name="sigmoid", py="utils.py:sigmoid", params={"x": "V"}),
    dict(name="bounded_init", py="transforms.py:BoundedTransform.__init__", objects={"self": ("BoundedInit", "")},
         ignore_params=["lower", "upper", "xp", "dtype"], extract={"first_attr": "self._denom", "count": 2},
         result=["self._denom", "self._scale_log_abs_det_jacobian"],
         extract_doc="`self._denom = upper - lower; self._scale_log_abs_det_jacobian = -log(denom).sum()`"),
    dict(name="to_unit_interval", py="transforms.py:BoundedTransform.to_unit_interval", objects={"self": ("Bounded", "")},
         params={"x": "V"}, row_mode=True),
    dict(name="from_unit_interval", py="transforms.py:BoundedTransform.from_unit_interval", objects={"self": ("Bounded", "")},
         params={"y": "V"}, row_mode=True),
    dict(name="logit_forward", py="transforms.py:LogitTransform.forward", objects={"self": ("Bounded", "")}, params={"x": "V"}, row_mode=True),
    dict(name="logit_inverse", py="transforms.py:LogitTransform.inverse", objects={"self": ("Bounded", "")}, params={"y": "V"}, row_mode=True),
    dict(name="probit_forward", py="transforms.py:ProbitTransform.forward", objects={"self": ("Bounded", "")}, params={"x": "V"}, row_mode=True,
         functions={"erfinv": "erfinv"}, constants={"math.sqrt(2)": "c_sqrt2", "math.log(2 * math.pi)": "c_log2pi"}),
    dict(name="probit_inverse", py="transforms.py:ProbitTransform.inverse", objects={"self": ("Bounded", "")}, params={"y": "V"}, row_mode=True,
         functions={"erf": "erf"}, constants={"math.sqrt(2)": "c_sqrt2", "math.log(2 * math.pi)": "c_log2pi"}),
    dict(name="periodic_forward", py="transforms.py:PeriodicTransform.forward", objects={"self": ("Periodic", "")}, params={"x": "V"},
         row_mode=True, mod=True),
    dict(name="periodic_inverse", py="transforms.py:PeriodicTransform.inverse", objects={"self": ("Periodic", "")}, params={"y": "V"},
         row_mode=True, mod=True),
    dict(name="affine_forward", py="transforms.py:AffineTransform.forward", objects={"self": ("Affine", "")}, params={"x": "V"}, row_mode=True),
    dict(name="affine_inverse", py="transforms.py:AffineTransform.inverse", objects={"self": ("Affine", "")}, params={"y": "V"}, row_mode=True),
    # ---------------------------------------------------------------- proposal wrappers (one row; the data transform and the network are parameters)
    dict(name="zuko_log_prob", py="flows/torch/flows.py:ZukoFlow.log_prob", params={"x": "V"}, ignore_params=["xp"], objects={"self": ("Empty", "")},
         calls={"self.rescale": ("rescale", "V->VS"), "self._flow().log_prob": ("base", "V->S")}),
    dict(name="zuko_sample_and_log_prob", py="flows/torch/flows.py:ZukoFlow.sample_and_log_prob", ignore_params=["n_samples", "xp"], objects={"self": ("Empty", "")},
         calls={"self.flow().rsample_and_log_prob": ("draw", "const:VS"), "self.inverse_rescale": ("inverse_rescale", "V->VS")}),
    dict(name="flowjax_log_prob", py="flows/jax/flows.py:FlowJax.log_prob", params={"x": "V"}, ignore_params=["xp"], objects={"self": ("Empty", "")},
         calls={"self.rescale": ("rescale", "V->VS"), "self._flow.log_prob": ("base", "V->S")}),
    dict(name="flowjax_sample_and_log_prob", py="flows/jax/flows.py:FlowJax.sample_and_log_prob", ignore_params=["n_samples", "xp"], objects={"self": ("Empty", "")},
         skip_calls=["jrandom.split"],
         calls={"self._flow.sample": ("draw", "const:V"), "self._flow.log_prob": ("base", "V->S"), "self.inverse_rescale": ("inverse_rescale", "V->VS")}),
    # ---------------------------------------------------------------- kernel targets
    dict(name="smc_kernel_target", py="samplers/smc/base.py:SMCSampler.log_prob", objects={"samples": ("SMCSamples", "s_")},
         params={"beta": "S"}, ignore_params=["z"], extra_params={"log_abs_det_jacobian": "V"},
         extract={"first": "log_prob", "count": 1}, result="log_prob",
         extract_doc="the statement `log_prob = samples.log_p_t(beta) + log|det J|` (before the NaN -> -inf map)",
         vec_order=["s_log_likelihood", "s_log_prior", "s_log_q"]),
    dict(name="mcmc_kernel_target", py="samplers/mcmc.py:MCMCSampler.log_prob", objects={"samples": ("SamplesLP", "s_")},
         ignore_params=["z"], extra_params={"log_abs_det_jacobian": "V"},
         extract={"first": "log_prob", "count": 1}, result="log_prob",
         extract_doc="the statement `log_prob = log L + log pi + log|det J|`",
         vec_order=["s_log_likelihood", "s_log_prior", "log_abs_det_jacobian"]),
    # ---------------------------------------------------------------- samplers/smc/base.py
    dict(name="current_target_efficiency", py="samplers/smc/base.py:SMCSampler.current_target_efficiency",
         objects={"self": ("SMCSampler", "cfg_")}, params={"beta": "S"}),
    dict(name="determine_beta", py="samplers/smc/base.py:SMCSampler.determine_beta",
         objects={"self": ("SMCSampler", "cfg_"), "samples": ("SMCSamples", "s_")},
         params={"beta": "S", "beta_step": "S", "min_step": "S", "beta_tolerance": "S"}, round=True),
    # ---------------------------------------------------------------- checkpoint dataset
    dict(name="dump_pickle_to_hdf", py="utils.py:dump_pickle_to_hdf", mode="h5dump"),
    # ---------------------------------------------------------------- control predicates of SMCSampler.sample
    dict(name="should_checkpoint", py="samplers/smc/base.py:SMCSampler.sample.maybe_checkpoint", params={"force": "B"},
         extra_params={"checkpoint_every": "ON", "iterations": "N"}, extract={"first": "should_checkpoint", "count": 1},
         result="should_checkpoint", extract_doc="the cadence rule `should_checkpoint = force or (...)`"),
    dict(name="loop_exit", py="samplers/smc/base.py:SMCSampler.sample", ignore_params=SAMPLE_PARAMS,
         extra_params={"beta": "S", "max_n_steps": "ON", "iterations": "N"}, extract={"if_break": "stop"}, result="stop",
         extract_doc="the test of `if beta == 1.0 or (max_n_steps is not None and iterations >= max_n_steps): break`"),
    dict(name="init_min_step", py="samplers/smc/base.py:SMCSampler.sample", ignore_params=SAMPLE_PARAMS, objects={"self": ("Empty", "")},
         extra_params={"min_step": "OS", "max_n_steps": "ON"}, extract={"first_any": "min_step", "count": 1}, result=["min_step", "self.adaptive_min_step"],
         extract_doc="the `if min_step is None: ...` block that initialises min_step and adaptive_min_step"),
    dict(name="resume_loop_flag", py="samplers/smc/base.py:SMCSampler.sample", ignore_params=SAMPLE_PARAMS, objects={"self": ("SamplerH", "")},
         extra_params={"resumed": "B", "beta": "S", "iterations": "N", "max_n_steps": "ON"},
         extract={"first": "run_smc_loop", "count": 2}, result="run_smc_loop",
         extract_doc="`run_smc_loop = True; if resumed: ...` (whether a resumed call re-enters the loop)"),
    dict(name="final_evidence", py="samplers/smc/base.py:SMCSampler.sample", ignore_params=SAMPLE_PARAMS,
         objects={"self": ("SamplerH", ""), "samples": ("Empty", "")},
         extract={"first_attr": "samples.log_evidence", "count": 2}, result=["samples.log_evidence", "samples.log_evidence_error"],
         extract_doc="`samples.log_evidence = sum(log_norm_ratio)`, `samples.log_evidence_error = sqrt(sum(log_norm_ratio_var))`"),
    # the loop itself, statement by statement, over the operation interface Gen.LoopOps (third vocabulary: loop2lean.py)
    dict(name="smc_maybe_checkpoint", py="samplers/smc/base.py:SMCSampler.sample", mode="smcloop", part="maybe_checkpoint"),
    dict(name="smc_loop_body", py="samplers/smc/base.py:SMCSampler.sample", mode="smcloop", part="body"),
    dict(name="smc_epilogue", py="samplers/smc/base.py:SMCSampler.sample", mode="smcloop", part="epilogue"),
    dict(name="smc_driver", py="samplers/smc/base.py:SMCSampler.sample", mode="smcloop", part="driver"),
    # the dictionary <-> HDF5 group codec (eighth vocabulary: codec2lean.py)
    dict(name="save_flattened", py="utils.py:recursively_save_to_h5_file", mode="codec", part="save"),
    dict(name="load_flattened", py="utils.py:load_from_h5_file", mode="codec", part="load"),
    # which field is built from which, row-indexed how (seventh vocabulary: rows2lean.py)
    dict(name="getitem_base", py="samples.py:BaseSamples.__getitem__", mode="rows", part="getitem_base"),
    dict(name="getitem_samples", py="samples.py:Samples.__getitem__", mode="rows", part="getitem_samples"),
    dict(name="getitem_smc", py="samples.py:SMCSamples.__getitem__", mode="rows", part="getitem_smc"),
    dict(name="resample_return", py="samples.py:SMCSamples.resample", mode="rows", part="resample_return"),
    dict(name="to_standard_samples", py="samples.py:SMCSamples.to_standard_samples", mode="rows", part="to_standard"),
    # how the samplers evaluate the user's functions (sixth vocabulary: eval2lean.py)
    dict(name="sampler_log_likelihood", py="samplers/base.py:Sampler.log_likelihood", mode="eval", part="wrapper"),
    dict(name="draw_initial_samples", py="samplers/mcmc.py:MCMCSampler.draw_initial_samples", mode="eval", part="draw"),
    dict(name="importance_eval", py="samplers/importance.py:ImportanceSampler.sample", mode="eval", part="idiom", start="samples = Samples(",
         stop=".log_likelihood", given_log_q=True),
    dict(name="mcmc_target_eval", py="samplers/mcmc.py:MCMCSampler.log_prob", mode="eval", part="idiom", start="samples = Samples(", stop=".log_likelihood"),
    dict(name="smc_target_eval", py="samplers/smc/base.py:SMCSampler.log_prob", mode="eval", part="idiom", start="samples = SMCSamples(", stop=".log_likelihood"),
    dict(name="minipcn_mutate_eval", py="samplers/smc/minipcn.py:MiniPCNSMC.mutate", mode="eval", part="idiom", start="samples = SMCSamples(", stop=".log_likelihood"),
    dict(name="emcee_mutate_eval", py="samplers/smc/emcee.py:EmceeSMC.mutate", mode="eval", part="idiom", start="samples = SMCSamples(", stop=".log_likelihood"),
    # the checkpoint-file blocks of fit / sample_posterior (fifth vocabulary: file2lean.py)
    dict(name="fit_file_block", py="aspire.py:Aspire.fit", mode="file", part="fit"),
    dict(name="sample_pre_block", py="aspire.py:Aspire.sample_posterior", mode="file", part="sample_pre"),
    dict(name="sample_post_block", py="aspire.py:Aspire.sample_posterior", mode="file", part="sample_post"),
    # the prologue of SMCSampler.sample (twelfth vocabulary: entry2lean.py)
    dict(name="smc_prologue", py="samplers/smc/base.py:SMCSampler.sample", mode="entry"),
    # the layout of the diagnostic history in a file (eleventh vocabulary: hist2lean.py)
    dict(name="smc_history_save", py="history.py:SMCHistory.save", mode="hist", part="save"),
    dict(name="smc_history_load", py="history.py:SMCHistory.load", mode="hist", part="load"),
    # the conversion methods of the sample containers (tenth vocabulary: conv2lean.py)
    dict(name="conv_post_init", py="samples.py:BaseSamples.__post_init__", mode="conv", part="post_init"),
    dict(name="base_to_numpy", py="samples.py:BaseSamples.to_numpy", mode="conv", part="method", cls="BaseSamples", method="to_numpy"),
    dict(name="base_to_namespace", py="samples.py:BaseSamples.to_namespace", mode="conv", part="method", cls="BaseSamples", method="to_namespace"),
    dict(name="base_from_samples", py="samples.py:BaseSamples.from_samples", mode="conv", part="method", cls="BaseSamples", method="from_samples"),
    dict(name="samples_to_namespace", py="samples.py:Samples.to_namespace", mode="conv", part="method", cls="Samples", method="to_namespace"),
    dict(name="samples_to_numpy", py="samples.py:Samples.to_numpy", mode="conv", part="method", cls="Samples", method="to_numpy"),
    dict(name="smc_to_namespace", py="samples.py:SMCSamples.to_namespace", mode="conv", part="method", cls="SMCSamples", method="to_namespace"),
    dict(name="smc_to_numpy", py="samples.py:SMCSamples.to_numpy", mode="conv", part="method", cls="SMCSamples", method="to_numpy"),
    dict(name="conv_dispatch", py="samples.py:BaseSamples.to_numpy", mode="conv", part="dispatch"),
    # the checkpoint state dictionary (ninth vocabulary: state2lean.py)
    dict(name="base_build_checkpoint_state", py="samplers/base.py:Sampler.build_checkpoint_state", mode="state", part="base_build"),
    dict(name="smc_checkpoint_extra_state", py="samplers/smc/base.py:SMCSampler._checkpoint_extra_state", mode="state", part="smc_extra"),
    dict(name="smc_build_checkpoint_state", py="samplers/smc/base.py:SMCSampler.build_checkpoint_state", mode="state", part="smc_build"),
    dict(name="base_restore_from_checkpoint", py="samplers/base.py:Sampler.restore_from_checkpoint", mode="state", part="base_restore"),
    dict(name="smc_restore_from_checkpoint", py="samplers/smc/base.py:SMCSampler.restore_from_checkpoint", mode="state", part="smc_restore"),
    # the context managers (fourth vocabulary: ctx2lean.py)
    dict(name="pool_enter", py="utils.py:PoolHandler.__enter__", mode="ctx", part="pool_enter"),
    dict(name="pool_exit", py="utils.py:PoolHandler.__exit__", mode="ctx", part="pool_exit"),
    dict(name="auto_enter", py="aspire.py:Aspire.auto_checkpoint", mode="ctx", part="auto_enter"),
    dict(name="auto_finally", py="aspire.py:Aspire.auto_checkpoint", mode="ctx", part="auto_finally"),
]

# module -> (imports, functions): one generated file per group so that an untranslatable function only breaks the
# tie theorems that depend on it
GROUPS = {
    "SrcUtils": ([], ["logsumexp", "effective_sample_size"]),
    "SrcSamples": (["SrcUtils"], ["compute_weights", "scaled_weights", "rejection_accept"]),
    "SrcSmcSamples": (["SrcUtils"], ["log_p_t", "unnormalized_log_weights", "log_evidence_ratio",
                                      "log_evidence_ratio_variance", "log_weights", "resample_p"]),
    "SrcSchedule": (["SrcSmcSamples"], ["current_target_efficiency", "determine_beta"]),
    "SrcTarget": (["SrcSmcSamples"], ["smc_kernel_target", "mcmc_kernel_target"]),
    "SrcTransforms": ([], ["logit", "sigmoid", "bounded_init", "to_unit_interval", "from_unit_interval", "logit_forward", "logit_inverse",
                           "probit_forward", "probit_inverse", "periodic_forward", "periodic_inverse", "affine_forward", "affine_inverse"]),
    "SrcFlows": ([], ["zuko_log_prob", "zuko_sample_and_log_prob", "flowjax_log_prob", "flowjax_sample_and_log_prob"]),
    "SrcDump": ([], ["dump_pickle_to_hdf"]),
    "SrcLoop": ([], ["should_checkpoint", "loop_exit", "init_min_step", "resume_loop_flag", "final_evidence"]),
    "SrcCodec": (["CodecOps"], ["save_flattened", "load_flattened"]),
    "SrcRows": (["RowOps"], ["getitem_base", "getitem_samples", "getitem_smc", "resample_return", "to_standard_samples"]),
    "SrcEval": (["EvalOps"], ["sampler_log_likelihood", "draw_initial_samples", "importance_eval", "mcmc_target_eval", "smc_target_eval",
                              "minipcn_mutate_eval", "emcee_mutate_eval"]),
    "SrcFile": (["FileOps"], ["fit_file_block", "sample_pre_block", "sample_post_block"]),
    "SrcEntry": (["EntryOps"], ["smc_prologue"]),
    "SrcHist": (["HistOps"], ["smc_history_save", "smc_history_load"]),
    "SrcConv": (["ConvOps"], ["conv_post_init", "base_to_numpy", "base_to_namespace", "base_from_samples", "samples_to_namespace", "samples_to_numpy",
                              "smc_to_namespace", "smc_to_numpy", "conv_dispatch"]),
    "SrcState": (["StateOps"], ["base_build_checkpoint_state", "smc_checkpoint_extra_state", "smc_build_checkpoint_state",
                                "base_restore_from_checkpoint", "smc_restore_from_checkpoint"]),
    "SrcCtx": (["CtxOps"], ["pool_enter", "pool_exit", "auto_enter", "auto_finally"]),
    "SrcSmcLoop": (["LoopOps"], ["smc_maybe_checkpoint", "smc_loop_body", "smc_epilogue", "smc_driver"]),
}
