"""Ninth vocabulary of the source translator: the checkpoint STATE DICTIONARY of a sampler (C11, C12) —
`Sampler.build_checkpoint_state`, `SMCSampler.build_checkpoint_state`, `SMCSampler._checkpoint_extra_state`,
`Sampler.restore_from_checkpoint`, `SMCSampler.restore_from_checkpoint` — re-emitted as Lean functions over the records of
`lean/AspireModel/Gen/StateOps.lean` (hand-written: the keys of the dictionary, the attributes of `self`, a heap of history objects in
which `copy.deepcopy` allocates and a plain reference shares, the callees).

Read from the source: which key of the dictionary is filled from which expression (dictionary literals, `update`), the keyword arguments of
the `super()` call, whether the history is COPIED (`copy.deepcopy(x)`) or shared (`x`) when it is put into the dictionary and when it is
taken out, the `isinstance` chain over the kinds of source, every `.get(key, default)` with its default, the `is None` tests, the
assignments to `self`, the condition under which the generator state is put back, the order of all that, the returned tuple.
Trusted simplifications (stated in the generated doc comments): `isinstance(state, dict)` and `isinstance(meta, dict)` are true (state
dictionaries and their `meta` are dictionaries); `self.rng.bit_generator.state if hasattr(self.rng, "bit_generator") else None` is the
one attribute `StSelf.rng_state` (none = no bit generator); `logger.*` is dropped.  Anything else is Untranslatable (broken tie ->
failing-input search) — in particular `copy.copy`, a cached snapshot, a `try`, a key the vocabulary does not know.
"""
from __future__ import annotations

import ast

from .py2lean import Untranslatable, indent

KEYS = {"sampler": "N", "iteration": "N", "samples": "P", "config": "C", "parameters": "N", "meta": "META", "beta": "A",
        "history": "ADDR", "rng_state": "R", "sampler_kwargs": "K"}
META_KEYS = {"beta": "A", "min_step": "A"}
TYPES = "{P C R K H α : Type} [Inhabited H]"
LEAN_KEYWORDS = {"meta": "meta_"}


def ln(name):
    """a Python key / local name as a Lean identifier"""
    return LEAN_KEYWORDS.get(name, name)
RNG_EXPR = "self.rng.bit_generator.state if hasattr(self.rng, 'bit_generator') else None"


def is_doc(st):
    return isinstance(st, ast.Expr) and isinstance(st.value, ast.Constant)


def is_log(st):
    return isinstance(st, ast.Expr) and isinstance(st.value, ast.Call) and ast.unparse(st.value.func).startswith("logger.")


class StTr:
    def __init__(self, env):
        self.env = dict(env)        # python name -> (lean text, kind); kinds: P OP A OA N ON META OMETA STATE ADDR OADDR OR OK C SRC
        self.notes = []

    # ---- pure expressions -> (lean, kind)
    def ex(self, e, want=None):
        u = ast.unparse(e)
        if isinstance(e, ast.Name):
            if e.id not in self.env:
                raise Untranslatable(f"unknown name {e.id}")
            return self.env[e.id]
        if isinstance(e, ast.Constant):
            if e.value is None:
                return "none", "NONE"
            if isinstance(e.value, float) and e.value == 0.0:
                return "ops.zero", "A"
            if isinstance(e.value, int) and not isinstance(e.value, bool):
                return str(e.value), "N"
            raise Untranslatable(f"constant {u}")
        if u == "self.__class__.__name__":
            return "ops.class_name", "N"
        if u == "self.parameters":
            return "ops.parameters", "N"
        if u == "self.config_dict(include_sample_calls=False)":
            return "ops.config_dict", "C"
        if u == RNG_EXPR:
            return "w.self.rng_state", "OR"
        if u == "getattr(self, 'sampler_kwargs', None)":
            return "w.self.sampler_kwargs", "OK"
        if u == "self.history":
            return "w.self.history", "ADDR"
        if isinstance(e, ast.BoolOp) and isinstance(e.op, ast.Or) and len(e.values) == 2 and ast.unparse(e.values[1]) == "{}":
            t, k = self.ex(e.values[0])
            if k != "OMETA":
                raise Untranslatable(f"`or {{}}` on a {k}")
            return f"({t}.getD {{}})", "META"
        if isinstance(e, ast.Dict) and all(isinstance(k, ast.Constant) for k in e.keys) and {k.value for k in e.keys} <= set(META_KEYS) and want == "META":
            parts = []
            for k, v in zip(e.keys, e.values):
                t, kk = self.ex(v)
                parts.append(f"{k.value} := {self.opt(t, kk, 'A')}")
            return "({ " + ", ".join(parts) + " } : StMeta α)", "META"
        # X.get("key"[, default]) on a state / meta dictionary
        if isinstance(e, ast.Call) and isinstance(e.func, ast.Attribute) and e.func.attr == "get" and isinstance(e.func.value, ast.Name) and e.args \
                and isinstance(e.args[0], ast.Constant) and not e.keywords:
            d, dk = self.ex(e.func.value)
            key = e.args[0].value
            table = KEYS if dk == "STATE" else META_KEYS if dk == "META" else None
            if table is None or key not in table:
                raise Untranslatable(f"{u}: `.get` on a {dk} / unknown key")
            slot, sk = f"{d}.{ln(key) if dk == 'STATE' else key}", "O" + table[key]
            if len(e.args) == 1 or (isinstance(e.args[1], ast.Constant) and e.args[1].value is None):
                return slot, sk
            if table[key] == "META" and ast.unparse(e.args[1]) == "{}":
                return f"({slot}.getD {{}})", "META"
            if table[key] == "ADDR":
                raise Untranslatable(f"{u}: a default history is an allocation (statement level)")
            dt, dkk = self.ex(e.args[1])
            if dkk != table[key]:
                raise Untranslatable(f"{u}: default of kind {dkk} for a {table[key]} slot")
            return f"({slot}.getD {dt})", table[key]
        # <a> if isinstance(x, dict) else <b>: state dictionaries and their meta are dictionaries
        if isinstance(e, ast.IfExp) and ast.unparse(e.test) in ("isinstance(state, dict)", "isinstance(meta, dict)"):
            self.notes.append(f"`{ast.unparse(e.test)}` taken as true")
            return self.ex(e.body, want)
        raise Untranslatable(f"expression {u[:90]}")

    @staticmethod
    def opt(t, k, base):
        """coerce to `Option base`"""
        if k == base:
            return f"(some {t})"
        if k == "O" + base or k == "NONE":
            return t
        raise Untranslatable(f"a {k} where an optional {base} is expected")

    def dict_fields(self, d: ast.Dict):
        out = []
        for k, v in zip(d.keys, d.values):
            if not isinstance(k, ast.Constant) or k.value not in KEYS:
                raise Untranslatable(f"dictionary key {ast.unparse(k) if k is not None else '**'}")
            t, kk = self.ex(v, want=KEYS[k.value])
            out.append(f"{ln(k.value)} := {self.opt(t, kk, KEYS[k.value])}")
        return out

    # ---- statements; `final(tr)` renders the value after the last statement
    def stmts(self, body, ret):
        if not body:
            raise Untranslatable("fell off the end of the function")
        st, rest = body[0], body[1:]
        more = lambda: self.stmts(rest, ret)   # noqa: E731
        u = ast.unparse(st)
        if is_doc(st) or is_log(st):
            return more()
        if isinstance(st, ast.Return):
            return ret(self, st.value)
        if isinstance(st, ast.Assign) and len(st.targets) == 1:
            t, v = st.targets[0], st.value
            tu, vu = ast.unparse(t), ast.unparse(v)
            # --- the history: copied or shared
            if isinstance(v, ast.Call) and ast.unparse(v.func) == "copy.deepcopy" and len(v.args) == 1 and not v.keywords:
                inner = v.args[0]
                iu = ast.unparse(inner)
                if iu == "state.get('history', SMCHistory())":
                    pre = ("let (hp, src) := (match state.history with | some a => (w.heap, a) | none => w.heap.alloc ops.new_history)\n"
                           "let (hp, a) := hp.deepcopy src\n")
                else:
                    it, ik = self.ex(inner)
                    if ik != "ADDR":
                        raise Untranslatable(f"deepcopy of a {ik}")
                    pre = f"let (hp, a) := w.heap.deepcopy {it}\n"
                return pre + self.bind_addr(t, "a", "hp") + more()
            if vu == "state.get('history', SMCHistory())":
                pre = "let (hp, a) := (match state.history with | some a => (w.heap, a) | none => w.heap.alloc ops.new_history)\n"
                return pre + self.bind_addr(t, "a", "hp") + more()
            if tu == "self.history":
                it, ik = self.ex(v)
                if ik != "ADDR":
                    raise Untranslatable(f"self.history = <{ik}>")
                return self.bind_addr(t, it, "w.heap") + more()
            # --- tuple from the base class
            if tu == "(samples, state)" and vu == "super().restore_from_checkpoint(source)":
                self.env["samples"], self.env["state"] = ("samples", "P"), ("state", "STATE")
                return ("match base_restore_from_checkpoint ops w source with\n| .error e => .error e\n| .ok (w, samples, state) =>\n" + indent(more()))
            if tu == "self._restored_min_step":
                vt, vk = self.ex(v)
                return f"let w : World H R K α := {{ w with self := {{ w.self with restored_min_step := {self.opt(vt, vk, 'A')} }} }}\n" + more()
            if vu == "Samples.from_samples(samples_saved, xp=self.xp, dtype=self.dtype)" and isinstance(t, ast.Name):
                self.need("samples_saved", "P")
                self.env[t.id] = (t.id, "P")
                return f"let {t.id} := ops.from_samples samples_saved\n" + more()
            if vu == "SMCSamples.from_samples(samples, xp=self.xp, beta=beta, dtype=self.dtype)" and isinstance(t, ast.Name):
                self.need("samples", "P"); self.need("beta", "A")
                self.env[t.id] = (t.id, "P")
                return f"let {t.id} := ops.smc_from_samples samples beta\n" + more()
            if isinstance(t, ast.Name) and isinstance(v, ast.Dict):
                self.env[t.id] = (t.id, "STATE")
                return (f"let {t.id} : CkState P C R K α := {{ " + ", ".join(self.dict_fields(v)) + " }\n") + more()
            if isinstance(t, ast.Name):
                vt, vk = self.ex(v)
                if vk == "NONE":
                    # `beta = None`: the kind comes from the next assignment to the same name
                    nxt = self.kind_of_later_assignment(t.id, rest)
                    self.env[t.id] = (t.id, "O" + nxt)
                    return f"let {t.id} : Option {self.lean_ty(nxt)} := none\n" + more()
                self.env[t.id] = (ln(t.id), vk)
                return f"let {ln(t.id)} := {vt}\n" + more()
            raise Untranslatable(f"assignment {u[:90]}")
        if isinstance(st, ast.Expr) and isinstance(st.value, ast.Call):
            c = st.value
            cu = ast.unparse(c)
            if isinstance(c.func, ast.Attribute) and c.func.attr == "update" and isinstance(c.func.value, ast.Name) and len(c.args) == 1 \
                    and ast.unparse(c.args[0]) == "self._checkpoint_extra_state()":
                d = c.func.value.id
                self.need(d, "STATE")
                return f"let (w, upd) := extra w\nlet {d} := upd {d}\n" + more()
            if cu == "self._restore_extra_state(state)":
                # resolved against the class the translation is for: see `check_no_override`
                return more()
            raise Untranslatable(f"call statement {cu[:80]}")
        if isinstance(st, ast.If):
            tu = ast.unparse(st.test)
            # if isinstance(meta, dict): <body>      (meta is a dictionary)
            if tu in ("isinstance(meta, dict)", "isinstance(state, dict)") and not st.orelse:
                self.notes.append(f"`{tu}` taken as true")
                return self.stmts(list(st.body) + rest, ret)
            # if X is None: raise ...
            if isinstance(st.test, ast.Compare) and len(st.test.ops) == 1 and isinstance(st.test.ops[0], ast.Is) and ast.unparse(st.test.comparators[0]) == "None" \
                    and isinstance(st.test.left, ast.Name) and not st.orelse:
                x = st.test.left.id
                xt, xk = self.ex(st.test.left)
                if not xk.startswith("O"):
                    raise Untranslatable(f"`{x} is None` on a {xk}")
                if len(st.body) == 1 and isinstance(st.body[0], ast.Raise):
                    exc = ast.unparse(st.body[0].exc.func) if isinstance(st.body[0].exc, ast.Call) else "?"
                    if exc != "ValueError" or x != "samples_saved":
                        raise Untranslatable(f"raise {exc} when {x} is None")
                    self.env[x] = (x, xk[1:])
                    return f"match {xt} with\n| none => .error StErr.missingSamples\n| some {x} =>\n" + indent(more())
                if len(st.body) == 1 and isinstance(st.body[0], ast.Assign) and ast.unparse(st.body[0].targets[0]) == x:
                    vt, vk = self.ex(st.body[0].value)
                    if vk != xk[1:]:
                        raise Untranslatable(f"`if {x} is None: {x} = <{vk}>` for an optional {xk[1:]}")
                    self.env[x] = (x, vk)
                    return f"let {x} : {self.lean_ty(vk)} := (match {xt} with | none => {vt} | some v => v)\n" + more()
            # if rng_state is not None and hasattr(self.rng, "bit_generator"): self.rng.bit_generator.state = rng_state
            if tu == "rng_state is not None and hasattr(self.rng, 'bit_generator')" and not st.orelse and len(st.body) == 1 \
                    and ast.unparse(st.body[0]) == "self.rng.bit_generator.state = rng_state":
                self.need("rng_state", "OR")
                return ("let w : World H R K α := if rng_state.isSome && w.self.rng_state.isSome then { w with self := { w.self with rng_state := rng_state } } else w\n"
                        + more())
            # the isinstance chain over the kinds of source
            if tu == "isinstance(source, str)":
                return self.source_chain(st) + more()
            raise Untranslatable(f"if {tu[:80]}")
        raise Untranslatable(f"statement {u[:90]}")

    def bind_addr(self, target, addr, heap):
        tu = ast.unparse(target)
        if tu == "self.history":
            return f"let w : World H R K α := {{ heap := {heap}, self := {{ w.self with history := {addr} }} }}\n"
        if isinstance(target, ast.Name):
            self.env[target.id] = (target.id, "ADDR")
            return f"let {target.id} := {addr}\nlet w : World H R K α := {{ w with heap := {heap} }}\n"
        raise Untranslatable(f"history bound to {tu}")

    def source_chain(self, st):
        arms = {}
        cur = st
        while True:
            tu = ast.unparse(cur.test)
            kinds = {"isinstance(source, str)": "path", "isinstance(source, bytes)": "bytes", "isinstance(source, dict)": "dict"}
            if tu not in kinds or len(cur.body) != 1 or not isinstance(cur.body[0], ast.Assign) or ast.unparse(cur.body[0].targets[0]) != "state":
                raise Untranslatable(f"source dispatch: {tu}")
            arms[kinds[tu]] = ast.unparse(cur.body[0].value)
            if len(cur.orelse) == 1 and isinstance(cur.orelse[0], ast.If):
                cur = cur.orelse[0]
                continue
            tail = cur.orelse
            break
        if len(tail) != 1 or not isinstance(tail[0], ast.Raise) or not ast.unparse(tail[0].exc).startswith("TypeError"):
            raise Untranslatable("source dispatch does not end in `raise TypeError`")
        want = {"path": "self.load_checkpoint_from_file(source)", "bytes": "pickle.loads(source)", "dict": "source"}
        if arms != want:
            raise Untranslatable(f"source dispatch arms {arms}")
        self.env["state"] = ("state", "STATE")
        return ("match (match source with\n"
                "       | .path p => .ok (intern w.heap (ops.load_file p))\n"
                "       | .bytes b => .ok (intern w.heap (ops.loads b))\n"
                "       | .dict s => .ok (w.heap, s)\n"
                "       | .other => .error StErr.unsupportedSource : Except StErr (Heap H × CkState P C R K α)) with\n"
                "| .error e => .error e\n| .ok (hp, state) =>\n"
                "let w : World H R K α := { w with heap := hp }\n")

    def need(self, name, kind):
        if self.env.get(name, (None, None))[1] != kind:
            raise Untranslatable(f"`{name}` is not a {kind} here ({self.env.get(name)})")

    @staticmethod
    def lean_ty(k):
        return {"A": "α", "N": "Nat", "P": "P", "ADDR": "Addr", "R": "R", "K": "K", "META": "StMeta α"}[k]

    def kind_of_later_assignment(self, name, rest):
        for s in ast.walk(ast.Module(body=list(rest), type_ignores=[])):
            if isinstance(s, ast.Assign) and ast.unparse(s.targets[0]) == name:
                try:
                    t, k = self.ex(s.value)
                except Untranslatable:
                    continue
                if k.startswith("O"):
                    return k[1:]
                if k != "NONE":
                    return k
        raise Untranslatable(f"`{name} = None` is never given a value")


def check_no_override(tr, method, classes):
    """`self.<method>(…)` inside the base class resolves to the base class's own no-op for an SMC sampler: none of `classes` defines it"""
    for rel, cls in classes:
        try:
            tr.find(rel, f"{cls}.{method}")
        except Exception as e:   # noqa: BLE001 - `Untranslatable` of whichever copy of py2lean is running (module or __main__)
            if type(e).__name__ == "Untranslatable":
                continue
            raise
        raise Untranslatable(f"{cls} overrides {method}: the translation of the base-class call no longer describes an SMC sampler")


def translate(tr, name, spec, fn) -> str:
    part = spec["part"]
    body = [s for s in fn.body if not is_doc(s)]
    params = [a.arg for a in fn.args.args]
    defaults = {a.arg: d for a, d in zip(fn.args.args[len(fn.args.args) - len(fn.args.defaults):], fn.args.defaults)}
    opt = lambda p: p in defaults and isinstance(defaults[p], ast.Constant) and defaults[p].value is None   # noqa: E731
    notes = []
    if part == "base_build":
        if params != ["self", "samples", "iteration", "meta"] or not opt("iteration") or not opt("meta"):
            raise Untranslatable(f"signature {params}")
        st = StTr({"samples": ("samples", "P"), "iteration": ("iteration", "ON"), "meta": ("meta_", "OMETA")})

        def ret(s, v):
            s.need(ast.unparse(v), "STATE")
            return f"(w, {ast.unparse(v)})"
        code = st.stmts(body, ret)
        text = (f"/-- translated from `{spec['py']}`; `extra` is the `_checkpoint_extra_state` of the class (it may allocate), its result is merged\n"
                f"    into the dictionary with `update` -/\n"
                f"def {name} {TYPES} (ops : StateOps P C R K H α) (extra : World H R K α → World H R K α × (CkState P C R K α → CkState P C R K α))\n"
                f"    (w : World H R K α) (samples : P) (iteration : Option Nat) (meta_ : Option (StMeta α)) : World H R K α × CkState P C R K α :=\n{indent(code)}\n")
        notes = st.notes
    elif part == "smc_extra":
        if params != ["self"]:
            raise Untranslatable(f"signature {params}")
        st = StTr({})

        def ret(s, v):
            if not isinstance(v, ast.Dict):
                raise Untranslatable("_checkpoint_extra_state does not return a dictionary literal")
            return "(w, fun st => { st with " + ", ".join(s.dict_fields(v)) + " })"
        code = st.stmts(body, ret)
        text = (f"/-- translated from `{spec['py']}`: the keys it adds.  `{RNG_EXPR}` is the attribute `StSelf.rng_state` -/\n"
                f"def {name} {TYPES} (w : World H R K α) : World H R K α × (CkState P C R K α → CkState P C R K α) :=\n{indent(code)}\n")
        notes = st.notes
    elif part == "smc_build":
        if params != ["self", "samples", "iteration", "beta", "min_step"] or opt("iteration") or opt("beta") or not opt("min_step"):
            raise Untranslatable(f"signature {params}")
        if len(body) != 1 or not isinstance(body[0], ast.Return) or not isinstance(body[0].value, ast.Call) \
                or ast.unparse(body[0].value.func) != "super().build_checkpoint_state":
            raise Untranslatable("SMCSampler.build_checkpoint_state is not a single `return super().build_checkpoint_state(...)`")
        c = body[0].value
        if [ast.unparse(a) for a in c.args] != ["samples", "iteration"] or [k.arg for k in c.keywords] != ["meta"]:
            raise Untranslatable(f"arguments of the super() call: {ast.unparse(c)[:100]}")
        st = StTr({"samples": ("samples", "P"), "iteration": ("iteration", "N"), "beta": ("beta", "A"), "min_step": ("min_step", "OA")})
        mt, mk = st.ex(c.keywords[0].value, want="META")
        text = (f"/-- translated from `{spec['py']}`: the base-class function with `meta` holding the temperature and the minimum step; the extras are\n"
                f"    those of `SMCSampler._checkpoint_extra_state` -/\n"
                f"def {name} {TYPES} (ops : StateOps P C R K H α) (w : World H R K α) (samples : P) (iteration : Nat) (beta : α) (min_step : Option α) :\n"
                f"    World H R K α × CkState P C R K α :=\n"
                f"  base_build_checkpoint_state ops smc_checkpoint_extra_state w samples (some iteration) (some {mt})\n")
    elif part == "base_restore":
        if params != ["self", "source"]:
            raise Untranslatable(f"signature {params}")
        check_no_override(tr, "_restore_extra_state", [("samplers/smc/base.py", "SMCSampler"), ("samplers/mcmc.py", "MCMCSampler")])
        st = StTr({"source": ("source", "SRC")})

        def ret(s, v):
            if ast.unparse(v) != "(samples, state)":
                raise Untranslatable(f"returns {ast.unparse(v)}")
            s.need("samples", "P"); s.need("state", "STATE")
            return ".ok (w, samples, state)"
        code = st.stmts(body, ret)
        text = (f"/-- translated from `{spec['py']}`; `self._restore_extra_state(state)` is the base class's no-op (neither `MCMCSampler` nor\n"
                f"    `SMCSampler` overrides it — checked at translation time) -/\n"
                f"def {name} {TYPES} (ops : StateOps P C R K H α) (w : World H R K α) (source : Source P C R K α) :\n"
                f"    Except StErr (World H R K α × P × CkState P C R K α) :=\n{indent(code)}\n")
        notes = st.notes
    elif part == "smc_restore":
        if params != ["self", "source"]:
            raise Untranslatable(f"signature {params}")
        st = StTr({"source": ("source", "SRC")})

        def ret(s, v):
            if ast.unparse(v) != "(samples, beta, iteration)":
                raise Untranslatable(f"returns {ast.unparse(v)}")
            s.need("samples", "P"); s.need("beta", "A"); s.need("iteration", "N")
            return ".ok (w, samples, beta, iteration)"
        code = st.stmts(body, ret)
        text = (f"/-- translated from `{spec['py']}` -/\n"
                f"def {name} {TYPES} (ops : StateOps P C R K H α) (w : World H R K α) (source : Source P C R K α) :\n"
                f"    Except StErr (World H R K α × P × α × Nat) :=\n{indent(code)}\n")
        notes = st.notes
    else:
        raise Untranslatable(f"unknown part {part}")
    tr.sigs[name] = {"params": [], "ret": "X", "fuel": False}
    tr.report["functions"][name] = {"source": spec["py"], "lean": f"Gen.{name}", "lines": [fn.lineno, fn.end_lineno], "notes": sorted(set(notes)), "params": []}
    return text
