"""Sixth vocabulary of the source translator: how the samplers EVALUATE the user's functions (C10, C17) — the counting wrapper
`Sampler.log_likelihood`, the rejection loop `MCMCSampler.draw_initial_samples`, and the "build a sample set, attach log q, then the
prior, then the likelihood" statements of every call site (importance sampler, the two kernel targets, the two `mutate`s) —
re-emitted as Lean functions over `lean/AspireModel/Gen/EvalOps.lean` (hand-written: a sample set as the evaluation code sees it,
the trace of calls the user's functions observe, selection / concatenation; nothing about the order of calls).

Read from the source, in order: the construction `Samples(x, log_q=…)` / `SMCSamples(x, …)`, assignments of `.log_q`, `.log_prior`,
`.log_likelihood` (through `array_to_namespace` or not), `self.log_prior(S)`, `self.log_likelihood(S)`, `self._log_likelihood(S)`,
`self.prior_flow.log_prob(S.x)`, the counter update, and for the initial draw: the `while` loop over proposal batches, `isfinite`,
the count of valid rows, mask selection, `Samples.concatenate`, the trim `samples[:n]`.
Everything else in the enclosing function is outside the extracted statements (the spec says where they start and end); inside them
anything unknown is Untranslatable.
"""
from __future__ import annotations

import ast

from .py2lean import Untranslatable, indent

FIELDS = ("log_q", "log_prior", "log_likelihood")


def strip_ns(e):
    """`S.array_to_namespace(E)` -> E ; `asarray(E, ...)` -> E"""
    if isinstance(e, ast.Call) and isinstance(e.func, ast.Attribute) and e.func.attr == "array_to_namespace" and len(e.args) == 1:
        return strip_ns(e.args[0])
    return e


class EvalTr:
    def __init__(self, sets, lists=(), nats=()):
        self.sets = set(sets)        # names bound to sample sets
        self.optsets = set()         # names bound to optional sample sets
        self.lists = set(lists)      # names bound to value lists (log_q)
        self.nats = set(nats)
        self.masks = set()

    def value(self, e):
        """an expression producing a list of values; returns (pre_statements, lean expr)"""
        e = strip_ns(e)
        u = ast.unparse(e)
        if isinstance(e, ast.Name) and e.id in self.lists:
            return "", e.id
        if isinstance(e, ast.Call) and isinstance(e.func, ast.Attribute):
            fu = ast.unparse(e.func)
            if fu == "self.prior_flow.log_prob" and len(e.args) == 1 and isinstance(e.args[0], ast.Attribute) and e.args[0].attr == "x" \
                    and isinstance(e.args[0].value, ast.Name) and e.args[0].value.id in self.sets and not e.keywords:
                return "", f"({e.args[0].value.id}.x.map ops.flowq)"
            if fu in ("self.log_prior", "self.log_likelihood", "self._log_likelihood") and len(e.args) == 1 and isinstance(e.args[0], ast.Name) \
                    and e.args[0].id in self.sets and not e.keywords:
                fn = {"self.log_prior": "Gen.call_log_prior ops", "self.log_likelihood": "sampler_log_likelihood ops",
                      "self._log_likelihood": "Gen.call_user_log_likelihood ops"}[fu]
                return f"let (tr, value) := {fn} tr {e.args[0].id}\n", "value"
        raise Untranslatable(f"value expression {u}")

    def construct(self, e):
        """Samples(x, …) / SMCSamples(x, …)"""
        if not (isinstance(e, ast.Call) and isinstance(e.func, ast.Name) and e.func.id in ("Samples", "SMCSamples")):
            return None
        if len(e.args) != 1 or not isinstance(e.args[0], ast.Name):
            raise Untranslatable(f"constructor call {ast.unparse(e)}")
        kw = {k.arg: k.value for k in e.keywords}
        extra = set(kw) - {"xp", "dtype", "parameters", "beta", "log_q", "device"}
        if extra:
            raise Untranslatable(f"constructor keywords {sorted(extra)}")
        lq = "none"
        if "log_q" in kw:
            if not (isinstance(kw["log_q"], ast.Name) and kw["log_q"].id in self.lists):
                raise Untranslatable(f"log_q={ast.unparse(kw['log_q'])}")
            lq = f"some {kw['log_q'].id}"
        return f"({{ x := {e.args[0].id}, log_q := {lq} }} : ESet X V)"

    def stmts(self, body, final, loop_ctx=None):
        if not body:
            return final()
        st, rest = body[0], body[1:]
        more = lambda: self.stmts(rest, final, loop_ctx)   # noqa: E731
        u = ast.unparse(st)
        if isinstance(st, ast.Expr) and isinstance(st.value, ast.Constant):
            return more()
        if isinstance(st, ast.Expr) and isinstance(st.value, ast.Call) and ast.unparse(st.value.func).startswith("logger."):
            return more()
        if isinstance(st, ast.AugAssign) and isinstance(st.op, ast.Add):
            t = ast.unparse(st.target)
            if t == "self.n_likelihood_evaluations" and ast.unparse(st.value) in {f"len({s})" for s in self.sets}:
                s = ast.unparse(st.value)[4:-1]
                return f"let tr := {{ tr with counter := tr.counter + {s}.x.length }}\n" + more()
            if isinstance(st.target, ast.Name) and st.target.id in self.nats and isinstance(st.value, ast.Name) and st.value.id in self.nats:
                return f"let {st.target.id} := {st.target.id} + {st.value.id}\n" + more()
            raise Untranslatable(f"statement {u}")
        if isinstance(st, ast.Assign) and len(st.targets) == 1:
            t, v = st.targets[0], st.value
            # x, log_q = self.prior_flow.sample_and_log_prob(n)   (the next proposal batch)
            if isinstance(t, ast.Tuple) and ast.unparse(v).startswith("self.prior_flow.sample_and_log_prob("):
                if loop_ctx is None or len(t.elts) != 2:
                    raise Untranslatable(f"proposal draw outside the loop: {u}")
                a, b = t.elts[0].id, t.elts[1].id
                self.lists.add(b)
                return f"let {a} := batch.map (·.1)\nlet {b} := batch.map (·.2)\n" + more()
            if isinstance(t, ast.Name):
                c = self.construct(v)
                if c is not None:
                    self.sets.add(t.id)
                    return f"let {t.id} := {c}\n" + more()
                if isinstance(v, ast.Constant) and v.value is None:
                    self.optsets.add(t.id)
                    return f"let {t.id} : Option (ESet X V) := none\n" + more()
                if isinstance(v, ast.Constant) and isinstance(v.value, int):
                    self.nats.add(t.id)
                    return f"let {t.id} : Nat := {v.value}\n" + more()
                # valid = self.xp.isfinite(S.log_prior)
                if isinstance(v, ast.Call) and ast.unparse(v.func) in ("self.xp.isfinite", "xp.isfinite") and len(v.args) == 1 \
                        and isinstance(v.args[0], ast.Attribute) and v.args[0].attr == "log_prior" and ast.unparse(v.args[0].value) in self.sets:
                    self.masks.add(t.id)
                    return f"let {t.id} := Gen.finite_mask ops {ast.unparse(v.args[0].value)}.log_prior\n" + more()
                # n_valid = int(self.xp.sum(valid))
                if ast.unparse(v) in {f"int(self.xp.sum({m}))" for m in self.masks} | {f"int({m}.sum())" for m in self.masks}:
                    m = [m for m in self.masks if m in ast.unparse(v)][0]
                    self.nats.add(t.id)
                    return f"let {t.id} := Gen.count_true {m}\n" + more()
                # log_q = self.prior_flow.log_prob(S.x)
                pre, val = self.value(v)
                self.lists.add(t.id)
                return pre + f"let {t.id} := {val}\n" + more()
            # S.field = value
            if isinstance(t, ast.Attribute) and t.attr in FIELDS and isinstance(t.value, ast.Name) and (t.value.id in self.sets):
                pre, val = self.value(v)
                s = t.value.id
                return pre + f"let {s} := {{ {s} with {t.attr} := some {val} }}\n" + more()
            raise Untranslatable(f"assignment {u}")
        if isinstance(st, ast.Return):
            if st.value is None:
                raise Untranslatable("bare return")
            return self.ret(st.value)
        if isinstance(st, ast.If):
            raise Untranslatable(f"`if` outside the initial draw: {u[:60]}")
        raise Untranslatable(f"statement {u[:80]}")

    def ret(self, v):
        pre, val = self.value(v) if not (isinstance(v, ast.Name) and v.id in self.sets) else ("", v.id)
        return pre + f"(tr, {val})"


def extract(fn, start_pred, stop_pred=None, include_stop=True):
    body = list(fn.body)
    i = next((k for k, s in enumerate(body) if start_pred(ast.unparse(s))), None)
    if i is None:
        raise Untranslatable(f"start statement not found in {fn.name}")
    if stop_pred is None:
        return body[i:]
    j = next((k for k in range(i, len(body)) if stop_pred(ast.unparse(body[k]))), None)
    if j is None:
        raise Untranslatable(f"stop statement not found in {fn.name}")
    return body[i:j + 1] if include_stop else body[i:j]


BINDERS = "{X V : Type} (ops : EOps X V) (tr : ETrace X V)"


def translate_draw(tr_, name, spec, fn):
    """draw_initial_samples: prologue, the while loop over proposal batches, trim, likelihood call"""
    body = [s for s in fn.body if not (isinstance(s, ast.Expr) and isinstance(s.value, ast.Constant))]
    if [a.arg for a in fn.args.args] != ["self", "n_samples"]:
        raise Untranslatable(f"signature {ast.unparse(fn.args)}")
    loops = [i for i, s in enumerate(body) if isinstance(s, ast.While)]
    if len(loops) != 1:
        raise Untranslatable(f"{len(loops)} while loops")
    li = loops[0]
    loop = body[li]
    pro = body[:li]
    zero = [ast.unparse(s.targets[0]) for s in pro if isinstance(s, ast.Assign) and ast.unparse(s.value) == "0" and isinstance(s.targets[0], ast.Name)]
    nones = [ast.unparse(s.targets[0]) for s in pro if isinstance(s, ast.Assign) and ast.unparse(s.value) == "None" and isinstance(s.targets[0], ast.Name)]
    if len(pro) != 2 or len(zero) != 1 or len(nones) != 1:
        raise Untranslatable(f"prologue {[ast.unparse(s) for s in pro]}")
    drawn, acc = zero[0], nones[0]
    if ast.unparse(loop.test) != f"{drawn} < n_samples" or loop.orelse:
        raise Untranslatable(f"loop test {ast.unparse(loop.test)}")
    # loop body: straight-line statements then `if <count> > 0: (if <acc> is None: … else: …); <drawn> += <count>`
    et = EvalTr(sets=[], nats=["n_samples", drawn])
    et.optsets.add(acc)
    lb = list(loop.body)
    last = lb[-1]
    if not (isinstance(last, ast.If) and isinstance(last.test, ast.Compare) and isinstance(last.test.left, ast.Name) and len(last.test.ops) == 1
            and isinstance(last.test.ops[0], ast.Gt) and ast.unparse(last.test.comparators[0]) == "0" and not last.orelse):
        raise Untranslatable("the loop body does not end with `if <number of valid rows> > 0:`")
    cnt = last.test.left.id
    inner = last.body
    if len(inner) != 2 or not isinstance(inner[0], ast.If) or ast.unparse(inner[0].test) != f"{acc} is None" \
            or ast.unparse(inner[1]) != f"{drawn} += {cnt}":
        raise Untranslatable(f"unexpected statements under `if {cnt} > 0:`")
    first, later = inner[0].body, inner[0].orelse

    def sel(e):
        # new_samples[valid]
        if isinstance(e, ast.Subscript) and isinstance(e.value, ast.Name) and e.value.id in et.sets and isinstance(e.slice, ast.Name) and e.slice.id in et.masks:
            return f"(Gen.eset_select {e.value.id} {e.slice.id})"
        raise Untranslatable(f"selection {ast.unparse(e)}")

    def acc_update():
        if len(first) != 1 or len(later) != 1:
            raise Untranslatable("accumulation branches")
        f0, l0 = first[0], later[0]
        if not (isinstance(f0, ast.Assign) and ast.unparse(f0.targets[0]) == acc):
            raise Untranslatable(f"first-batch branch {ast.unparse(f0)}")
        a = sel(f0.value)
        if not (isinstance(l0, ast.Assign) and ast.unparse(l0.targets[0]) == acc and isinstance(l0.value, ast.Call)
                and ast.unparse(l0.value.func) == "Samples.concatenate" and len(l0.value.args) == 1 and isinstance(l0.value.args[0], ast.List)
                and len(l0.value.args[0].elts) == 2 and ast.unparse(l0.value.args[0].elts[0]) == acc):
            raise Untranslatable(f"later-batch branch {ast.unparse(l0)}")
        b = sel(l0.value.args[0].elts[1])
        return (f"let samples := (match samples with\n  | none => some {a}\n  | some acc => some (Gen.eset_concat acc {b}))\n"
                f"let n_samples_drawn := n_samples_drawn + {cnt}\n")

    def loop_final():
        upd = acc_update()
        if cnt not in et.nats:
            raise Untranslatable(f"`{cnt}` is not the count of valid rows")
        return (f"let (samples, n_samples_drawn) := (if 0 < {cnt} then\n" + indent(upd + "(samples, n_samples_drawn)") +
                "\nelse (samples, n_samples_drawn))\n" + f"{name}_loop ops n_samples rest tr samples n_samples_drawn")
    loop_code = et.stmts(lb[:-1], loop_final, loop_ctx=True)
    # epilogue
    epi = body[li + 1:]
    if len(epi) != 3 or ast.unparse(epi[0]) != f"if {drawn} > n_samples:\n    {acc} = {acc}[:n_samples]" \
            or not isinstance(epi[2], ast.Return) or ast.unparse(epi[2].value) != acc:
        raise Untranslatable(f"epilogue {[ast.unparse(s)[:50] for s in epi]}")
    et2 = EvalTr(sets=[acc])
    epi_code = et2.stmts([epi[1]], lambda: f"some (tr, {acc})")
    if acc != "samples":
        epi_code = f"let {acc} := samples\n" + epi_code
    text = (f"/-- translated from `{spec['py']}`: the `while n_samples_drawn < n_samples:` loop; `batches` are the proposal's successive\n"
            f"    `sample_and_log_prob(n_samples)` results (rows `(x, log q)`); `none` = the supplied batches ran out -/\n"
            f"def {name}_loop {BINDERS[:-len(' (tr : ETrace X V)')]} (n_samples : Nat) :\n"
            f"    List (List (X × V)) → ETrace X V → Option (ESet X V) → Nat → Option (ETrace X V × Option (ESet X V) × Nat)\n"
            f"  | batches, tr, samples, n_samples_drawn =>\n"
            f"    if n_samples_drawn < n_samples then\n"
            f"      match batches with\n"
            f"      | [] => none\n"
            f"      | batch :: rest =>\n{indent(loop_code, 8)}\n"
            f"    else some (tr, samples, n_samples_drawn)\n\n"
            f"/-- translated from `{spec['py']}`: the whole initial draw (prologue, loop, trim to the requested size, ONE likelihood call on the\n"
            f"    kept rows); `none` = batches ran out, or no row was ever kept (the code would fail on `None`) -/\n"
            f"def {name} {BINDERS} (n_samples : Nat) (batches : List (List (X × V))) : Option (ETrace X V × ESet X V) :=\n"
            f"  match {name}_loop ops n_samples batches tr none 0 with\n"
            f"  | none => none\n"
            f"  | some (tr, samples, n_samples_drawn) =>\n"
            f"    match samples with\n"
            f"    | none => none\n"
            f"    | some samples =>\n"
            f"      let samples := (if n_samples < n_samples_drawn then Gen.eset_take samples n_samples else samples)\n"
            f"{indent(epi_code, 6)}\n")
    return text, [fn.lineno, fn.end_lineno]


def translate(tr, name, spec, fn) -> str:
    part = spec["part"]
    if part == "wrapper":
        if [a.arg for a in fn.args.args] != ["self", "samples"]:
            raise Untranslatable(f"signature {ast.unparse(fn.args)}")
        et = EvalTr(sets=["samples"])
        code = et.stmts(list(fn.body), lambda: (_ for _ in ()).throw(Untranslatable("the wrapper does not return")))
        text = (f"/-- translated from `{spec['py']}`: the counting wrapper around the user's likelihood -/\n"
                f"def {name} {BINDERS} (samples : ESet X V) : ETrace X V × List V :=\n{indent(code)}\n")
        lines = [fn.lineno, fn.end_lineno]
    elif part == "draw":
        text, lines = translate_draw(tr, name, spec, fn)
    elif part == "idiom":
        stmts = extract(fn, lambda u: u.startswith(spec["start"]), lambda u: spec["stop"] in u.split("=")[0] if "=" in u else False)
        et = EvalTr(sets=[], lists=["log_q"] if spec.get("given_log_q") else [])
        sname = ast.unparse(stmts[0].targets[0]) if isinstance(stmts[0], ast.Assign) else None
        if sname is None:
            raise Untranslatable("the extracted statements do not start with the construction of a sample set")
        code = et.stmts(stmts, lambda: f"(tr, {sname})")
        lq = " (log_q : List V)" if spec.get("given_log_q") else ""
        text = (f"/-- translated from `{spec['py']}`: the statements from the construction of the sample set to the assignment of its\n"
                f"    log-likelihood ({len(stmts)} statements) -/\n"
                f"def {name} {BINDERS} (x : List X){lq} : ETrace X V × ESet X V :=\n{indent(code)}\n")
        lines = [stmts[0].lineno, stmts[-1].end_lineno]
    else:
        raise Untranslatable(f"unknown part {part}")
    tr.sigs[name] = {"params": [], "ret": "X", "fuel": False}
    tr.report["functions"][name] = {"source": spec["py"], "lean": f"Gen.{name}", "lines": lines, "notes": [], "params": []}
    return text
