"""Third vocabulary of the source translator: the body of the `while True:` loop of `SMCSampler.sample`, the nested
`maybe_checkpoint`, and the statements after the loop, re-emitted as Lean terms over the operation interface
`Gen.LoopOps` and the state record `Gen.LoopSt` (hand-written in `lean/AspireModel/Gen/LoopOps.lean`; that file only
names the operations the loop calls and the variables it keeps, it does not say what the loop does with them).

What is read from the source, statement by statement, in source order:
  `x = e`, `x += e`, `a, b = self.determine_beta(...)` (may raise -> `Except`), `self.history.<series>.append(e)`,
  `samples.<attr> = e` (evidence attached to the population), `if`/`else` (also `X is not None and ...` narrowing),
  `if <test>: break` as the last statement of the loop (the stop flag), `return` in the nested function,
  calls of the nested `maybe_checkpoint`, `checkpoint_callback(state)`.
What is dropped: `logger.*` calls and `if`s that contain nothing else, the `rng=` keyword (randomness and the kernel are
the operations `resample` / `mutate` of the interface: "for every stream and every kernel").
Anything else raises Untranslatable: the tie to the source is then reported broken and the failing-input search runs.
"""
from __future__ import annotations

import ast

from .py2lean import Untranslatable, indent

# operation table: name -> (receiver kind, positional kinds, {keyword: (kind, default)}, result kind, dropped keywords)
OPS = {
    "determine_beta": ("self", ["P", "S", "S", "S"], {"beta_tolerance": ("S", None)}, "E(S,S)", []),
    "current_target_efficiency": ("self", ["S"], {}, "S", []),
    "effective_sample_size": (None, ["W"], {}, "S", []),
    "log_weights": ("P", ["S"], {}, "W", []),
    "log_evidence_ratio": ("P", ["S"], {}, "S", []),
    "log_evidence_ratio_variance": ("P", ["S"], {}, "S", []),
    "resample": ("P", ["S"], {"n_samples": ("ON", "none")}, "P", ["rng"]),
    "mutate": ("self", ["P", "S"], {"n_steps": ("ON", "none")}, "P", []),
}
STATE = [("samples", "P"), ("samples_log_evidence", "OS"), ("samples_log_evidence_error", "OS"), ("beta", "S"),
         ("min_step", "S"), ("iterations", "N"), ("history", "H"), ("callback_log", "LC")]
RUN_PARAMS = [("beta_step", "S"), ("beta_tolerance", "S"), ("store_sample_history", "B"), ("checkpoint_callback", "CB"),
              ("checkpoint_every", "ON"), ("max_n_steps", "ON"), ("n_final_samples", "ON"), ("n_final_steps", "ON")]
LEAN_T = {"S": "α", "N": "Nat", "B": "Bool", "P": "P", "ON": "Option Nat", "OS": "Option α", "CB": "Bool", "H": "LoopHist P α",
          "LC": "List C", "C": "C", "W": "W"}
HIST_SERIES_P = {"sample_history"}      # series of populations; every other series holds scalars


class V:
    def __init__(self, s, t):
        self.s, self.t = s, t


def par(s):
    return s if s.replace("_", "").replace(".", "").isalnum() else f"({s})"


class LoopTr:
    def __init__(self, name, spec):
        self.name, self.spec = name, spec
        self.notes = []

    # ------------------------------------------------------------------ expressions
    def coerce(self, v: V, t: str) -> str:
        if v.t == t:
            return v.s
        if v.t == "N" and t == "S":
            return f"(({par(v.s)} : Nat) : α)"
        if v.t == "N" and t == "ON":
            return f"(some {par(v.s)})"
        if v.t == "S" and t == "OS":
            return f"(some {par(v.s)})"
        if v.t == "lit" and t == "S":
            return v.s
        if v.t == "lit" and t == "N" and v.s.isdigit():
            return v.s
        raise Untranslatable(f"`{v.s}` has kind {v.t}, {t} expected")

    def ex(self, e, env) -> V:
        u = ast.unparse(e)
        if isinstance(e, ast.Constant):
            if isinstance(e.value, bool):
                return V("true" if e.value else "false", "B")
            if isinstance(e.value, int):
                return V(str(e.value), "lit")
            if isinstance(e.value, float) and e.value == int(e.value) and e.value >= 0:
                return V(str(int(e.value)), "lit")
            if isinstance(e.value, float):
                from fractions import Fraction
                fr = Fraction(repr(e.value))
                return V(f"(Gen.lit {fr.numerator} {fr.denominator})", "S")
            if e.value is None:
                return V("none", "none")
            raise Untranslatable(f"constant {u}")
        if isinstance(e, ast.Name):
            if e.id in env:
                return V(*env[e.id])
            raise Untranslatable(f"name `{e.id}` is not a variable of the loop")
        if isinstance(e, ast.Attribute):
            if u.startswith("self.history.") and u.count(".") == 2:
                return V(f"history.{e.attr}", "LP" if e.attr in HIST_SERIES_P else "LS")
            if isinstance(e.value, ast.Name) and e.value.id == "samples" and e.attr in ("log_evidence", "log_evidence_error"):
                return V(*env[f"samples_{e.attr}"])
            raise Untranslatable(f"attribute {u}")
        if isinstance(e, ast.Call):
            return self.call(e, env)
        if isinstance(e, ast.BinOp):
            a, b = self.ex(e.left, env), self.ex(e.right, env)
            if isinstance(e.op, ast.Mod):
                return V(f"({self.coerce(a, 'N')} % {self.coerce(b, 'N')})", "N")
            sym = {ast.Add: "+", ast.Sub: "-", ast.Mult: "*", ast.Div: "/"}.get(type(e.op))
            if sym is None:
                raise Untranslatable(f"operator in {u}")
            if sym != "/" and a.t in ("N", "lit") and b.t in ("N", "lit"):
                return V(f"({self.coerce(a, 'N')} {sym} {self.coerce(b, 'N')})", "N")
            return V(f"({self.coerce(a, 'S')} {sym} {self.coerce(b, 'S')})", "S")
        if isinstance(e, ast.UnaryOp) and isinstance(e.op, ast.Not):
            return V(f"(!{self.boolean(e.operand, env)})", "B")
        if isinstance(e, ast.Compare) and len(e.ops) == 1:
            op, l, r = e.ops[0], e.left, e.comparators[0]
            if isinstance(op, (ast.Is, ast.IsNot)) and isinstance(r, ast.Constant) and r.value is None:
                lv = self.ex(l, env)
                if lv.t == "CB":
                    return V(f"(!{lv.s})" if isinstance(op, ast.Is) else lv.s, "B")
                if lv.t in ("ON", "OS"):
                    return V(f"{lv.s}.isNone" if isinstance(op, ast.Is) else f"{lv.s}.isSome", "B")
                raise Untranslatable(f"`{u}`: {lv.s} is not optional here")
            a, b = self.ex(l, env), self.ex(r, env)
            num = "N" if a.t in ("N", "lit") and b.t in ("N", "lit") else "S"
            x, y = self.coerce(a, num), self.coerce(b, num)
            if isinstance(op, (ast.Eq, ast.NotEq)):
                core = f"{x} = {y}" if num == "N" else f"¬ Gen.ne {par(x)} {par(y)}"
                if isinstance(op, ast.NotEq):
                    core = f"{x} ≠ {y}" if num == "N" else f"Gen.ne {par(x)} {par(y)}"
                return V(f"decide ({core})", "B")
            sym = {ast.Lt: (x, "<", y), ast.LtE: (x, "≤", y), ast.Gt: (y, "<", x), ast.GtE: (y, "≤", x)}.get(type(op))
            if sym is None:
                raise Untranslatable(f"comparison {u}")
            return V(f"decide ({sym[0]} {sym[1]} {sym[2]})", "B")
        if isinstance(e, ast.BoolOp):
            return V(self.boolop(e, env), "B")
        raise Untranslatable(f"expression {u}")

    def boolean(self, e, env) -> str:
        v = self.ex(e, env)
        if v.t != "B":
            raise Untranslatable(f"`{ast.unparse(e)}` used as a condition has kind {v.t}")
        return v.s

    def narrowing(self, e, env):
        """`X is not None` with X an optional variable -> (python name, lean name, kind of the content)"""
        if isinstance(e, ast.Compare) and len(e.ops) == 1 and isinstance(e.ops[0], ast.IsNot) and isinstance(e.left, ast.Name) \
                and isinstance(e.comparators[0], ast.Constant) and e.comparators[0].value is None and e.left.id in env \
                and env[e.left.id][1] in ("ON", "OS"):
            return e.left.id, env[e.left.id][0], {"ON": "N", "OS": "S"}[env[e.left.id][1]]
        return None

    def boolop(self, e, env) -> str:
        vals = list(e.values)
        if isinstance(e.op, ast.And):
            nr = self.narrowing(vals[0], env)
            if nr and len(vals) > 1:
                py, ln, k = nr
                env2 = dict(env); env2[py] = (ln, k)
                rest = vals[1] if len(vals) == 2 else ast.BoolOp(op=ast.And(), values=vals[1:])
                return f"(match {ln} with | none => false | some {ln} => {self.boolean(rest, env2)})"
            return "(" + " && ".join(self.boolean(v, env) for v in vals) + ")"
        return "(" + " || ".join(self.boolean(v, env) for v in vals) + ")"

    def call(self, e, env) -> V:
        u = ast.unparse(e)
        f = e.func
        kw = {k.arg: k.value for k in e.keywords}
        # len(samples) / len(samples.x)
        if isinstance(f, ast.Name) and f.id == "len" and len(e.args) == 1:
            a = e.args[0]
            if isinstance(a, ast.Attribute) and a.attr == "x":
                a = a.value
            v = self.ex(a, env)
            if v.t == "P":
                return V(f"(ops.len {par(v.s)})", "N")
            raise Untranslatable(f"len of {v.t}: {u}")
        if isinstance(f, ast.Name) and f.id == "asarray" and e.args:
            return self.ex(e.args[0], env)
        # xp.sum / xp.sqrt
        if isinstance(f, ast.Attribute) and f.attr in ("sum", "sqrt") and ast.unparse(f.value) in ("samples.xp", "self.xp", "xp", "np"):
            a = self.ex(e.args[0], env)
            if f.attr == "sum":
                if a.t != "LS":
                    raise Untranslatable(f"sum of {a.t}: {u}")
                return V(f"(Gen.vsum {par(a.s)})", "S")
            return V(f"(ExpLog.sqrt {par(self.coerce(a, 'S'))})", "S")
        name, recv = None, None
        if isinstance(f, ast.Name):
            name = f.id
        elif isinstance(f, ast.Attribute):
            name = f.attr
            recv = f.value
        if name == "build_checkpoint_state" and recv is not None and ast.unparse(recv) == "self":
            # build_checkpoint_state(samples, iteration, beta, min_step=...) reads `self.history` and whatever is attached to the
            # population it is handed: both are passed explicitly
            if len(e.args) != 3 or set(kw) - {"min_step"}:
                raise Untranslatable(f"build_checkpoint_state called as {u}")
            p, it, b = (self.ex(a, env) for a in e.args)
            if p.t != "P":
                raise Untranslatable(f"{u}: first argument is not the population")
            if ast.unparse(e.args[0]) != "samples":
                raise Untranslatable(f"{u}: the population handed to the checkpoint is not `samples`")
            ms = self.ex(kw["min_step"], env) if "min_step" in kw else V("none", "none")
            ms_s = "none" if ms.t == "none" else self.coerce(ms, "OS")
            return V(f"(ops.build_checkpoint_state {p.s} {env['samples_log_evidence'][0]} {env['samples_log_evidence_error'][0]} "
                     f"{par(self.coerce(it, 'N'))} {par(self.coerce(b, 'S'))} {ms_s} history)", "C")
        if name in OPS:
            rk, pos, kws, res, dropped = OPS[name]
            args = []
            if rk == "self":
                if recv is None or ast.unparse(recv) != "self":
                    raise Untranslatable(f"{u}: expected a method of the sampler")
            elif rk == "P":
                rv = self.ex(recv, env) if recv is not None else None
                if rv is None or rv.t != "P":
                    raise Untranslatable(f"{u}: receiver is not a population")
                args.append(par(rv.s))
            elif recv is not None:
                raise Untranslatable(f"{u}: unexpected receiver")
            if len(e.args) != len(pos):
                raise Untranslatable(f"{u}: {len(e.args)} positional arguments, {len(pos)} expected")
            for a, k in zip(e.args, pos):
                args.append(par(self.coerce(self.ex(a, env), k)))
            for k in kw:
                if k not in kws and k not in dropped:
                    raise Untranslatable(f"{u}: unknown keyword {k}")
            for k in dropped:
                if k in kw and ast.unparse(kw[k]) != "self.rng":
                    raise Untranslatable(f"{u}: `{k}` is not the sampler's generator")
                if k not in kw:
                    raise Untranslatable(f"{u}: the sampler's generator is not passed (`{k}=self.rng`)")
            for k, (kk, dflt) in kws.items():
                if k in kw:
                    args.append(par(self.coerce(self.ex(kw[k], env), kk)))
                elif dflt is not None:
                    args.append(dflt)
                else:
                    raise Untranslatable(f"{u}: keyword {k} missing")
            return V(f"(ops.{name} {' '.join(args)})", res)
        raise Untranslatable(f"call {u}")

    # ------------------------------------------------------------------ statements
    def skippable(self, st) -> bool:
        if isinstance(st, ast.Expr) and isinstance(st.value, ast.Constant):
            return True
        if isinstance(st, ast.Expr) and isinstance(st.value, ast.Call) and ast.unparse(st.value.func).startswith("logger."):
            return True
        if isinstance(st, ast.If) and all(self.skippable(s) for s in st.body) and all(self.skippable(s) for s in st.orelse):
            return True
        if isinstance(st, ast.Pass):
            return True
        return False

    def assigned(self, stmts, env):
        """lean variables (re)bound by the statements, in a fixed order"""
        out = []

        def add(n):
            if n not in out:
                out.append(n)
        for st in stmts:
            if self.skippable(st):
                continue
            if isinstance(st, ast.AugAssign) and isinstance(st.target, ast.Name):
                add(st.target.id)
            elif isinstance(st, ast.Assign):
                for t in st.targets:
                    for n in (t.elts if isinstance(t, ast.Tuple) else [t]):
                        if isinstance(n, ast.Name):
                            add(n.id)
                            if n.id == "samples":
                                add("samples_log_evidence"); add("samples_log_evidence_error")
                        elif isinstance(n, ast.Attribute):
                            add(ast.unparse(n).replace(".", "_"))
            elif isinstance(st, ast.Expr) and isinstance(st.value, ast.Call):
                u = ast.unparse(st.value.func)
                if u.startswith("self.history.") and u.endswith(".append"):
                    add("history")
                elif u in ("maybe_checkpoint", "checkpoint_callback"):
                    add("callback_log")
            elif isinstance(st, ast.If):
                for n in self.assigned(st.body, env) + self.assigned(st.orelse, env):
                    add(n)
        return out

    def block(self, stmts, env, final, in_loop=False, fn_ret=None):
        """emit the statements followed by `final(env)`"""
        if not stmts:
            return final(env)
        st, rest = stmts[0], stmts[1:]
        more = lambda env2: self.block(rest, env2, final, in_loop, fn_ret)   # noqa: E731
        u = ast.unparse(st)
        if self.skippable(st):
            return more(env)
        if isinstance(st, ast.AugAssign) and isinstance(st.target, ast.Name) and isinstance(st.op, ast.Add):
            n = st.target.id
            cur = self.ex(st.target, env)
            v = self.ex(st.value, env)
            k = cur.t
            return f"let {n} := {cur.s} + {self.coerce(v, k)}\n" + more({**env, n: (n, k)})
        if isinstance(st, ast.Assign) and len(st.targets) == 1:
            t = st.targets[0]
            if isinstance(t, ast.Tuple):
                v = self.ex(st.value, env)
                if not v.t.startswith("E("):
                    raise Untranslatable(f"tuple assignment from {v.t}: {u}")
                kinds = v.t[2:-1].split(",")
                names = [n.id for n in t.elts]
                env2 = dict(env)
                for n, k in zip(names, kinds):
                    env2[n] = (n, k)
                return (f"match {v.s} with\n| .error err => .error err\n| .ok ({', '.join(names)}) =>\n" + indent(more(env2)))
            if isinstance(t, ast.Name):
                v = self.ex(st.value, env)
                k = v.t
                if k == "lit":
                    k = env[t.id][1] if t.id in env else "S"
                    v = V(self.coerce(v, k), k)
                if t.id in env and env[t.id][1] != k and not (env[t.id][1], k) in (("OS", "S"), ("ON", "N")):
                    raise Untranslatable(f"`{t.id}` changes kind from {env[t.id][1]} to {k}: {u}")
                env2 = {**env, t.id: (t.id, k)}
                out = f"let {t.id} := {v.s}\n"
                if t.id == "samples":
                    # a new population object carries no attached evidence
                    out += "let samples_log_evidence : Option α := none\nlet samples_log_evidence_error : Option α := none\n"
                    env2["samples_log_evidence"] = ("samples_log_evidence", "OS")
                    env2["samples_log_evidence_error"] = ("samples_log_evidence_error", "OS")
                return out + more(env2)
            if isinstance(t, ast.Attribute) and isinstance(t.value, ast.Name) and t.value.id == "samples" \
                    and t.attr in ("log_evidence", "log_evidence_error"):
                v = self.ex(st.value, env)
                n = f"samples_{t.attr}"
                return f"let {n} : Option α := some {par(self.coerce(v, 'S'))}\n" + more({**env, n: (n, "OS")})
            raise Untranslatable(f"assignment {u}")
        if isinstance(st, ast.Expr) and isinstance(st.value, ast.Call):
            c = st.value
            fu = ast.unparse(c.func)
            if fu.startswith("self.history.") and fu.endswith(".append") and fu.count(".") == 3 and len(c.args) == 1:
                series = fu.split(".")[2]
                v = self.ex(c.args[0], env)
                want = "P" if series in HIST_SERIES_P else "S"
                return (f"let history := {{ history with {series} := history.{series} ++ [{self.coerce(v, want)}] }}\n" + more(env))
            if fu == "maybe_checkpoint":
                kw = {k.arg: k.value for k in c.keywords}
                if c.args and not kw:
                    force = self.boolean(c.args[0], env)
                elif set(kw) == {"force"} and not c.args:
                    force = self.boolean(kw["force"], env)
                elif not c.args and not kw:
                    force = "false"
                else:
                    raise Untranslatable(f"call {u}")
                args = " ".join(env[n][0] for n, _ in STATE)
                return (f"let callback_log := smc_maybe_checkpoint ops checkpoint_callback checkpoint_every {force} {args}\n" + more(env))
            if fu == "checkpoint_callback" and len(c.args) == 1:
                v = self.ex(c.args[0], env)
                if v.t != "C":
                    raise Untranslatable(f"the callback is handed a {v.t}: {u}")
                return f"let callback_log := callback_log ++ [{v.s}]\n" + more(env)
            raise Untranslatable(f"statement {u[:90]}")
        if isinstance(st, ast.Return) and fn_ret is not None:
            if st.value is not None:
                raise Untranslatable(f"return with a value in the nested function: {u}")
            return fn_ret(env)
        if isinstance(st, ast.If):
            # `if <test>: break` closing the loop
            if in_loop and len(st.body) == 1 and isinstance(st.body[0], ast.Break) and not st.orelse:
                if rest and not all(self.skippable(s) for s in rest):
                    raise Untranslatable("statements after the `break` test of the loop")
                return f"let stop : Bool := {self.boolean(st.test, env)}\n" + final({**env, "stop": ("stop", "B")})
            if any(isinstance(n, ast.Break) for n in ast.walk(st)):
                raise Untranslatable("`break` somewhere else than in the closing test of the loop")
            # early return in the nested function: the rest of the function is the else branch
            if fn_ret is not None and st.body and isinstance(st.body[-1], ast.Return) and not st.orelse:
                a = self.block(st.body, env, final, in_loop, fn_ret)
                b = more(env)
                return f"if {self.boolean(st.test, env)} then\n{indent(a)}\nelse\n{indent(b)}"
            if any(isinstance(n, ast.Return) for n in ast.walk(st)):
                raise Untranslatable(f"`return` inside {u[:60]}")
            names = self.assigned([st], env)
            if not names:
                raise Untranslatable(f"`if` without effect on the state: {u[:60]}")
            for n in names:
                if n not in env:
                    raise Untranslatable(f"`{n}` is first assigned inside an `if`")
            tup = names[0] if len(names) == 1 else "(" + ", ".join(names) + ")"
            fin = lambda e2: tup   # noqa: E731

            def arms(test, env_t):
                a = self.block(st.body, env_t, fin, False, None)
                b = self.block(st.orelse, env, fin, False, None)
                return a, b
            nr = None
            test = st.test
            if isinstance(test, ast.BoolOp) and isinstance(test.op, ast.And):
                nr = self.narrowing(test.values[0], env)
            elif self.narrowing(test, env):
                nr = self.narrowing(test, env)
            if nr:
                py, ln, k = nr
                env_t = {**env, py: (ln, k)}
                vals = test.values[1:] if isinstance(test, ast.BoolOp) else []
                a, b = arms(test, env_t)
                if vals:
                    rest_t = vals[0] if len(vals) == 1 else ast.BoolOp(op=ast.And(), values=vals)
                    inner = f"if {self.boolean(rest_t, env_t)} then\n{indent(a)}\nelse\n{indent(b)}"
                else:
                    inner = a
                body = f"(match {ln} with\n| none =>\n{indent(b)}\n| some {ln} =>\n{indent(inner)})"
            else:
                a, b = arms(test, env)
                body = f"(if {self.boolean(test, env)} then\n{indent(a)}\nelse\n{indent(b)})"
            # kinds after the branch: unchanged (checked by Lean)
            return f"let {tup} := {body}\n" + more(env)
        raise Untranslatable(f"statement {u[:90]}")

    # ------------------------------------------------------------------ the three definitions
    def base_env(self):
        env = {n: (n, k) for n, k in STATE}
        env.update({n: (n, k) for n, k in RUN_PARAMS})
        return env

    def repack(self, env):
        return "{ " + ", ".join(f"{n} := {env[n][0]}" for n, _ in STATE) + " }"

    UNPACK = "".join(f"let {n} := st.{n}\n" for n, _ in STATE)
    BINDERS = "{P W C : Type} (ops : LoopOps P W C α) " + " ".join(f"({n} : {LEAN_T[k]})" for n, k in RUN_PARAMS)


def find_loop(fn):
    loops = [n for n in ast.walk(fn) if isinstance(n, ast.While) and isinstance(n.test, ast.Constant) and n.test.value is True]
    if len(loops) != 1:
        raise Untranslatable(f"{len(loops)} `while True:` loops in {fn.name}")
    return loops[0]


def enclosing_body(fn, node):
    """the statement list of `fn` that (transitively) contains `node`, and the index of the top-level statement holding it"""
    for i, st in enumerate(fn.body):
        if any(n is node for n in ast.walk(st)):
            return i
    raise Untranslatable("loop not found in the function body")


def translate(tr, name, spec, fn) -> str:
    """`spec['part']` in {"maybe_checkpoint", "body", "epilogue"}"""
    lt = LoopTr(name, spec)
    part = spec["part"]
    env = lt.base_env()
    if part == "maybe_checkpoint":
        nested = [n for n in fn.body if isinstance(n, ast.FunctionDef) and n.name == "maybe_checkpoint"]
        if len(nested) != 1:
            raise Untranslatable("nested `maybe_checkpoint` not found")
        nf = nested[0]
        a = nf.args
        if [x.arg for x in a.args] != ["force"] or a.vararg or a.kwarg or a.kwonlyargs:
            raise Untranslatable(f"signature of maybe_checkpoint: {ast.unparse(a)}")
        if not (a.defaults and isinstance(a.defaults[0], ast.Constant) and a.defaults[0].value is False):
            raise Untranslatable("default of `force` is not False")
        env["force"] = ("force", "B")
        ret = lambda e2: e2["callback_log"][0]   # noqa: E731
        body = lt.block(nf.body, env, ret, False, ret)
        binders = ("{P W C : Type} (ops : LoopOps P W C α) (checkpoint_callback : Bool) (checkpoint_every : Option Nat) (force : Bool) "
                   + " ".join(f"({n} : {LEAN_T[k]})" for n, k in STATE))
        text = (f"/-- translated from `{spec['py']}.maybe_checkpoint` (nested function; its free variables are parameters, the\n"
                f"    callback's effect is the list of payloads it was handed) -/\n"
                f"def {name} {binders} : List C :=\n{indent(body)}\n")
        lines = [nf.lineno, nf.end_lineno]
    elif part == "body":
        loop = find_loop(fn)
        fin = lambda e2: f".ok ({lt.repack(e2)}, {e2['stop'][0]})" if "stop" in e2 else (_ for _ in ()).throw(   # noqa: E731
            Untranslatable("the loop body does not end with `if <test>: break`"))
        body = lt.block(loop.body, env, fin, True, None)
        text = (f"/-- translated from `{spec['py']}`: one pass through the body of `while True:`; the Boolean is the test of the closing\n"
                f"    `if ...: break` -/\n"
                f"def {name} {LoopTr.BINDERS} (st : LoopSt P C α) :\n    Except Model.BetaErr (LoopSt P C α × Bool) :=\n"
                f"{indent(LoopTr.UNPACK + body)}\n")
        lines = [loop.lineno, loop.end_lineno]
    elif part == "epilogue":
        loop = find_loop(fn)
        i = enclosing_body(fn, loop)
        stmts = fn.body[i + 1:]
        # up to and including the forced checkpoint
        k = next((j for j, s in enumerate(stmts) if isinstance(s, ast.Expr) and isinstance(s.value, ast.Call)
                  and ast.unparse(s.value.func) == "maybe_checkpoint"), None)
        if k is None:
            raise Untranslatable("no `maybe_checkpoint(...)` after the loop")
        tail = stmts[k + 1:]
        for s in tail:
            if lt.skippable(s) or isinstance(s, ast.Return):
                continue
            if isinstance(s, ast.Assign) and ast.unparse(s) == "final_samples = samples.to_standard_samples()":
                continue
            raise Untranslatable(f"statement after the final checkpoint: {ast.unparse(s)[:80]}")
        rets = [s for s in tail if isinstance(s, ast.Return)]
        if len(rets) != 1 or ast.unparse(rets[0].value) != "final_samples":
            raise Untranslatable("the function does not return `samples.to_standard_samples()` of the final population")
        stmts = stmts[:k + 1]
        # the enlargement binds `final_samples` (a population): allow it as a local
        env["final_samples"] = ("final_samples", "P")
        pre = "let final_samples := st.samples\n"
        body = lt.block(stmts, env, lambda e2: lt.repack(e2), False, None)
        text = (f"/-- translated from `{spec['py']}`: the statements after the loop up to and including the forced checkpoint\n"
                f"    (optional enlargement, evidence and its error attached to the population, `maybe_checkpoint(force=True)`);\n"
                f"    the function then returns `samples.to_standard_samples()` -/\n"
                f"def {name} {LoopTr.BINDERS} (st : LoopSt P C α) : LoopSt P C α :=\n"
                f"{indent(LoopTr.UNPACK + pre + body)}\n")
        lines = [stmts[0].lineno, stmts[-1].end_lineno]
    elif part == "driver":
        # the control skeleton around the body: `if run_smc_loop:` / `while True:` / body ending in `if ...: break`, then the epilogue
        loop = find_loop(fn)
        i = enclosing_body(fn, loop)
        top = fn.body[i]
        if not (isinstance(top, ast.If) and isinstance(top.test, ast.Name) and top.test.id == "run_smc_loop" and not top.orelse
                and len(top.body) == 1 and top.body[0] is loop):
            raise Untranslatable("the loop is not the only statement of `if run_smc_loop:`")
        if loop.orelse:
            raise Untranslatable("`while True:` with an else clause")
        last = [s for s in loop.body if not lt.skippable(s)][-1]
        if not (isinstance(last, ast.If) and len(last.body) == 1 and isinstance(last.body[0], ast.Break) and not last.orelse):
            raise Untranslatable("the loop body does not end with `if <test>: break`")
        if sum(isinstance(n, (ast.Break, ast.Continue)) for n in ast.walk(loop)) != 1:
            raise Untranslatable("more than one `break` / a `continue` in the loop")
        if any(isinstance(n, ast.Return) for st_ in loop.body for n in ast.walk(st_)):
            raise Untranslatable("`return` inside the loop")
        args = "ops " + " ".join(n for n, _ in RUN_PARAMS)
        text = (f"/-- translated from `{spec['py']}`: the `while True:` loop (`fuel` passes at most; the Boolean says whether the loop\n"
                f"    was left through its `break`) -/\n"
                f"def {name}_loop {LoopTr.BINDERS} : Nat → LoopSt P C α → Except Model.BetaErr (LoopSt P C α × Bool)\n"
                f"  | 0, st => .ok (st, false)\n"
                f"  | fuel + 1, st =>\n"
                f"    match smc_loop_body {args} st with\n"
                f"    | .error err => .error err\n"
                f"    | .ok (st', stop) => if stop then .ok (st', true) else {name}_loop {args} fuel st'\n\n"
                f"/-- translated from `{spec['py']}`: `if run_smc_loop: while True: ...` followed by the statements after the loop;\n"
                f"    `none` = the fuel ran out inside the loop -/\n"
                f"def {name}_run {LoopTr.BINDERS} (run_smc_loop : Bool) (fuel : Nat) (st : LoopSt P C α) :\n"
                f"    Except Model.BetaErr (Option (LoopSt P C α)) :=\n"
                f"  if run_smc_loop then\n"
                f"    match {name}_loop {args} fuel st with\n"
                f"    | .error err => .error err\n"
                f"    | .ok (st', true) => .ok (some (smc_epilogue {args} st'))\n"
                f"    | .ok (_, false) => .ok none\n"
                f"  else .ok (some (smc_epilogue {args} st))\n")
        lines = [top.lineno, top.end_lineno]
    else:
        raise Untranslatable(f"unknown part {part}")
    tr.sigs[name] = {"params": [], "ret": "X", "fuel": False}
    tr.report["functions"][name] = {"source": spec["py"], "lean": f"Gen.{name}", "lines": lines, "notes": lt.notes, "params": []}
    return text
