"""Fourth vocabulary of the source translator: the two context managers of an `Aspire` instance (C19) —
`utils.PoolHandler.__enter__` / `__exit__` and the generator `Aspire.auto_checkpoint` (`try: yield self / finally: ...`) —
re-emitted as Lean state transformers over the records of `lean/AspireModel/Gen/CtxOps.lean` (hand-written: the attributes
the managers touch, nothing about what they do with them).

Read from the source: attribute copies between the handler (`self.<f>`) and the instance (`self.aspire_instance.<a>` or, in
`auto_checkpoint`, `self.<a>`), `partial(...)` (a fresh callable token), `if` on handler flags, `self.pool is not None`,
`self.pool.close()` / `.join()` (events; an absent pool is an AttributeError flag), `getattr(self, name, None)`,
`hasattr` / `delattr`, a dict literal for the checkpoint defaults, `prev is None`.  Dropped: `logger.*`.  Anything else is
Untranslatable (broken tie -> failing-input search).
"""
from __future__ import annotations

import ast

from .py2lean import Untranslatable, indent

INST_ATTRS = {"log_likelihood": "Nat", "log_prior": "Nat", "_checkpoint_defaults": "ODef"}
H_FIELDS = {"pool": "ONat", "close_pool": "Bool", "parallelize_prior": "Bool", "original_log_likelihood": "Nat",
            "original_log_prior": "Nat"}
DEF_KEYS = {"path": ("path", "Nat"), "every": ("every", "Nat"), "save_config": ("saveConfig", "Bool"), "save_flow": ("saveFlow", "Bool"),
            "saved_config": ("savedConfig", "Bool"), "saved_flow": ("savedFlow", "Bool")}


def skippable(st):
    if isinstance(st, ast.Expr) and isinstance(st.value, ast.Constant):
        return True
    if isinstance(st, ast.Expr) and isinstance(st.value, ast.Call) and ast.unparse(st.value.func).startswith("logger."):
        return True
    if isinstance(st, ast.Pass):
        return True
    return False


class CtxTr:
    """`mode` = "handler": `self` is the PoolHandler (record `h`), the instance is `self.aspire_instance` (record `inst`);
       `mode` = "instance": `self` is the Aspire instance (record `inst`)."""

    def __init__(self, mode, env):
        self.mode, self.env = mode, dict(env)     # env: local name -> (lean, kind)
        self.may_raise = False     # a statement that can raise was emitted: what follows runs only if it did not

    def guard(self, var, new):
        """`var` keeps its value when an earlier statement raised"""
        return f"(if raised then {var} else {new})" if self.may_raise else new

    def inst_attr(self, e):
        """the instance attribute an expression denotes, or None"""
        if not isinstance(e, ast.Attribute):
            return None
        if self.mode == "handler" and e.attr in INST_ATTRS and (ast.unparse(e.value) == "self.aspire_instance" or (
                isinstance(e.value, ast.Name) and self.env.get(e.value.id, (None, None))[1] == "INST")):
            return e.attr
        if self.mode == "instance" and isinstance(e.value, ast.Name) and e.value.id == "self" and e.attr in INST_ATTRS:
            return e.attr
        return None

    def h_field(self, e):
        if self.mode == "handler" and isinstance(e, ast.Attribute) and isinstance(e.value, ast.Name) and e.value.id == "self" and e.attr in H_FIELDS:
            return e.attr
        return None

    def ex(self, e):
        """-> (lean text, kind, needs_fresh)"""
        u = ast.unparse(e)
        a = self.inst_attr(e)
        if a:
            return f"inst.{a}", INST_ATTRS[a], False
        f = self.h_field(e)
        if f:
            return f"h.{f}", H_FIELDS[f], False
        if self.mode == "handler" and u == "self.aspire_instance":
            return "inst", "INST", False
        if isinstance(e, ast.Name) and e.id in self.env:
            return self.env[e.id][0], self.env[e.id][1], False
        if isinstance(e, ast.Constant) and isinstance(e.value, bool):
            return ("true" if e.value else "false"), "Bool", False
        if isinstance(e, ast.Call) and isinstance(e.func, ast.Name) and e.func.id == "partial":
            # partial(<callable>, map_fn=self.pool.map): a new callable object
            if not e.args or len(e.args) != 1:
                raise Untranslatable(f"partial with {len(e.args)} positional arguments: {u}")
            base = self.ex(e.args[0])
            if base[1] != "Nat":
                raise Untranslatable(f"partial of a non-callable: {u}")
            kws = {k.arg: ast.unparse(k.value) for k in e.keywords}
            if kws != {"map_fn": "self.pool.map"}:
                raise Untranslatable(f"partial keywords {kws}")
            return "inst.fresh", "Nat", True
        if isinstance(e, ast.Call) and isinstance(e.func, ast.Name) and e.func.id == "getattr" and len(e.args) == 3 \
                and ast.unparse(e.args[0]) == "self" and self.mode == "instance" and isinstance(e.args[1], ast.Constant) \
                and e.args[1].value in INST_ATTRS and INST_ATTRS[e.args[1].value] == "ODef" and ast.unparse(e.args[2]) == "None":
            return f"inst.{e.args[1].value}", "ODef", False
        if isinstance(e, ast.Dict):
            keys = [k.value if isinstance(k, ast.Constant) else None for k in e.keys]
            if sorted(keys, key=str) != sorted(DEF_KEYS, key=str):
                raise Untranslatable(f"checkpoint-defaults dictionary with keys {keys}")
            parts = []
            for k, v in zip(keys, e.values):
                fld, kind = DEF_KEYS[k]
                vs, vk, fr = self.ex(v)
                if vk != kind or fr:
                    raise Untranslatable(f"defaults[{k!r}] = {ast.unparse(v)} has kind {vk}, {kind} expected")
                parts.append(f"{fld} := {vs}")
            return "({ " + ", ".join(parts) + " } : Model.Defaults)", "Def", False
        raise Untranslatable(f"expression {u}")

    def cond(self, e):
        """-> ("bool", text) or ("opt", lean option expr, bound python name or None, negated)"""
        if isinstance(e, ast.Compare) and len(e.ops) == 1 and isinstance(e.comparators[0], ast.Constant) and e.comparators[0].value is None \
                and isinstance(e.ops[0], (ast.Is, ast.IsNot)):
            s, k, _ = self.ex(e.left)
            if k not in ("ONat", "ODef"):
                raise Untranslatable(f"`{ast.unparse(e)}`: not optional")
            return ("opt", s, k, isinstance(e.ops[0], ast.Is), e.left)
        if isinstance(e, ast.Call) and isinstance(e.func, ast.Name) and e.func.id == "hasattr" and len(e.args) == 2 \
                and ast.unparse(e.args[0]) == "self" and self.mode == "instance" and isinstance(e.args[1], ast.Constant) \
                and INST_ATTRS.get(e.args[1].value) == "ODef":
            return ("bool", f"inst.{e.args[1].value}.isSome")
        s, k, _ = self.ex(e)
        if k != "Bool":
            raise Untranslatable(f"condition {ast.unparse(e)} has kind {k}")
        return ("bool", s)

    def block(self, stmts, final):
        if not stmts:
            return final()
        st, rest = stmts[0], stmts[1:]
        more = lambda: self.block(rest, final)   # noqa: E731
        u = ast.unparse(st)
        if skippable(st):
            return more()
        if isinstance(st, ast.Assign) and len(st.targets) == 1:
            t = st.targets[0]
            vs, vk, fr = self.ex(st.value)
            a, f = self.inst_attr(t), self.h_field(t)
            if a:
                want = INST_ATTRS[a]
                if want == "ODef" and vk == "Def":
                    vs, vk = f"(some {vs})", "ODef"
                if vk != want:
                    raise Untranslatable(f"{u}: kind {vk}, {want} expected")
                new = f"{{ inst with {a} := {vs}" + (", fresh := inst.fresh + 1" if fr else "") + " }"
                return f"let inst := {self.guard('inst', new)}\n" + more()
            if f:
                if vk != H_FIELDS[f] or fr:
                    raise Untranslatable(f"{u}: kind {vk}, {H_FIELDS[f]} expected")
                return f"let h := {self.guard('h', '{ h with ' + f + ' := ' + vs + ' }')}\n" + more()
            if isinstance(t, ast.Name) and vk == "INST":
                self.env[t.id] = ("inst", "INST")     # an alias of the instance object
                return more()
            if isinstance(t, ast.Name) and not fr:
                self.env[t.id] = (t.id, vk)
                return f"let {t.id} := {vs}\n" + more()
            raise Untranslatable(f"assignment {u}")
        if isinstance(st, ast.Expr) and isinstance(st.value, ast.Call):
            c = st.value
            fu = ast.unparse(c.func)
            if self.mode == "handler" and fu in ("self.pool.close", "self.pool.join") and not c.args and not c.keywords:
                ev = "Model.PoolEv.close" if fu.endswith("close") else "Model.PoolEv.join"
                flag = "h.close_raises" if fu.endswith("close") else "h.join_raises"
                # the call raises when there is no pool (AttributeError) or when the pool's shutdown fails; nothing after it runs then
                new = (f"(match h.pool with\n  | some pool => if {flag} then (events, true) else (events ++ [{ev} pool], false)\n"
                       f"  | none => (events, true))")
                out = f"let (events, raised) := {self.guard('(events, raised)', new)}\n"
                self.may_raise = True
                return out + more()
            if self.mode == "instance" and fu == "delattr" and not self.may_raise and len(c.args) == 2 and ast.unparse(c.args[0]) == "self" \
                    and isinstance(c.args[1], ast.Constant) and INST_ATTRS.get(c.args[1].value) == "ODef":
                return f"let inst := {{ inst with {c.args[1].value} := none }}\n" + more()
            raise Untranslatable(f"statement {u[:80]}")
        if isinstance(st, ast.If):
            c = self.cond(st.test)
            tup = "(h, inst, events, raised)" if self.mode == "handler" else "inst"
            fin = lambda: tup   # noqa: E731
            guarded = self.may_raise
            a = self.block(st.body, fin)
            ra = self.may_raise
            self.may_raise = guarded
            b = self.block(st.orelse, fin)
            self.may_raise = self.may_raise or ra
            if c[0] == "bool":
                body = f"(if {c[1]} then\n{indent(a)}\nelse\n{indent(b)})"
            else:
                _, s, k, is_none, left = c
                # inside the `some` arm a local name keeps denoting the same optional (no rebinding needed: the arms only copy it)
                some_arm, none_arm = (b, a) if is_none else (a, b)
                body = f"(match {s} with\n| none =>\n{indent(none_arm)}\n| some _ =>\n{indent(some_arm)})"
            if guarded:
                body = f"(if raised then {tup} else {body})"
            return f"let {tup} := {body}\n" + more()
        raise Untranslatable(f"statement {u[:80]}")


def translate(tr, name, spec, fn) -> str:
    part = spec["part"]
    if part in ("pool_enter", "pool_exit"):
        want = {"pool_enter": ["self"], "pool_exit": ["self", "exc_type", "exc_value", "traceback"]}[part]
        if [a.arg for a in fn.args.args] != want:
            raise Untranslatable(f"signature of {fn.name}: {ast.unparse(fn.args)}")
        ct = CtxTr("handler", {})
        body = list(fn.body)
        ret = None
        if part == "pool_enter":
            if not (body and isinstance(body[-1], ast.Return)):
                raise Untranslatable("__enter__ does not end with a return")
            rv = body[-1].value
            if rv is None or ast.unparse(rv) != "self.pool":
                raise Untranslatable(f"__enter__ returns {ast.unparse(rv) if rv else None}")
            body = body[:-1]
            ret = "(h, inst, h.pool)"
        else:
            if any(isinstance(n, ast.Return) and n.value is not None and not (isinstance(n.value, ast.Constant) and n.value.value in (None, False))
                   for n in ast.walk(fn)):
                raise Untranslatable("__exit__ returns a value (it would swallow the exception)")
            ret = "(inst, events, raised)"
        if any(isinstance(n, (ast.Try, ast.With, ast.Raise, ast.While, ast.For)) for st in body for n in ast.walk(st)):
            raise Untranslatable(f"control flow outside the subset in {fn.name}")
        code = ct.block(body, lambda: ret)
        if part == "pool_enter":
            sig = "(h : PoolH) (inst : CtxInst) : PoolH × CtxInst × Option Nat"
            pre = "let events : List Model.PoolEv := []\nlet raised : Bool := false\n"
        else:
            sig = "(h : PoolH) (inst : CtxInst) : CtxInst × List Model.PoolEv × Bool"
            pre = "let events : List Model.PoolEv := []\nlet raised : Bool := false\n"
        text = (f"/-- translated from `{spec['py']}` (`h` = the handler's attributes, `inst` = the Aspire instance's; `partial(...)` is a\n"
                f"    fresh callable token; `self.pool.close()` / `.join()` raise when there is no pool or when `h.close_raises` / `h.join_raises`\n"
                f"    says the pool's shutdown fails, and nothing after a raising call is executed: the Boolean result) -/\n"
                f"def {name} {sig} :=\n{indent(pre + code)}\n")
        lines = [fn.lineno, fn.end_lineno]
    elif part in ("auto_enter", "auto_finally"):
        if not any(ast.unparse(d).endswith("contextmanager") for d in fn.decorator_list):
            raise Untranslatable("auto_checkpoint is not a @contextmanager")
        params = [a.arg for a in fn.args.args]
        if params != ["self", "path", "every", "save_config", "save_flow"]:
            raise Untranslatable(f"signature of auto_checkpoint: {params}")
        body = [s for s in fn.body if not skippable(s)]
        tries = [i for i, s in enumerate(body) if isinstance(s, ast.Try)]
        if len(tries) != 1 or tries[0] != len(body) - 1:
            raise Untranslatable("auto_checkpoint is not `<prologue>; try: yield self; finally: ...`")
        t = body[-1]
        tb = [s for s in t.body if not skippable(s)]
        if t.handlers or t.orelse or len(tb) != 1 or not (isinstance(tb[0], ast.Expr) and isinstance(tb[0].value, ast.Yield)
                                                           and tb[0].value.value is not None and ast.unparse(tb[0].value.value) == "self"):
            raise Untranslatable("the try block is not exactly `yield self` with only a `finally`")
        if sum(isinstance(n, (ast.Yield, ast.YieldFrom)) for n in ast.walk(fn)) != 1:
            raise Untranslatable("more than one yield")
        env = {"path": ("path", "Nat"), "every": ("every", "Nat"), "save_config": ("save_config", "Bool"), "save_flow": ("save_flow", "Bool")}
        ct = CtxTr("instance", env)
        def saved_name():
            cands = [n for n, (_, k) in ct.env.items() if k == "ODef"]
            if len(cands) != 1:
                raise Untranslatable(f"{len(cands)} saved copies of the checkpoint defaults before the try")
            return cands[0]
        pro = ct.block(body[:-1], lambda: f"({saved_name()}, inst)")
        if part == "auto_enter":
            text = (f"/-- translated from `{spec['py']}`: the statements before `try: yield self` (what is saved, what the body sees) -/\n"
                    f"def {name} (path every : Nat) (save_config save_flow : Bool) (inst : CtxInst) : Option Model.Defaults × CtxInst :=\n{indent(pro)}\n")
            lines = [fn.lineno, t.lineno]
        else:
            ct2 = CtxTr("instance", {saved_name(): ("prev", "ODef")})
            fin = ct2.block(t.finalbody, lambda: "inst")
            text = (f"/-- translated from `{spec['py']}`: the `finally:` block (runs on every exit path of the body) -/\n"
                    f"def {name} (prev : Option Model.Defaults) (inst : CtxInst) : CtxInst :=\n{indent(fin)}\n")
            lines = [t.finalbody[0].lineno, t.end_lineno]
    else:
        raise Untranslatable(f"unknown part {part}")
    tr.sigs[name] = {"params": [], "ret": "X", "fuel": False}
    tr.report["functions"][name] = {"source": spec["py"], "lean": f"Gen.{name}", "lines": lines, "notes": [], "params": []}
    return text
