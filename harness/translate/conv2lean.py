"""Tenth vocabulary of the source translator: the conversion methods of the sample containers (C15) — `BaseSamples.to_numpy`,
`BaseSamples.to_namespace`, `BaseSamples.from_samples`, `Samples.to_namespace`, `Samples.to_numpy`, `SMCSamples.to_namespace`,
`SMCSamples.to_numpy`, the constructor's `BaseSamples.__post_init__`, and WHICH CLASS DEFINES WHICH METHOD — re-emitted as Lean values
over `lean/AspireModel/Gen/ConvOps.lean` (`ConvPlan`: one constructor call; `Wrap`: how each array handed to it was prepared; `PostInit`:
which fields the constructor converts) and the finite dtype model of `Model/Dtype.lean`.

Read from the source: the `dtype` decision (`if dtype is not None: dtype = resolve_dtype(dtype, T) else: dtype = convert_dtype(self.dtype, T)`
in either orientation, a plain assignment, an inline keyword), the target namespace (`np` / the `xp` argument / `kwargs.pop("xp", samples.xp)`),
every keyword of `self.__class__(…)` / `cls(…)`: from which field it is built and through which wrapper (`self.F`, `to_numpy(self.F)`,
`asarray(self.F, xp, dtype=dtype)`, with or without the `if self.F is not None else None` guard), the `out = super().to_namespace(…)` form
with `out.F = self.F` assignments, and for `__post_init__` the dtype rule and the fields converted with `array_to_namespace(·, dtype=self.dtype)`.
Dropped: `logger.*`, `parameters=`, `device=` (not array data), `**kwargs` pass-through.  A keyword built from ANOTHER field, a conversion
behind a cache, a `try`, anything else: Untranslatable (broken tie -> failing-input search).
Trusted: a sample set's `dtype` attribute is the native dtype object of its namespace at its width (what `__post_init__` establishes).
"""
from __future__ import annotations

import ast

from .py2lean import Untranslatable

COLS = {"x": "x", "log_likelihood": "ll", "log_prior": "lp", "log_q": "lq"}
SCALARS = {"beta": "beta", "log_evidence": "logZ", "log_evidence_error": "logZerr"}
IGNORED_KW = {"parameters", "device"}
CLASSES = ("BaseSamples", "Samples", "SMCSamples")
METHODS = {"to_numpy": "toNumpy", "to_namespace": "toNamespace", "from_samples": "fromSamples"}
SCLS = {"BaseSamples": "base", "Samples": "samples", "SMCSamples": "smc"}
SIG = "(self_ns : Model.Ns) (self_w : Model.Width) (xp_arg : Option Model.Ns) (dtype_arg : Model.DT)"


def is_skip(st):
    if isinstance(st, ast.Expr) and isinstance(st.value, ast.Constant):
        return True
    if isinstance(st, ast.Expr) and isinstance(st.value, ast.Call) and ast.unparse(st.value.func).startswith("logger."):
        return True
    return False


class ConvTr:
    def __init__(self, obj, has_xp, has_dtype):
        self.obj = obj                      # the name of the source object (`self`, or `samples` in from_samples)
        self.np_ok = True                   # module-level `import numpy as np` (checked by the caller)
        self.xp = "(xp_arg.getD self_ns)" if has_xp else None
        self.dtype = "dtype_arg" if has_dtype else None
        self.lets = []

    def ns(self, e):
        u = ast.unparse(e)
        if u == "np":
            return "Model.Ns.numpy"
        if u == "xp":
            if self.xp is None:
                raise Untranslatable("`xp` is not defined here")
            return self.xp
        raise Untranslatable(f"namespace {u}")

    def dt(self, e):
        u = ast.unparse(e)
        if u == "dtype":
            if self.dtype is None:
                raise Untranslatable("`dtype` is not defined here")
            return self.dtype
        if u == f"{self.obj}.dtype":
            return "(Model.DT.native self_ns self_w)"
        if isinstance(e, ast.Call) and ast.unparse(e.func) == "resolve_dtype" and len(e.args) == 2 and not e.keywords:
            return f"(Model.resolveDtype {self.dt(e.args[0])} {self.ns(e.args[1])})"
        if isinstance(e, ast.Call) and ast.unparse(e.func) == "convert_dtype" and len(e.args) == 2 and not e.keywords:
            return f"(Model.convertDtype {self.dt(e.args[0])} {self.ns(e.args[1])})"
        raise Untranslatable(f"dtype expression {u[:80]}")

    def field_of(self, e):
        if isinstance(e, ast.Attribute) and isinstance(e.value, ast.Name) and e.value.id == self.obj:
            return e.attr
        return None

    def strip_guard(self, e, kw):
        """`E if self.F is not None else None` -> E (F must be the field the keyword is for)"""
        if isinstance(e, ast.IfExp) and isinstance(e.orelse, ast.Constant) and e.orelse.value is None:
            t = e.test
            if isinstance(t, ast.Compare) and len(t.ops) == 1 and isinstance(t.ops[0], ast.IsNot) and ast.unparse(t.comparators[0]) == "None" \
                    and self.field_of(t.left) == kw:
                return e.body
            raise Untranslatable(f"guard of keyword {kw}: {ast.unparse(e.test)}")
        return e

    def wrap(self, e, kw):
        e = self.strip_guard(e, kw)
        inner, text = e, "Wrap.raw"
        if isinstance(e, ast.Call) and ast.unparse(e.func) == "to_numpy" and len(e.args) == 1 and not e.keywords:
            inner, text = e.args[0], "Wrap.toNumpy"
        elif isinstance(e, ast.Call) and ast.unparse(e.func) == "asarray" and len(e.args) == 2 and [k.arg for k in e.keywords] == ["dtype"]:
            inner, text = e.args[0], f"(Wrap.asarray {self.ns(e.args[1])} {self.dt(e.keywords[0].value)})"
        f = self.field_of(inner)
        if f is None:
            raise Untranslatable(f"keyword {kw} = {ast.unparse(e)[:60]}")
        if f != kw:
            raise Untranslatable(f"keyword {kw} is built from the field {f}")
        return text

    def plan(self, call):
        if call.args:
            raise Untranslatable("positional constructor arguments")
        fields = {"xp": "none", "dtype": "Model.DT.none", "x": None, "ll": "none", "lp": "none", "lq": "none",
                  "beta": "false", "logZ": "false", "logZerr": "false"}
        for k in call.keywords:
            if k.arg is None:
                if ast.unparse(k.value) != "kwargs":
                    raise Untranslatable(f"**{ast.unparse(k.value)}")
                continue
            if k.arg in IGNORED_KW:
                continue
            if k.arg == "xp":
                fields["xp"] = f"(some {self.ns(k.value)})"
            elif k.arg == "dtype":
                fields["dtype"] = self.dt(k.value)
            elif k.arg in COLS:
                w = self.wrap(k.value, k.arg)
                fields[COLS[k.arg]] = w if k.arg == "x" else f"(some {w})"
            elif k.arg in SCALARS:
                v = self.strip_guard(k.value, k.arg)
                # a set-level value may go through the same wrappers as an array (`asarray(self.log_evidence, xp, dtype=dtype)`)
                if isinstance(v, ast.Call) and ast.unparse(v.func) == "to_numpy" and len(v.args) == 1 and not v.keywords:
                    v = v.args[0]
                elif isinstance(v, ast.Call) and ast.unparse(v.func) == "asarray" and len(v.args) == 2 and [kk.arg for kk in v.keywords] == ["dtype"]:
                    self.ns(v.args[1]); self.dt(v.keywords[0].value)
                    v = v.args[0]
                if self.field_of(v) != k.arg:
                    raise Untranslatable(f"keyword {k.arg} = {ast.unparse(k.value)[:60]}")
                fields[SCALARS[k.arg]] = "true"
            else:
                raise Untranslatable(f"constructor keyword {k.arg}")
        if fields["x"] is None:
            raise Untranslatable("the constructor is not given x")
        return "({ " + ", ".join(f"{k} := {v}" for k, v in fields.items()) + " } : ConvPlan)"

    def bind_dtype(self, text):
        n = len(self.lets)
        self.lets.append(f"let dtype{n} : Model.DT := {text}")
        self.dtype = f"dtype{n}"

    def body(self, stmts, supers):
        out_var, out_plan = None, None
        for st in stmts:
            u = ast.unparse(st)
            if is_skip(st):
                continue
            if isinstance(st, (ast.Import, ast.ImportFrom)):
                if u != "import array_api_compat.numpy as np":
                    raise Untranslatable(f"import {u}")
                continue
            if isinstance(st, ast.If) and isinstance(st.test, ast.Compare) and ast.unparse(st.test.left) == "dtype" and len(st.test.ops) == 1 \
                    and ast.unparse(st.test.comparators[0]) == "None" and len(st.body) == 1 and len(st.orelse) == 1 \
                    and all(isinstance(s, ast.Assign) and ast.unparse(s.targets[0]) == "dtype" for s in (st.body[0], st.orelse[0])):
                given, absent = (st.body[0], st.orelse[0]) if isinstance(st.test.ops[0], ast.IsNot) else (st.orelse[0], st.body[0])
                if not isinstance(st.test.ops[0], (ast.Is, ast.IsNot)):
                    raise Untranslatable(f"test {ast.unparse(st.test)}")
                d0 = self.dtype
                if d0 is None:
                    raise Untranslatable("`dtype` tested before it is defined")
                g, a = self.dt(given.value), self.dt(absent.value)
                self.bind_dtype(f"(match {d0} with | Model.DT.none => {a} | _ => {g})")
                continue
            if isinstance(st, ast.Assign) and len(st.targets) == 1:
                t, v = ast.unparse(st.targets[0]), st.value
                vu = ast.unparse(v)
                if t == "dtype" and vu == "kwargs.pop('dtype', None)":
                    self.dtype = "dtype_arg"
                    continue
                if t == "xp" and vu == f"kwargs.pop('xp', {self.obj}.xp)":
                    self.xp = "(xp_arg.getD self_ns)"
                    continue
                if t == "device" and vu == f"kwargs.pop('device', {self.obj}.device)":
                    continue
                if t == "dtype":
                    self.bind_dtype(self.dt(v))
                    continue
                if isinstance(st.targets[0], ast.Name) and isinstance(v, ast.Call) and isinstance(v.func, ast.Attribute) \
                        and ast.unparse(v.func.value) == "super()" and v.func.attr in supers:
                    args = [ast.unparse(a) for a in v.args] + [f"{k.arg}={ast.unparse(k.value)}" for k in v.keywords]
                    want = {"to_namespace": ["xp", "dtype=dtype"], "to_numpy": []}[v.func.attr] if v.func.attr in ("to_namespace", "to_numpy") else None
                    if args != want:
                        raise Untranslatable(f"arguments of the super() call: {args}")
                    out_var = t
                    out_plan = f"({supers[v.func.attr]} self_ns self_w (some {self.xp}) {self.dtype or 'Model.DT.none'})" if v.func.attr == "to_namespace" \
                        else f"({supers[v.func.attr]} self_ns self_w none Model.DT.none)"
                    continue
                if out_var and isinstance(st.targets[0], ast.Attribute) and ast.unparse(st.targets[0].value) == out_var \
                        and st.targets[0].attr in SCALARS and self.field_of(v) == st.targets[0].attr:
                    out_plan = f"{{ {out_plan} with {SCALARS[st.targets[0].attr]} := true }}"
                    continue
                raise Untranslatable(f"assignment {u[:80]}")
            if isinstance(st, ast.Return):
                v = st.value
                if isinstance(v, ast.Name) and v.id == out_var:
                    return out_plan
                if isinstance(v, ast.Call) and ast.unparse(v.func) in ("self.__class__", "cls"):
                    return self.plan(v)
                raise Untranslatable(f"return {u[:80]}")
            raise Untranslatable(f"statement {u[:80]}")
        raise Untranslatable("no return")


def defining_class(tr, cls, method):
    """the class whose body defines `method` for an object of class `cls` (single inheritance from BaseSamples)"""
    for c in ([cls] if cls == "BaseSamples" else [cls, "BaseSamples"]):
        try:
            tr.find("samples.py", f"{c}.{method}")
            return c
        except Exception as e:   # noqa: BLE001 - `Untranslatable` of whichever copy of py2lean is running
            if type(e).__name__ != "Untranslatable":
                raise
    raise Untranslatable(f"{cls}.{method} is not defined")


def lean_name(cls, method):
    return f"{SCLS[cls]}_{method}"


def translate(tr, name, spec, fn) -> str:
    part = spec["part"]
    notes = []
    if part == "method":
        cls, method = spec["cls"], spec["method"]
        params = [a.arg for a in fn.args.args]
        obj = "samples" if method == "from_samples" else "self"
        want = {"to_numpy": (["self"], ["self", "dtype"]), "to_namespace": (["self", "xp"], ["self", "xp", "dtype"]),
                "from_samples": (["cls", "samples"],)}[method]
        if params not in want:
            raise Untranslatable(f"signature {params}")
        if method == "from_samples" and (fn.args.kwarg is None or fn.args.kwarg.arg != "kwargs"):
            raise Untranslatable("from_samples does not take **kwargs")
        # the base classes of the class are what `super()` means
        node = tr.find("samples.py", cls)
        bases = [ast.unparse(b) for b in node.bases]
        if cls != "BaseSamples" and bases != ["BaseSamples"]:
            raise Untranslatable(f"{cls} derives from {bases}")
        supers = {m: lean_name("BaseSamples", m) for m in ("to_namespace", "to_numpy")} if cls != "BaseSamples" else {}
        ct = ConvTr(obj, has_xp="xp" in params, has_dtype="dtype" in params)
        body = [s for s in fn.body]
        plan = ct.body(body, supers)
        lets = "".join(f"  {l}\n" for l in ct.lets)
        text = (f"/-- translated from `{spec['py']}`: the constructor call it ends in (`xp_arg` / `dtype_arg`: the arguments of the method where it has them) -/\n"
                f"def {name} {SIG} : ConvPlan :=\n{lets}  {plan}\n")
    elif part == "post_init":
        conv = {}
        dtype_rule = xp_rule = False
        for st in fn.body:
            u = ast.unparse(st)
            if is_skip(st):
                continue
            if u == "if self.xp is None:\n    self.xp = array_namespace(self.x)":
                xp_rule = True
                continue
            if u == "if self.dtype is not None:\n    self.dtype = resolve_dtype(self.dtype, self.xp)\nelse:\n    self.dtype = default_dtype(self.xp)":
                dtype_rule = True
                continue
            if u == "self.x = self.array_to_namespace(self.x, dtype=self.dtype)":
                if not (dtype_rule and xp_rule):
                    raise Untranslatable("x is converted before the namespace / dtype are settled")
                conv["x"] = True
                continue
            done = False
            for f in ("log_likelihood", "log_prior", "log_q"):
                if u == f"if self.{f} is not None:\n    self.{f} = self.array_to_namespace(self.{f}, dtype=self.dtype)":
                    if not (dtype_rule and xp_rule):
                        raise Untranslatable(f"{f} is converted before the namespace / dtype are settled")
                    conv[COLS[f]] = True
                    done = True
            if done:
                continue
            if u.startswith("if self.device is None:") or u.startswith("if self.parameters is None:"):
                continue
            raise Untranslatable(f"__post_init__ statement {u[:80]}")
        if not (dtype_rule and xp_rule):
            raise Untranslatable("__post_init__ does not settle the namespace and the dtype in the known way")
        text = (f"/-- translated from `{spec['py']}`: the namespace is that of `x` when `xp` is not given, the dtype is `resolve_dtype(dtype, xp)` or the\n"
                f"    namespace default (= `Model.constructW`); the fields converted with `array_to_namespace(·, dtype=self.dtype)` -/\n"
                f"def {name} : PostInit := {{ " + ", ".join(f"{k} := {'true' if conv.get(k) else 'false'}" for k in ("x", "ll", "lp", "lq")) + " }\n")
    elif part == "dispatch":
        arms = []
        for cls in CLASSES:
            for m, lm in METHODS.items():
                d = defining_class(tr, cls, m)
                arms.append(f"  | .{SCLS[cls]}, .{lm} => {lean_name(d, m)} self_ns self_w xp_arg dtype_arg     -- {cls}.{m} is defined in {d}")
        # the derived classes must not override the constructor hook in a way the plan does not know
        text = (f"/-- which class's method a call resolves to (read from the class bodies of `samples.py`) -/\n"
                f"def {name} (cls : Model.SCls) (m : Model.Method) {SIG} : ConvPlan :=\n  match cls, m with\n" + "\n".join(arms) + "\n")
    else:
        raise Untranslatable(f"unknown part {part}")
    tr.sigs[name] = {"params": [], "ret": "X", "fuel": False}
    tr.report["functions"][name] = {"source": spec["py"], "lean": f"Gen.{name}", "lines": [fn.lineno, fn.end_lineno], "notes": notes, "params": []}
    return text
