"""Eighth vocabulary of the source translator: the dictionary <-> HDF5 group codec of `utils.py` (C13) — the nested `_save_flattened` of
`recursively_save_to_h5_file` and the loop of `load_from_h5_file` — re-emitted as Lean functions over the value trees of
`Model/Codec.lean` (`Val`, `H`, `encodeLeaf`, `decodeH`, `insertPath`, `splitKey` are the MEANING of `encode_for_hdf5` on a leaf,
`decode_from_hdf5` on a dataset value, the `setdefault` walk and `str.split(".")`).

Read from the source: the `for key, value in d.items()` loop, the dotted key `f"{prefix}.{key}" if prefix else key`, the test
`isinstance(value, dict) and value` that decides between recursion and a dataset, the dataset creation with `encode_for_hdf5(value)`;
in the loader the `for key, dataset in group.items()` loop, `key.split(".")`, the walk `for part in parts[:-1]: d = d.setdefault(part, {})`
and the assignment `d[parts[-1]] = decode_from_hdf5(dataset[()])`.  Dropped: the `except TypeError` fallback that stores `str(value)` for
values h5py rejects (not value trees of the model) and logging.  Anything else is Untranslatable.
"""
from __future__ import annotations

import ast

from .py2lean import Untranslatable


def translate(tr, name, spec, fn) -> str:
    part = spec["part"]
    if part == "save":
        nested = [n for n in fn.body if isinstance(n, ast.FunctionDef)]
        if len(nested) != 1 or [a.arg for a in nested[0].args.args] != ["g", "prefix", "d"]:
            raise Untranslatable("nested _save_flattened(g, prefix, d) not found")
        nf = nested[0]
        # the outer function: group = h5_file.require_group(path); <nested def>; _save_flattened(group, "", dictionary)
        rest = [s for s in fn.body if not isinstance(s, ast.FunctionDef) and not (isinstance(s, ast.Expr) and isinstance(s.value, ast.Constant))]
        if [ast.unparse(s) for s in rest] != ["group = h5_file.require_group(path)", f"{nf.name}(group, '', dictionary)"]:
            raise Untranslatable(f"outer statements {[ast.unparse(s) for s in rest]}")
        body = [s for s in nf.body if not (isinstance(s, ast.Expr) and isinstance(s.value, ast.Constant))]
        if len(body) != 1 or not isinstance(body[0], ast.For) or ast.unparse(body[0].target) != "(key, value)" \
                or ast.unparse(body[0].iter) != "d.items()" or body[0].orelse:
            raise Untranslatable("the body of _save_flattened is not `for key, value in d.items():`")
        lb = body[0].body
        if len(lb) != 2:
            raise Untranslatable(f"{len(lb)} statements in the loop")
        fk, br = lb
        if ast.unparse(fk) != "full_key = f'{prefix}.{key}' if prefix else key":
            raise Untranslatable(f"key construction: {ast.unparse(fk)}")
        if not (isinstance(br, ast.If) and ast.unparse(br.test) == "isinstance(value, dict) and value"):
            raise Untranslatable(f"branch test: {ast.unparse(br.test) if isinstance(br, ast.If) else ast.unparse(br)[:50]}")
        if [ast.unparse(s) for s in br.body] != [f"{nf.name}(g, full_key, value)"]:
            raise Untranslatable(f"recursion branch: {[ast.unparse(s) for s in br.body]}")
        if len(br.orelse) != 1 or not isinstance(br.orelse[0], ast.Try):
            raise Untranslatable("dataset branch is not a try block")
        tb = br.orelse[0].body
        if [ast.unparse(s) for s in tb] != ["g.create_dataset(full_key, data=encode_for_hdf5(value))"]:
            raise Untranslatable(f"dataset creation: {[ast.unparse(s) for s in tb]}")
        hs = br.orelse[0].handlers
        if len(hs) != 1 or ast.unparse(hs[0].type) != "TypeError":
            raise Untranslatable("unexpected exception handlers around create_dataset")
        text = (f"mutual\n"
                f"/-- translated from `{spec['py']}` (`_save_flattened`): the `for key, value in d.items()` loop; the datasets created, in order -/\n"
                f"def {name}_entries (pre : Model.Str) : List (Model.Str × Model.Val) → List (Model.Str × Model.H)\n"
                f"  | [] => []\n"
                f"  | (key, value) :: rest =>\n"
                f"    let full_key := (if pre ≠ [] then pre ++ ['.'] ++ key else key)\n"
                f"    {name}_value full_key value ++ {name}_entries pre rest\n"
                f"/-- `isinstance(value, dict) and value` → recurse with the dotted key; otherwise one dataset holding `encode_for_hdf5(value)` -/\n"
                f"def {name}_value (full_key : Model.Str) : Model.Val → List (Model.Str × Model.H)\n"
                f"  | .dict es => {name}_entries full_key es\n"
                f"  | .leaf l => [(full_key, Model.encodeLeaf l)]\n"
                f"end\n\n"
                f"/-- translated from `{spec['py']}`: `_save_flattened(group, \"\", dictionary)` -/\n"
                f"def {name} (dictionary : List (Model.Str × Model.Val)) : List (Model.Str × Model.H) := {name}_entries [] dictionary\n")
        lines = [fn.lineno, fn.end_lineno]
    elif part == "load":
        body = [s for s in fn.body if not (isinstance(s, ast.Expr) and isinstance(s.value, ast.Constant))]
        want = ["group = h5_file[path]", "result = {}"]
        if [ast.unparse(s) for s in body[:2]] != want or len(body) != 4 or not isinstance(body[2], ast.For) \
                or ast.unparse(body[3]) != "return result":
            raise Untranslatable(f"load_from_h5_file statements {[ast.unparse(s)[:40] for s in body]}")
        lp = body[2]
        if ast.unparse(lp.target) != "(key, dataset)" or ast.unparse(lp.iter) != "group.items()" or lp.orelse:
            raise Untranslatable("loop header of load_from_h5_file")
        got = [ast.unparse(s) for s in lp.body]
        want = ["parts = key.split('.')", "d = result", "for part in parts[:-1]:\n    d = d.setdefault(part, {})",
                "d[parts[-1]] = decode_from_hdf5(dataset[()])"]
        if got != want:
            raise Untranslatable(f"loop body of load_from_h5_file: {got}")
        text = (f"/-- translated from `{spec['py']}`: `result = {{}}`, then for every (key, dataset) of the group, in the order the group lists them: split\n"
                f"    the key at the dots, walk / create the nested dictionaries along all but the last part (`setdefault`), assign the decoded\n"
                f"    dataset at the last part -/\n"
                f"def {name} (group : List (Model.Str × Model.H)) : List (Model.Str × Model.Val) :=\n"
                f"  group.foldl (fun result kd =>\n"
                f"    let parts := Model.splitKey kd.1\n"
                f"    Model.insertPath parts (Model.decodeH kd.2) result) []\n")
        lines = [fn.lineno, fn.end_lineno]
    else:
        raise Untranslatable(f"unknown part {part}")
    tr.sigs[name] = {"params": [], "ret": "X", "fuel": False}
    tr.report["functions"][name] = {"source": spec["py"], "lean": f"Gen.{name}", "lines": lines,
                                    "notes": ["`except TypeError` fallback (str(value)) and logging are not part of the translated value"] if part == "save" else [],
                                    "params": []}
    return text
