"""Fifth vocabulary of the source translator: the checkpoint-FILE blocks of `Aspire.fit` and `Aspire.sample_posterior` (C14) —
which of configuration and proposal is written to which file, when, and what the `saved_*` flags of the checkpoint defaults
become — re-emitted as Lean state transformers over the records of `lean/AspireModel/Gen/FileOps.lean` (hand-written: the
attributes and HDF5 groups these blocks touch and what `save_config` / `save_flow` / `del h5_file[...]` mean; nothing about
when they are called).

Read from the source, statement by statement: the alias `defaults = getattr(self, "_checkpoint_defaults", None)` (a reference
to the instance's dictionary: writes through it are writes to the instance), `if checkpoint_path is None and defaults:`,
subscripts and `.get(key, False)` of the defaults, `x if defaults else False`, `if checkpoint_path is not None:`,
`with AspireFile(checkpoint_path, "a") as h5_file:`, `"name" in h5_file`, `del h5_file["name"]`, `self.save_config(h5_file, ...)`,
`self.save_flow(h5_file)`, `if defaults is not None: defaults[key] = True`, `if self.flow is not None`, Boolean locals, the
capability test of the sampler's `sample` signature and `kwargs.setdefault(...)`.
Dropped: `logger.*`, comments, the statements about the checkpoint bytes primed by `resume_from_file`
(`_resume_from_default`), and `self._last_sample_posterior_kwargs = {...}`.  Anything else is Untranslatable.
"""
from __future__ import annotations

import ast

from .py2lean import Untranslatable, indent

DEF_FIELDS = {"path": "ONatV", "every": "Nat", "save_config": "Bool", "save_flow": "Bool", "saved_config": "Bool", "saved_flow": "Bool"}
GROUPS = {"aspire_config", "flow"}


def skippable(st):
    if isinstance(st, ast.Expr) and isinstance(st.value, ast.Constant):
        return True
    if isinstance(st, ast.Expr) and isinstance(st.value, ast.Call) and ast.unparse(st.value.func).startswith("logger."):
        return True
    u = ast.unparse(st)
    if "_resume_from_default" in u and isinstance(st, (ast.If, ast.Delete)) and "checkpoint" not in u.replace("_resume_from_default", ""):
        return True
    if isinstance(st, ast.Assign) and u.startswith("self._last_sample_posterior_kwargs ="):
        return True
    if isinstance(st, ast.Assign) and u.startswith("signatured_sample = signature(self._sampler.sample)"):
        return True
    return False


class FileTr:
    def __init__(self, locals_):
        self.env = dict(locals_)       # python local -> kind (Bool, ONat, Nat)
        self.in_file = False           # inside `with AspireFile(...) as h5_file`
        self.alias = None              # name of the alias of self._checkpoint_defaults

    # ------------------------------------------------------------- expressions (Bool / Option Nat / Nat)
    def ex(self, e, bound=None):
        """`bound` = lean name of the defaults record when inside a branch where the alias is known to be a dictionary"""
        u = ast.unparse(e)
        if isinstance(e, ast.Constant) and isinstance(e.value, bool):
            return ("true" if e.value else "false"), "Bool"
        if isinstance(e, ast.Constant) and e.value is None:
            return "none", "none"
        if isinstance(e, ast.Name):
            if e.id == self.alias:
                return "self.checkpoint_defaults", "ODef"
            if e.id in self.env:
                return e.id, self.env[e.id]
            raise Untranslatable(f"name `{e.id}`")
        if isinstance(e, ast.Attribute) and u == "self.flow":
            return "self.flow", "ONat"
        # defaults["key"]  (only where the alias is known to be a dictionary)
        if isinstance(e, ast.Subscript) and isinstance(e.value, ast.Name) and e.value.id == self.alias and isinstance(e.slice, ast.Constant) \
                and e.slice.value in DEF_FIELDS:
            if bound is None:
                raise Untranslatable(f"`{u}` where the defaults may be None")
            k = DEF_FIELDS[e.slice.value]
            return f"{bound}.{e.slice.value}", ("Nat" if k == "ONatV" else k)
        # defaults.get("key", False)
        if isinstance(e, ast.Call) and isinstance(e.func, ast.Attribute) and e.func.attr == "get" and isinstance(e.func.value, ast.Name) \
                and e.func.value.id == self.alias and len(e.args) == 2 and isinstance(e.args[0], ast.Constant) and e.args[0].value in DEF_FIELDS \
                and isinstance(e.args[1], ast.Constant) and e.args[1].value is False and DEF_FIELDS[e.args[0].value] == "Bool":
            if bound is None:
                raise Untranslatable(f"`{u}` where the defaults may be None")
            return f"{bound}.{e.args[0].value}", "Bool"
        # X if defaults else False
        if isinstance(e, ast.IfExp) and isinstance(e.test, ast.Name) and e.test.id == self.alias:
            a, ka = self.ex(e.body, bound="d")
            b, kb = self.ex(e.orelse, bound=None)
            if ka != "Bool" or kb != "Bool":
                raise Untranslatable(f"conditional {u} of kinds {ka}/{kb}")
            return f"(match self.checkpoint_defaults with | some d => {a} | none => {b})", "Bool"
        if isinstance(e, ast.UnaryOp) and isinstance(e.op, ast.Not):
            s, k = self.ex(e.operand, bound)
            if k != "Bool":
                raise Untranslatable(f"not of {k}")
            return f"(!{s})", "Bool"
        if isinstance(e, ast.BoolOp):
            parts = []
            for v in e.values:
                parts.append(self.cond(v, bound))
            return "(" + (" && " if isinstance(e.op, ast.And) else " || ").join(parts) + ")", "Bool"
        if isinstance(e, ast.Compare) and len(e.ops) == 1:
            op, l, r = e.ops[0], e.left, e.comparators[0]
            if isinstance(op, (ast.Is, ast.IsNot)) and isinstance(r, ast.Constant) and r.value is None:
                s, k = self.ex(l, bound)
                if k not in ("ONat", "ODef"):
                    raise Untranslatable(f"`{u}`: {k} is not optional")
                return (f"{s}.isNone" if isinstance(op, ast.Is) else f"{s}.isSome"), "Bool"
            if isinstance(op, (ast.In, ast.NotIn)) and isinstance(l, ast.Constant) and l.value in GROUPS and isinstance(r, ast.Name) and r.id == "h5_file":
                if not self.in_file:
                    raise Untranslatable("h5_file used outside its with block")
                return (f"h5_file.{l.value}.isSome" if isinstance(op, ast.In) else f"h5_file.{l.value}.isNone"), "Bool"
        # not {"checkpoint_file_path", "checkpoint_every"}.issubset(signatured_sample.parameters)  -> capability of the sampler
        if isinstance(e, ast.Call) and isinstance(e.func, ast.Attribute) and e.func.attr == "issubset" and isinstance(e.func.value, ast.Set) \
                and sorted(ast.unparse(x) for x in e.func.value.elts) == ["'checkpoint_every'", "'checkpoint_file_path'"] \
                and len(e.args) == 1 and ast.unparse(e.args[0]) == "signatured_sample.parameters":
            return "sampler_supports_checkpointing", "Bool"
        raise Untranslatable(f"expression {u}")

    def cond(self, e, bound=None):
        # the alias used as a truth value: a non-empty dictionary
        if isinstance(e, ast.Name) and e.id == self.alias:
            return "self.checkpoint_defaults.isSome"
        s, k = self.ex(e, bound)
        if k != "Bool":
            raise Untranslatable(f"condition {ast.unparse(e)} has kind {k}")
        return s

    def assigned(self, stmts):
        """state variables (re)bound by the statements, in the fixed order of the full tuple"""
        out = set()
        for st in stmts:
            if skippable(st):
                continue
            if isinstance(st, ast.Assign) and len(st.targets) == 1:
                t = st.targets[0]
                if isinstance(t, ast.Name) and t.id in self.env:
                    out.add(t.id)
                elif isinstance(t, ast.Subscript) and isinstance(t.value, ast.Name) and t.value.id == self.alias:
                    out.add("self")
            elif isinstance(st, ast.Delete):
                out.add("h5_file")
            elif isinstance(st, ast.Expr) and isinstance(st.value, ast.Call):
                fu = ast.unparse(st.value.func)
                if fu in ("self.save_config", "self.save_flow"):
                    out.add("h5_file")
                elif fu == "kwargs.setdefault" and st.value.args and isinstance(st.value.args[0], ast.Constant):
                    out.add("kw_" + str(st.value.args[0].value))
            elif isinstance(st, ast.With):
                out |= {"files", "h5_file"} | self.assigned(st.body)
            elif isinstance(st, ast.If):
                out |= self.assigned(st.body) | self.assigned(st.orelse)
        return out

    def tup_of(self, names):
        order = ["self", "files", "h5_file", "kw_checkpoint_file_path", "kw_checkpoint_every"] + list(self.env)
        sel = [n for n in order if n in names]
        if not sel:
            return None
        return sel[0] if len(sel) == 1 else "(" + ", ".join(sel) + ")"

    # ------------------------------------------------------------- statements
    STATE = "(self, files, h5_file, kw_checkpoint_file_path, kw_checkpoint_every{loc})"

    def tup(self):
        loc = "".join(", " + n for n in self.env)
        return self.STATE.format(loc=loc)

    def block(self, stmts, final, bound=None):
        if not stmts:
            return final()
        st, rest = stmts[0], stmts[1:]
        more = lambda: self.block(rest, final, bound)   # noqa: E731
        u = ast.unparse(st)
        if skippable(st):
            return more()
        if isinstance(st, ast.Assign) and len(st.targets) == 1:
            t = st.targets[0]
            # the alias
            if isinstance(t, ast.Name) and isinstance(st.value, ast.Call) and ast.unparse(st.value) == "getattr(self, '_checkpoint_defaults', None)":
                if self.alias not in (None, t.id):
                    raise Untranslatable("two aliases of the checkpoint defaults")
                self.alias = t.id
                return more()
            # defaults["flag"] = True   (write through the alias; only where the alias is known not to be None)
            if isinstance(t, ast.Subscript) and isinstance(t.value, ast.Name) and t.value.id == self.alias and isinstance(t.slice, ast.Constant) \
                    and DEF_FIELDS.get(t.slice.value) == "Bool":
                if bound is None:
                    raise Untranslatable(f"`{u}` where the defaults may be None")
                v, k = self.ex(st.value, bound)
                if k != "Bool":
                    raise Untranslatable(f"{u}: kind {k}")
                return (f"let self := {{ self with checkpoint_defaults := self.checkpoint_defaults.map fun (d : FDefaults) => {{ d with {t.slice.value} := {v} }} }}\n" + more())
            if isinstance(t, ast.Name):
                v, k = self.ex(st.value, bound)
                if t.id in self.env:
                    want = self.env[t.id]
                    if want == "ONat" and k == "Nat":
                        v, k = f"(some {v})", "ONat"
                    if want == "ONat" and k == "none":
                        k = "ONat"
                    if k != want:
                        raise Untranslatable(f"{u}: kind {k}, {want} expected")
                    return f"let {t.id} := {v}\n" + more()
                if k in ("Bool", "ONat", "Nat"):
                    # a temporary introduced by the source: a new local from here on
                    self.env[t.id] = k
                    return f"let {t.id} := {v}\n" + more()
                raise Untranslatable(f"assignment to an undeclared local of kind {k}: {u}")
            raise Untranslatable(f"assignment {u}")
        if isinstance(st, ast.Delete) and len(st.targets) == 1:
            t = st.targets[0]
            if isinstance(t, ast.Subscript) and isinstance(t.value, ast.Name) and t.value.id == "h5_file" and isinstance(t.slice, ast.Constant) \
                    and t.slice.value in GROUPS and self.in_file:
                return f"let h5_file := Gen.h5_del_{t.slice.value} h5_file\n" + more()
            raise Untranslatable(f"statement {u}")
        if isinstance(st, ast.Expr) and isinstance(st.value, ast.Call):
            c = st.value
            fu = ast.unparse(c.func)
            kw = {k.arg: ast.unparse(k.value) for k in c.keywords}
            if fu == "self.save_config" and self.in_file and [ast.unparse(a) for a in c.args] == ["h5_file"]:
                inc = kw.get("include_sampler_config", "True")
                if inc not in ("True", "False") or set(kw) - {"include_sampler_config", "include_sample_calls"}:
                    raise Untranslatable(f"save_config called as {u}")
                return f"let h5_file := Gen.save_config self h5_file {inc.lower()}\n" + more()
            if fu == "self.save_flow" and self.in_file and [ast.unparse(a) for a in c.args] == ["h5_file"] and not kw:
                return "let h5_file := Gen.save_flow self h5_file\n" + more()
            if fu == "kwargs.setdefault" and len(c.args) == 2 and isinstance(c.args[0], ast.Constant) and c.args[0].value in ("checkpoint_file_path", "checkpoint_every"):
                name = "kw_" + c.args[0].value
                v, k = self.ex(c.args[1], bound)
                if k == "Nat":
                    v = f"(some {v})"
                elif k != "ONat":
                    raise Untranslatable(f"{u}: kind {k}")
                return f"let {name} := (match {name} with | some given => some given | none => {v})\n" + more()
            raise Untranslatable(f"statement {u[:90]}")
        if isinstance(st, ast.With) and len(st.items) == 1:
            it = st.items[0]
            if ast.unparse(it.context_expr) != "AspireFile(checkpoint_path, 'a')" or it.optional_vars is None or ast.unparse(it.optional_vars) != "h5_file":
                raise Untranslatable(f"with statement {ast.unparse(it.context_expr)}")
            if self.in_file:
                raise Untranslatable("nested file blocks")
            if "path_value" not in self.__dict__ or self.path_value is None:
                raise Untranslatable("the file is opened where checkpoint_path may be None")
            self.in_file = True
            tup = self.tup_of({"h5_file"} | (self.assigned(st.body) - {"files"}))
            inner = self.block(st.body, lambda: tup, bound=bound)
            self.in_file = False
            p = self.path_value
            return (f"let {tup} := (\n  let h5_file := files {p}\n{indent(inner)})\n"
                    f"let files := Gen.h5_store files {p} h5_file\n" + more())
        if isinstance(st, ast.If):
            test = st.test
            tup = self.tup_of(self.assigned([st]))
            if tup is None:
                return more()           # nothing but logging inside
            fin = lambda: tup   # noqa: E731
            # if checkpoint_path is None and defaults:   -> the defaults are a dictionary in the body
            if isinstance(test, ast.BoolOp) and isinstance(test.op, ast.And) and len(test.values) == 2 and isinstance(test.values[1], ast.Name) \
                    and test.values[1].id == self.alias and not st.orelse:
                c0 = self.cond(test.values[0])
                a = self.block(st.body, fin, bound="d")
                return (f"let {tup} := (match self.checkpoint_defaults with\n| some d =>\n  if {c0} then\n{indent(indent(a))}\n  else {tup}\n| none => {tup})\n" + more())
            # if defaults is not None:
            if isinstance(test, ast.Compare) and isinstance(test.left, ast.Name) and test.left.id == self.alias and len(test.ops) == 1 \
                    and isinstance(test.ops[0], ast.IsNot) and not st.orelse:
                a = self.block(st.body, fin, bound="d")
                return f"let {tup} := (match self.checkpoint_defaults with\n| some d =>\n{indent(a)}\n| none => {tup})\n" + more()
            # if checkpoint_path is not None:   -> the path is a number in the body
            if ast.unparse(test) == "checkpoint_path is not None" and not st.orelse:
                old = getattr(self, "path_value", None)
                self.path_value = "p"
                a = self.block(st.body, fin, bound)
                self.path_value = old
                return f"let {tup} := (match checkpoint_path with\n| some p =>\n{indent(a)}\n| none => {tup})\n" + more()
            c = self.cond(test, bound)
            a = self.block(st.body, fin, bound)
            b = self.block(st.orelse, fin, bound)
            return f"let {tup} := (if {c} then\n{indent(a)}\nelse\n{indent(b)})\n" + more()
        raise Untranslatable(f"statement {u[:90]}")


def find_assign_index(body, text, which=0):
    hits = [i for i, s in enumerate(body) if ast.unparse(s).startswith(text)]
    if len(hits) <= which:
        raise Untranslatable(f"statement `{text}` not found")
    return hits[which]


def translate(tr, name, spec, fn) -> str:
    part = spec["part"]
    body = list(fn.body)
    if part == "fit":
        i0 = find_assign_index(body, "defaults = getattr(self, '_checkpoint_defaults', None)")
        # the statements between the training call and the alias may only concern the primed resume bytes
        j_fit = find_assign_index(body, "history = self.flow.fit(")
        for s in body[j_fit + 1:i0]:
            if not skippable(s):
                raise Untranslatable(f"statement between the training call and the file block: {ast.unparse(s)[:80]}")
        if not (isinstance(body[-1], ast.Return) and ast.unparse(body[-1].value) == "history"):
            raise Untranslatable("fit does not end with `return history`")
        stmts = body[i0:-1]
        locals_ = {"checkpoint_path": "ONat", "checkpoint_save_config": "Bool", "overwrite": "Bool", "saved_config": "Bool"}
        params = "(checkpoint_path : Option Nat) (checkpoint_save_config overwrite : Bool)"
        pre = "let saved_config : Bool := false\n"
        doc = "the statements of `fit` after the proposal was trained: which file gets the configuration and the proposal"
        ret = "(self, files)"
    elif part in ("sample_pre", "sample_post"):
        i0 = find_assign_index(body, "defaults = getattr(self, '_checkpoint_defaults', None)")
        j_run = find_assign_index(body, "samples = self._sampler.sample(")
        j_end = find_assign_index(body, "if xp is not None:")
        k_prev = find_assign_index(body, "self._last_sampler_type = sampler")
        if k_prev != i0 - 1 and any(not skippable(s) for s in body[k_prev + 1:i0]):
            raise Untranslatable("statements between `self._last_sampler_type = sampler` and the file block")
        locals_ = {"checkpoint_path": "ONat", "checkpoint_every": "ONat", "checkpoint_save_config": "Bool", "saved_flow": "Bool", "saved_config": "Bool"}
        if part == "sample_pre":
            stmts = body[i0:j_run]
            params = "(sampler_supports_checkpointing : Bool) (checkpoint_path : Option Nat) (checkpoint_every : Option Nat) (checkpoint_save_config : Bool)"
            pre = "let saved_flow : Bool := false\nlet saved_config : Bool := false\n"
            doc = ("the statements of `sample_posterior` between `self._last_sampler_type = sampler` and the sampler's run: the path and cadence handed to the "
                   "sampler, what is written to the file BEFORE sampling")
            ret = "(self, files, kw_checkpoint_file_path, kw_checkpoint_every, checkpoint_path, checkpoint_save_config, saved_flow, saved_config)"
        else:
            stmts = body[j_run + 1:j_end]
            params = "(checkpoint_path : Option Nat) (checkpoint_save_config saved_flow saved_config : Bool)"
            pre = "let checkpoint_every : Option Nat := none\n"
            doc = "the statements of `sample_posterior` after the sampler's run: what is written to the file AFTER sampling"
            ret = "(self, files)"
    else:
        raise Untranslatable(f"unknown part {part}")
    ft = FileTr(locals_)
    aliases = [ast.unparse(s_.targets[0]) for s_ in body if isinstance(s_, ast.Assign) and ast.unparse(s_.value) == "getattr(self, '_checkpoint_defaults', None)"]
    if len(set(aliases)) != 1:
        raise Untranslatable(f"aliases of the checkpoint defaults: {aliases}")
    if part == "sample_post":
        ft.alias = aliases[0]     # bound by the pre block of the same function
    if any(isinstance(n, (ast.Try, ast.While, ast.For, ast.Return, ast.Raise)) for s in stmts for n in ast.walk(s)):
        raise Untranslatable("control flow outside the subset in the file block")
    code = ft.block(stmts, lambda: ret)
    head = ("let h5_file : H5 := {}\n" + pre)
    if part != "sample_pre":
        head = "let kw_checkpoint_file_path : Option Nat := none\nlet kw_checkpoint_every : Option Nat := none\n" + head
        kwp = ""
    else:
        kwp = " (kw_checkpoint_file_path kw_checkpoint_every : Option Nat)"
    rtype = {"fit": "FSelf × (Nat → H5)", "sample_post": "FSelf × (Nat → H5)",
             "sample_pre": "FSelf × (Nat → H5) × Option Nat × Option Nat × Option Nat × Bool × Bool × Bool"}[part]
    text = (f"/-- translated from `{spec['py']}`: {doc} -/\n"
            f"def {name} (self : FSelf) (files : Nat → H5){kwp} {params} : {rtype} :=\n{indent(head + code)}\n")
    tr.sigs[name] = {"params": [], "ret": "X", "fuel": False}
    tr.report["functions"][name] = {"source": spec["py"], "lean": f"Gen.{name}", "lines": [stmts[0].lineno, stmts[-1].end_lineno], "notes": [], "params": []}
    return text
