"""Source translator: numeric functions of /repo's CURRENT working tree  ->  Lean definitions.

The functions listed in `specs.SPECS` are read with `ast` from the source files (no import of aspire, so the
text on disk is what is translated), type-checked against a tiny scalar / vector / bool / nat discipline and
re-emitted as Lean 4 definitions over the scalar interface `Num α` in `lean/AspireModel/Gen/Src*.lean`.
The hand-written theorems in `lean/AspireModel/Props/C*Tie.lean` then prove `Gen.f = Model.f` (the generated
definition equals the hand-written model the property theorems are about).  A change of the source changes the
generated definition; if the tie theorem no longer checks, the check of every property depending on it treats
that as a broken proof obligation (DESIGN.md section 14).

What the translator assumes about Python / the array API (trusted, validated by the behavioural correspondence):
  * 1-D arrays of equal length combine element-wise, a scalar broadcasts; `x.max()`, `xp.sum`, `xp.mean`,
    `xp.var` (ddof=0), `len`, `xp.exp/log/sqrt/abs/log1p/clip`, `math.log`, `round`, `min`, `max`, `**`;
  * `asarray`, `to_numpy`, `array_to_namespace`, `float`, `xp.asarray` do not change values;
  * logging calls and NaN guards that raise are not part of the value computed (listed in the report).
Unsupported syntax raises `Untranslatable`; the function is then reported and its definition omitted, so the
tie theorems that mention it fail to build - never silently skipped.
"""
from __future__ import annotations

import ast
import json
import sys
from dataclasses import dataclass, field
from fractions import Fraction
from pathlib import Path


class Untranslatable(Exception):
    pass


# --------------------------------------------------------------------------------------------- values
@dataclass
class Sc:          # scalar expression
    s: str


@dataclass
class Nt:          # natural-number expression (len, round)
    s: str


@dataclass
class Bo:          # Prop / Bool expression; `prop=True` -> a decidable Prop, else a Bool
    s: str
    prop: bool = True


@dataclass
class Op:          # optional scalar (x if c else nan)
    s: str


@dataclass
class ON:          # Option Nat variable (e.g. checkpoint_every)
    s: str


@dataclass
class Vec:         # vector expression in pointwise normal form
    bases: list    # names of vector variables (Lean identifiers)
    body: str      # scalar expression over the element variables `<base>_i`
    boolean: bool = False

    @staticmethod
    def var(name):
        return Vec([name], f"{name}_i")


@dataclass
class Tup:
    items: list


@dataclass
class Obj:         # an object whose fields are separate Lean parameters (samples, self)
    cls: str
    prefix: str


def paren(s: str) -> str:
    s = s.strip()
    if s.replace("_", "a").replace(".", "a").replace("'", "a").isalnum():
        return s
    return f"({s})"


class Ctx:
    """translation context of one function"""

    def __init__(self, tr, spec, env):
        self.tr, self.spec, self.env = tr, spec, dict(env)
        self.aux: list[str] = []       # auxiliary (loop) definitions emitted before the main one
        self.notes: list[str] = []
        self.vec_order = spec.get("vec_order", [])

    def child(self):
        c = Ctx.__new__(Ctx)
        c.__dict__ = dict(self.__dict__)
        c.env = dict(self.env)
        return c


# --------------------------------------------------------------------------------------------- translator
class Translator:
    def __init__(self, repo_src: Path, specs, classes):
        self.root = repo_src
        self.specs = {s["name"]: s for s in specs}
        self.order = [s["name"] for s in specs]
        self.classes = classes
        self.trees: dict[str, ast.Module] = {}
        self.sigs: dict[str, dict] = {}     # name -> {"params": [(lean_name, kind)], "fuel": bool, ...}
        self.report: dict = {"functions": {}, "failed": {}}

    # ---- source lookup
    def tree(self, rel):
        if rel not in self.trees:
            self.trees[rel] = ast.parse((self.root / rel).read_text())
        return self.trees[rel]

    def find(self, rel, qual):
        node = self.tree(rel)
        for part in qual.split("."):
            found = None
            for ch in ast.walk(node) if isinstance(node, ast.FunctionDef) else ast.iter_child_nodes(node):
                if isinstance(ch, (ast.FunctionDef, ast.ClassDef)) and ch.name == part:
                    # prefer plain methods over property setters
                    if isinstance(ch, ast.FunctionDef) and any(
                        isinstance(d, ast.Attribute) and d.attr == "setter" for d in ch.decorator_list
                    ):
                        continue
                    found = ch
                    break
            if found is None:
                raise Untranslatable(f"{rel}: {qual}: `{part}` not found")
            node = found
        return node

    # ---- parameters
    def obj_params(self, cls, prefix):
        out = []
        for fname, kind in self.classes[cls]:
            out.append((f"{prefix}{fname}", kind))
        return out

    def lean_binder(self, name, kind):
        t = {"S": "α", "V": "List α", "N": "Nat", "B": "Bool", "ON": "Option Nat", "RN": "α → Nat", "OS": "Option α",
             "FN": "α → α", "FN2": "α → α → α", "FVS": "List α → List α × α", "FS": "List α → α"}[kind]
        return f"({name} : {t})"

    # ---- expressions
    def expr(self, c: Ctx, e) -> object:
        consts = c.spec.get("constants")
        if consts and not isinstance(e, (ast.Name, ast.Constant)):
            txt = ast.unparse(e)
            if txt in consts:
                return Sc(consts[txt])
        m = getattr(self, "e_" + type(e).__name__, None)
        if m is None:
            raise Untranslatable(f"expression {type(e).__name__}: {ast.unparse(e)}")
        return m(c, e)

    def e_Constant(self, c, e):
        v = e.value
        if isinstance(v, bool):
            return Bo("true" if v else "false", prop=False)
        if isinstance(v, int):
            return Nt(str(v)) if v >= 0 else Sc(f"(-{self.lit(Fraction(-v))})")
        if isinstance(v, float):
            fr = Fraction(repr(v))
            if fr < 0:
                return Sc(f"(-{self.lit(-fr)})")
            return Sc(self.lit(fr))
        if v is None:
            return ("none",)
        raise Untranslatable(f"constant {v!r}")

    @staticmethod
    def lit(fr: Fraction) -> str:
        if fr == 0:
            return "0"
        if fr == 1:
            return "1"
        if fr == 2:
            return "Model.two"
        if fr == Fraction(1, 2):
            return "Model.half"
        return f"(Gen.lit {fr.numerator} {fr.denominator})"

    def e_Name(self, c, e):
        if e.id not in c.env:
            raise Untranslatable(f"unknown name `{e.id}`")
        return c.env[e.id]

    def self_obj(self, c, e):
        """`self` / `samples` / `self.xp` style prefixes -> Obj or marker"""
        if isinstance(e, ast.Name) and isinstance(c.env.get(e.id), Obj):
            return c.env[e.id]
        if isinstance(e, ast.Attribute):
            o = self.self_obj(c, e.value)
            if o is not None and isinstance(c.env.get(f"{o.prefix}{e.attr}"), Obj):
                return c.env[f"{o.prefix}{e.attr}"]
        return None

    def e_Attribute(self, c, e):
        o = self.self_obj(c, e.value)
        if o is not None:
            key = f"{o.prefix}{e.attr}"
            if key in c.env:                     # assigned earlier in this function, or a field parameter
                return c.env[key]
            raise Untranslatable(f"unknown field `{ast.unparse(e)}`")
        # xp.nan / xp.inf
        if self.is_ns(c, e.value) and e.attr == "nan":
            return ("nan",)
        if self.is_ns(c, e.value) and e.attr == "inf":
            return ("inf",)
        raise Untranslatable(f"attribute {ast.unparse(e)}")

    def is_ns(self, c, e) -> bool:
        """an array-namespace expression: xp, np, math, self.xp, samples.xp, sliced.xp"""
        if isinstance(e, ast.Name) and e.id in ("xp", "np", "math", "numpy", "torch", "jnp", "torch_api"):
            return True
        if isinstance(e, ast.Attribute) and e.attr == "xp":
            return True
        return False

    def e_Subscript(self, c, e):
        o = None
        if isinstance(e.value, ast.Attribute):
            o = self.self_obj(c, e.value.value)
        if o is not None and isinstance(e.slice, ast.Constant) and isinstance(e.slice.value, int):
            key = f"{o.prefix}{e.value.attr}[{e.slice.value}]"
            if key in c.env:
                return c.env[key]
        raise Untranslatable(f"subscript {ast.unparse(e)}")

    def e_UnaryOp(self, c, e):
        v = self.expr(c, e.operand)
        if isinstance(e.op, ast.USub):
            if isinstance(v, Vec):
                return Vec(v.bases, f"(-{paren(v.body)})")
            v = self.to_scalar(v)
            return Sc(f"(-{paren(v.s)})")
        if isinstance(e.op, ast.Not):
            b = self.to_bool(c, v)
            return Bo(f"(¬ {paren(b.s)})") if b.prop else Bo(f"(!{paren(b.s)})", prop=False)
        raise Untranslatable(f"unary {ast.unparse(e)}")

    def to_scalar(self, v) -> Sc:
        if isinstance(v, Sc):
            return v
        if isinstance(v, Nt):
            if v.s.isdigit():
                return Sc(self.lit(Fraction(int(v.s))))
            return Sc(f"(({v.s} : Nat) : α)")
        raise Untranslatable(f"expected a scalar, got {v}")

    def to_bool(self, c, v) -> Bo:
        if isinstance(v, Bo):
            return v
        raise Untranslatable(f"expected a condition, got {v}")

    def merge(self, c, a: Vec, b: Vec):
        bases = list(a.bases)
        for x in b.bases:
            if x not in bases:
                bases.append(x)
        order = {n: i for i, n in enumerate(c.vec_order)}
        bases.sort(key=lambda n: (order.get(n, len(order)), n))
        return bases

    def vec_of(self, c, v):
        """a vector-valued call used inside a larger expression is bound to a fresh name first"""
        if isinstance(v, tuple) and v and v[0] == "vcall":
            name = f"t{len(c.pre) + c.sh['tmp']}"
            c.sh['tmp'] += 1
            c.pre.append(f"let {name} := {v[1]}")
            return Vec.var(name)
        return v

    def e_BinOp(self, c, e):
        a, b = self.vec_of(c, self.expr(c, e.left)), self.vec_of(c, self.expr(c, e.right))
        op = {ast.Add: "+", ast.Sub: "-", ast.Mult: "*", ast.Div: "/", ast.Mod: "%"}.get(type(e.op))
        if isinstance(e.op, ast.Pow):
            return self.power(c, a, b, e)
        if op is None:
            raise Untranslatable(f"operator {ast.unparse(e)}")
        if isinstance(a, Nt) and isinstance(b, Nt):
            if op == "/":
                return Sc(f"({self.to_scalar(a).s} / {self.to_scalar(b).s})")
            return Nt(f"({a.s} {op} {b.s})")
        if op == "%":
            modf = c.env.get("__mod__")
            if modf is None:
                raise Untranslatable(f"float modulo {ast.unparse(e)} without a `mod` parameter in the spec")
            if isinstance(a, Vec) and isinstance(b, Vec):
                return Vec(self.merge(c, a, b), f"({modf} {paren(a.body)} {paren(b.body)})")
            if isinstance(a, Vec):
                return Vec(a.bases, f"({modf} {paren(a.body)} {paren(self.to_scalar(b).s)})")
            if isinstance(b, Vec):
                return Vec(b.bases, f"({modf} {paren(self.to_scalar(a).s)} {paren(b.body)})")
            return Sc(f"({modf} {paren(self.to_scalar(a).s)} {paren(self.to_scalar(b).s)})")
        if isinstance(a, Vec) or isinstance(b, Vec):
            if isinstance(a, Vec) and isinstance(b, Vec):
                return Vec(self.merge(c, a, b), f"({a.body} {op} {b.body})")
            if isinstance(a, Vec):
                return Vec(a.bases, f"({a.body} {op} {self.to_scalar(b).s})")
            return Vec(b.bases, f"({self.to_scalar(a).s} {op} {b.body})")
        return Sc(f"({self.to_scalar(a).s} {op} {self.to_scalar(b).s})")

    def power(self, c, a, b, e):
        if isinstance(b, Nt) and b.s == "2":
            if isinstance(a, Vec):
                return Vec(a.bases, f"({a.body} * {a.body})")
            a = self.to_scalar(a)
            return Sc(f"({a.s} * {a.s})")
        if isinstance(a, (Sc, Nt)) and isinstance(b, (Sc, Nt)):
            return Sc(f"(Model.powS {paren(self.to_scalar(a).s)} {paren(self.to_scalar(b).s)})")
        raise Untranslatable(f"power {ast.unparse(e)}")

    def e_Compare(self, c, e):
        if len(e.ops) != 1:
            # chained comparison a < b < c
            parts = []
            left = e.left
            for op, right in zip(e.ops, e.comparators):
                parts.append(self.e_Compare(c, ast.Compare(left, [op], [right])))
                left = right
            return Bo("(" + " ∧ ".join(self.as_prop(p).s for p in parts) + ")")
        a, b, op = self.expr(c, e.left), self.expr(c, e.comparators[0]), e.ops[0]
        # `x is None` / `x is not None`
        if isinstance(op, (ast.Is, ast.IsNot)) and b == ("none",):
            if isinstance(a, ON):
                return Bo(f"{a.s}.isSome" if isinstance(op, ast.IsNot) else f"{a.s}.isNone", prop=False)
            if isinstance(a, Op):
                return Bo(f"{a.s}.isSome" if isinstance(op, ast.IsNot) else f"{a.s}.isNone", prop=False)
            raise Untranslatable(f"`is None` on {ast.unparse(e.left)}")
        if isinstance(a, Nt) and isinstance(b, Nt):
            rel = {ast.Lt: "<", ast.LtE: "≤", ast.Gt: ">", ast.GtE: "≥", ast.Eq: "==", ast.NotEq: "!="}[type(op)]
            if rel in ("==", "!="):
                return Bo(f"({a.s} {rel} {b.s})", prop=False)
            if rel in (">", "≥"):
                return Bo(f"({b.s} {'<' if rel == '>' else '≤'} {a.s})")
            return Bo(f"({a.s} {rel} {b.s})")

        def rel(x, y):
            if isinstance(op, ast.Lt):
                return f"({x} < {y})"
            if isinstance(op, ast.LtE):
                return f"({x} ≤ {y})"
            if isinstance(op, ast.Gt):
                return f"({y} < {x})"
            if isinstance(op, ast.GtE):
                return f"({y} ≤ {x})"
            if isinstance(op, ast.NotEq):
                return f"(Gen.ne {paren(x)} {paren(y)})"
            if isinstance(op, ast.Eq):
                return f"(¬ Gen.ne {paren(x)} {paren(y)})"
            raise Untranslatable(f"comparison {ast.unparse(e)}")

        if isinstance(a, Vec) or isinstance(b, Vec):
            if isinstance(a, Vec) and isinstance(b, Vec):
                return Vec(self.merge(c, a, b), rel(a.body, b.body), boolean=True)
            if isinstance(a, Vec):
                return Vec(a.bases, rel(a.body, self.to_scalar(b).s), boolean=True)
            return Vec(b.bases, rel(self.to_scalar(a).s, b.body), boolean=True)
        return Bo(rel(self.to_scalar(a).s, self.to_scalar(b).s))

    def as_prop(self, b: Bo) -> Bo:
        return b if b.prop else Bo(f"({b.s} = true)")

    def as_boolean(self, b: Bo) -> Bo:
        return Bo(f"decide {paren(b.s)}", prop=False) if b.prop else b

    def e_BoolOp(self, c, e):
        # `x is not None and P(x)` with x : Option Nat  ->  match
        if isinstance(e.op, ast.And) and isinstance(e.values[0], ast.Compare):
            f = e.values[0]
            if (len(f.ops) == 1 and isinstance(f.ops[0], ast.IsNot) and isinstance(f.comparators[0], ast.Constant)
                    and f.comparators[0].value is None and isinstance(f.left, ast.Name)
                    and isinstance(c.env.get(f.left.id), ON)):
                name = c.env[f.left.id].s
                c2 = c.child()
                c2.env[f.left.id] = Nt(name)
                rest = e.values[1:]
                inner = self.expr(c2, rest[0] if len(rest) == 1 else ast.BoolOp(ast.And(), rest))
                inner = self.as_boolean(self.to_bool(c, inner))
                return Bo(f"(match {name} with | none => false | some {name} => {inner.s})", prop=False)
        vals = [self.to_bool(c, self.expr(c, v)) for v in e.values]
        if any(v.prop for v in vals):
            sym = " ∧ " if isinstance(e.op, ast.And) else " ∨ "
            return Bo("(" + sym.join(self.as_prop(v).s for v in vals) + ")")
        sym = " && " if isinstance(e.op, ast.And) else " || "
        return Bo("(" + sym.join(self.as_boolean(v).s for v in vals) + ")", prop=False)

    def e_IfExp(self, c, e):
        tv = None
        try:
            tv = self.expr(c, e.test)
        except Untranslatable:
            raise
        if isinstance(tv, Vec):
            # `v[-1] if v else default`: the last element of a possibly empty list
            b = e.body
            if (isinstance(b, ast.Subscript) and isinstance(b.slice, ast.UnaryOp) and isinstance(b.slice.op, ast.USub)
                    and isinstance(b.slice.operand, ast.Constant) and b.slice.operand.value == 1
                    and ast.dump(b.value) == ast.dump(e.test)):
                d = self.to_scalar(self.expr(c, e.orelse))
                return Sc(f"(match ({paren(self.emit_vec(tv))}).getLast? with | some last => last | none => {d.s})")
            raise Untranslatable(f"truthiness of a vector: {ast.unparse(e)}")
        cond = self.to_bool(c, tv)
        cs = self.as_prop(cond).s
        a, b = self.expr(c, e.body), self.expr(c, e.orelse)
        if b == ("nan",):
            return Op(f"(if {cs} then some {paren(self.to_scalar(a).s)} else none)")
        if a == ("nan",):
            return Op(f"(if {cs} then none else some {paren(self.to_scalar(b).s)})")
        if isinstance(a, (Sc, Nt)) and isinstance(b, (Sc, Nt)):
            if isinstance(a, Nt) and isinstance(b, Nt):
                return Nt(f"(if {cs} then {a.s} else {b.s})")
            return Sc(f"(if {cs} then {self.to_scalar(a).s} else {self.to_scalar(b).s})")
        raise Untranslatable(f"conditional expression {ast.unparse(e)}")

    def e_Tuple(self, c, e):
        return Tup([self.expr(c, x) for x in e.elts])

    # ---- calls
    ELEMWISE = {"exp": "ExpLog.exp", "log": "ExpLog.log", "sqrt": "ExpLog.sqrt", "abs": "Model.absS", "log1p": "Gen.log1p"}
    IDENTITY = {"asarray", "to_numpy", "float", "array_to_namespace", "as_tensor", "copy"}

    def e_Call(self, c, e):
        f = e.func
        kw = {k.arg: k.value for k in e.keywords}
        calls = c.spec.get("calls", {})
        ftxt = ast.unparse(f)
        if ftxt in calls:
            lname, sig = calls[ftxt]
            if sig == "const:VS":
                return ("tcall", f"({lname}_x, {lname}_lp)", ["V", "S"])
            if sig == "const:V":
                return Vec.var(f"{lname}_x")
            arg = self.vec_of(c, self.expr(c, e.args[0]))
            if not isinstance(arg, Vec):
                raise Untranslatable(f"argument of {ftxt} must be a vector")
            a = paren(self.emit_vec(arg))
            if sig == "V->VS":
                return ("tcall", f"({lname} {a})", ["V", "S"])
            if sig == "V->S":
                return Sc(f"({lname} {a})")
            raise Untranslatable(f"call signature {sig}")
        # method call on a vector / namespace function
        if isinstance(f, ast.Attribute):
            if self.is_ns(c, f.value):
                return self.ns_call(c, f.attr, e.args, kw, e)
            o = self.self_obj(c, f.value)
            if o is not None:
                if f.attr in self.IDENTITY:
                    return self.expr(c, e.args[0])
                return self.method_call(c, o, f.attr, e.args, kw, e)
            # v.max(), v.sum(), v.mean(), v.flatten()
            recv = self.expr(c, f.value)
            if isinstance(recv, tuple) and recv and recv[0] == "vcall" and f.attr == "flatten":
                return recv
            if isinstance(recv, Vec) and f.attr in ("max", "sum", "mean", "var", "flatten", "any"):
                return self.reduce(c, f.attr, recv, e.args, kw, e)
            raise Untranslatable(f"method call {ast.unparse(e)}")
        if isinstance(f, ast.Name):
            name = f.id
            if name in self.IDENTITY:
                return self.expr(c, e.args[0])
            if name == "len":
                return self.length(c, e.args[0])
            if name == "round" and len(e.args) == 1:
                rn = c.env.get("__round__")
                if rn is None:
                    raise Untranslatable("round() without a rounding parameter in the spec")
                return Nt(f"({rn} {paren(self.to_scalar(self.expr(c, e.args[0])).s)})")
            if name in ("min", "max") and len(e.args) == 2:
                a, b = (self.expr(c, x) for x in e.args)
                fn = "Model.minS" if name == "min" else "Model.maxS"
                return Sc(f"({fn} {paren(self.to_scalar(a).s)} {paren(self.to_scalar(b).s)})")
            fns = c.spec.get("functions", {})
            if name in fns and len(e.args) == 1:
                v = self.vec_of(c, self.expr(c, e.args[0]))
                if isinstance(v, Vec):
                    return Vec(v.bases, f"({fns[name]} {paren(v.body)})")
                return Sc(f"({fns[name]} {paren(self.to_scalar(v).s)})")
            if name in self.sigs:
                return self.fun_call(c, name, None, e.args, kw, e)
            if name in self.specs:
                raise Untranslatable(f"`{name}` is used before (or without) its own translation")
        raise Untranslatable(f"call {ast.unparse(e)}")

    def ns_call(self, c, fn, args, kw, e):
        if fn in self.IDENTITY:
            return self.expr(c, args[0])
        if fn in self.ELEMWISE:
            v = self.expr(c, args[0])
            lf = self.ELEMWISE[fn]
            if isinstance(v, Vec):
                return Vec(v.bases, f"({lf} {paren(v.body)})")
            return Sc(f"({lf} {paren(self.to_scalar(v).s)})")
        if fn in ("sum", "max", "mean", "var"):
            v = self.expr(c, args[0])
            if not isinstance(v, Vec):
                raise Untranslatable(f"{fn} of a non-vector: {ast.unparse(e)}")
            return self.reduce(c, fn, v, args[1:], kw, e)
        if fn == "clip" and len(args) == 3:
            v, lo, hi = (self.expr(c, a) for a in args)
            lo, hi = self.to_scalar(lo).s, self.to_scalar(hi).s
            if isinstance(v, Vec):
                return Vec(v.bases, f"(Gen.clipS {paren(v.body)} {paren(lo)} {paren(hi)})")
            return Sc(f"(Gen.clipS {paren(self.to_scalar(v).s)} {paren(lo)} {paren(hi)})")
        if fn == "divide" and len(args) == 2:
            return self.e_BinOp(c, ast.BinOp(args[0], ast.Div(), args[1]))
        if fn == "isnan":
            return ("isnan", self.expr(c, args[0]))
        if fn in ("ones", "zeros") and c.spec.get("row_mode"):
            return Sc("1" if fn == "ones" else "0")
        raise Untranslatable(f"array function {ast.unparse(e)}")

    def reduce(self, c, fn, v: Vec, args, kw, e):
        for k, val in kw.items():
            ok = k == "axis" and ((isinstance(val, ast.Constant) and val.value in (None, -1, 0))
                                  or (isinstance(val, ast.Name) and c.env.get(val.id) == ("none",)))
            if not ok:
                raise Untranslatable(f"keyword {k} in {ast.unparse(e)}")
        for a in args:
            if not (isinstance(a, ast.Constant) and a.value in (-1, 0, None)) and not (
                    isinstance(a, ast.UnaryOp) and isinstance(a.operand, ast.Constant) and a.operand.value == 1):
                raise Untranslatable(f"argument in {ast.unparse(e)}")
        if fn == "flatten":
            return v
        if fn == "any":
            raise Untranslatable(f".any() outside a guard: {ast.unparse(e)}")
        lf = {"sum": "Gen.vsum", "max": "Gen.vmax", "mean": "Gen.vmean", "var": "Gen.vvar"}[fn]
        return Sc(f"({lf} {paren(self.emit_vec(v))})")

    def length(self, c, arg):
        # len(self.x), len(self), len(samples) -> the object's length parameter; len(v) -> v.length
        o = self.self_obj(c, arg)
        if o is None and isinstance(arg, ast.Attribute):
            o2 = self.self_obj(c, arg.value)
            if o2 is not None and arg.attr == "x":
                o = o2
        if o is not None:
            key = f"{o.prefix}n"
            if key in c.env:
                return c.env[key]
            raise Untranslatable(f"len() of an object without a length parameter: {ast.unparse(arg)}")
        v = self.expr(c, arg)
        if isinstance(v, Vec):
            return Nt(f"({paren(self.emit_vec(v))}).length")
        raise Untranslatable(f"len({ast.unparse(arg)})")

    def method_call(self, c, o: Obj, meth, args, kw, e):
        name = meth
        if name not in self.sigs:
            raise Untranslatable(f"method `{meth}` is not a translated function: {ast.unparse(e)}")
        return self.fun_call(c, name, o, args, kw, e)

    def fun_call(self, c, name, o, args, kw, e):
        sig = self.sigs[name]
        spec = self.specs[name]
        actual = []
        pos = list(args)
        for (lname, kind, origin) in sig["params"]:
            if origin[0] == "self":
                if o is None:
                    raise Untranslatable(f"{name} needs an object: {ast.unparse(e)}")
                key = f"{o.prefix}{origin[1]}"
                if key not in c.env:
                    raise Untranslatable(f"object of {ast.unparse(e)} has no field {origin[1]}")
                actual.append(self.emit_any(c.env[key]))
            elif origin[0] == "fuel":
                c.sh['fuel'] = True
                actual.append("fuel")
            elif origin[0] == "round":
                actual.append(c.env["__round__"])
            elif origin[0] == "const":
                if origin[1] not in c.env.get("__consts__", {}):
                    raise Untranslatable(f"{name} needs the constant parameter `{origin[1]}`")
                actual.append(origin[1])
            elif origin[0] == "fn":
                if origin[1] not in c.env.get("__fns__", {}):
                    raise Untranslatable(f"{name} needs the function parameter `{origin[1]}`")
                actual.append(c.env["__fns__"][origin[1]])
            elif origin[0] == "obj":
                # an object-typed parameter of the callee: pass the caller's object with the same class
                raise Untranslatable("object-typed parameters in calls are not supported")
            else:
                pname = origin[1]
                if pos:
                    val = self.expr(c, pos.pop(0))
                elif pname in kw:
                    val = self.expr(c, kw[pname])
                elif pname in spec.get("defaults", {}):
                    val = self.expr(c, ast.parse(spec["defaults"][pname], mode="eval").body)
                else:
                    raise Untranslatable(f"missing argument `{pname}` in {ast.unparse(e)}")
                if kind == "OS":
                    if val == ("none",):
                        actual.append("none")
                    elif isinstance(val, Op):
                        actual.append(paren(val.s))
                    else:
                        actual.append(f"(some {paren(self.to_scalar(val).s)})")
                elif kind == "S":
                    actual.append(paren(self.to_scalar(val).s))
                elif kind == "V":
                    if isinstance(val, tuple) and val and val[0] == "vcall":
                        actual.append(paren(val[1]))
                    elif isinstance(val, Vec):
                        actual.append(paren(self.emit_vec(val)))
                    else:
                        raise Untranslatable(f"argument `{pname}` of {name} must be a vector")
                else:
                    actual.append(paren(self.emit_any(val)))
        if pos:
            raise Untranslatable(f"too many arguments in {ast.unparse(e)}")
        call = f"(Gen.{name} " + " ".join(actual) + ")"
        ret = sig["ret"]
        return self.wrap_ret(ret, call)

    def wrap_ret(self, ret, call):
        if ret == "S":
            return Sc(call)
        if ret == "V":
            # the result is a vector: bind it so it can serve as a base
            return ("vcall", call)
        if ret == "OS":
            return Op(call)
        if ret == "B":
            return Bo(call, prop=False)
        if isinstance(ret, list):
            return ("tcall", call, ret)
        raise Untranslatable(f"return kind {ret}")

    def emit_any(self, v):
        if isinstance(v, Vec):
            return self.emit_vec(v)
        if isinstance(v, (Sc, Nt, Op, ON)):
            return v.s
        if isinstance(v, Bo):
            return self.as_boolean(v).s
        raise Untranslatable(f"cannot pass {v}")

    def emit_vec(self, v: Vec) -> str:
        body = f"decide {paren(v.body)}" if v.boolean else v.body
        if len(v.bases) == 1 and v.body == f"{v.bases[0]}_i" and not v.boolean:
            return v.bases[0]
        binder = " ".join(f"{b}_i" for b in v.bases)
        if len(v.bases) == 1:
            return f"List.map (fun {binder} => {body}) {v.bases[0]}"
        if len(v.bases) == 2:
            return f"List.zipWith (fun {binder} => {body}) {v.bases[0]} {v.bases[1]}"
        if len(v.bases) == 3:
            return f"Gen.map3 (fun {binder} => {body}) {v.bases[0]} {v.bases[1]} {v.bases[2]}"
        raise Untranslatable(f"more than three aligned vectors in one expression: {v.bases}")

    # ---- statements (continuation style: returns a Lean term)
    def is_skippable(self, c, st) -> str | None:
        """statements that do not contribute to the value: docstrings, logging, namespace lookups, NaN guards"""
        if isinstance(st, ast.Expr):
            if isinstance(st.value, ast.Constant):
                return "docstring"
            if isinstance(st.value, ast.Call):
                f = st.value.func
                if isinstance(f, ast.Attribute) and isinstance(f.value, ast.Name) and f.value.id in ("logger", "logging", "warnings"):
                    return "logging"
        if isinstance(st, ast.Assign) and len(st.targets) == 1 and isinstance(st.targets[0], ast.Name):
            if st.targets[0].id == "xp":
                return "namespace lookup"
        if isinstance(st, ast.If) and not st.orelse and len(st.body) == 1 and isinstance(st.body[0], ast.Raise):
            src = ast.unparse(st.test)
            if "isnan" in src:
                return f"NaN guard `{src}` (raises; inputs are assumed NaN-free)"
        if isinstance(st, ast.Pass):
            return "pass"
        if isinstance(st, (ast.Import, ast.ImportFrom)):
            return "pass"
        if isinstance(st, ast.Assign) and isinstance(st.value, ast.Call) and ast.unparse(st.value.func) in c.spec.get("skip_calls", []):
            return f"bookkeeping `{ast.unparse(st)[:60]}`"
        return None

    def bind_name(self, c, target, val, k):
        """`target = val; <k>` -> Lean"""
        if isinstance(target, ast.Name):
            key = target.id
        elif isinstance(target, ast.Attribute) and self.self_obj(c, target.value) is not None:
            o = self.self_obj(c, target.value)
            key = f"{o.prefix}{target.attr}"
            c.outputs.append(key) if key not in c.outputs else None
        else:
            raise Untranslatable(f"assignment target {ast.unparse(target)}")
        lname = key.replace(".", "_")
        if isinstance(val, tuple) and val and val[0] == "vcall":
            c.env[key] = Vec.var(lname)
            return f"let {lname} := {val[1]}\n" + k(c)
        if isinstance(val, Vec):
            c.env[key] = Vec.var(lname) if not val.boolean else Vec([lname], f"({lname}_i = true)", boolean=True)
            if val.boolean:
                c.env[key] = ("boolvec", lname)
            return f"let {lname} := {self.emit_vec(val)}\n" + k(c)
        if isinstance(val, Sc):
            c.env[key] = Sc(lname)
        elif isinstance(val, Nt):
            c.env[key] = Nt(lname)
        elif isinstance(val, Op):
            c.env[key] = Op(lname)
        elif isinstance(val, Bo):
            c.env[key] = Bo(lname, prop=False)
            return f"let {lname} : Bool := {self.as_boolean(val).s}\n" + k(c)
        else:
            raise Untranslatable(f"cannot bind {ast.unparse(target)} to {val}")
        return f"let {lname} := {val.s}\n" + k(c)

    def assigned_names(self, stmts):
        """names (and `obj.attr` keys) stored to by the statements, in order of first appearance"""
        out = []
        for st in stmts:
            for n in ast.walk(st):
                key = None
                if isinstance(n, ast.Name) and isinstance(n.ctx, ast.Store):
                    key = n.id
                elif isinstance(n, ast.Attribute) and isinstance(n.ctx, ast.Store) and isinstance(n.value, ast.Name):
                    key = f"{n.value.id}.{n.attr}"
                if key is not None and key not in out:
                    out.append(key)
        return out

    def has_return(self, stmts):
        return any(isinstance(n, ast.Return) for st in stmts for n in ast.walk(st))

    def block(self, c, stmts, k) -> str:
        """translate `stmts` followed by continuation `k : Ctx -> str`"""
        if not stmts:
            return k(c)
        st, rest = stmts[0], stmts[1:]
        why = self.is_skippable(c, st)
        if why is not None:
            if why not in ("docstring", "namespace lookup", "pass") and why not in c.notes:
                c.notes.append(f"skipped: {why}")
            return self.block(c, rest, k)
        if isinstance(st, ast.Return):
            body = self.ret(c, st.value)
            return self.flush(c) + body
        if isinstance(st, ast.AnnAssign) and st.value is not None:
            st = ast.Assign([st.target], st.value)
        if isinstance(st, ast.Assign):
            if len(st.targets) != 1:
                raise Untranslatable(f"multiple targets: {ast.unparse(st)}")
            tgt = st.targets[0]
            val = self.expr(c, st.value)
            pre = self.flush(c)
            if pre:
                return pre + self.block_assign(c, tgt, val, st, rest, k)
            return self.block_assign(c, tgt, val, st, rest, k)
        if isinstance(st, ast.If):
            return self.if_stmt(c, st, rest, k)
        if isinstance(st, ast.While):
            return self.while_stmt(c, st, rest, k)
        if isinstance(st, ast.With):
            return self.block(c, list(st.body) + list(rest), k)       # `with torch.no_grad():` does not change values
        raise Untranslatable(f"statement {type(st).__name__}: {ast.unparse(st)[:80]}")

    def flush(self, c) -> str:
        out = "".join(l + "\n" for l in c.pre)
        del c.pre[:]
        return out

    def block_assign(self, c, tgt, val, st, rest, k):
        if True:
            if isinstance(tgt, ast.Tuple):
                if isinstance(val, tuple) and val[0] == "tcall":
                    names = []
                    for t, kind in zip(tgt.elts, val[2]):
                        if not isinstance(t, ast.Name):
                            raise Untranslatable(f"tuple target {ast.unparse(st)}")
                        names.append(t.id)
                        c.env[t.id] = Sc(t.id) if kind == "S" else Vec.var(t.id)
                    return f"let ({', '.join(names)}) := {val[1]}\n" + self.block(c, rest, k)
                if isinstance(val, Tup) and len(val.items) == len(tgt.elts):
                    out = ""
                    tmp = [(t, v) for t, v in zip(tgt.elts, val.items)]
                    term = lambda cc, i=0: None
                    def chain(cc, i):
                        if i == len(tmp):
                            return self.block(cc, rest, k)
                        return self.bind_name(cc, tmp[i][0], tmp[i][1], lambda c3: chain(c3, i + 1))
                    return chain(c, 0)
                raise Untranslatable(f"tuple assignment {ast.unparse(st)}")
            return self.bind_name(c, tgt, val, lambda cc: self.block(cc, rest, k))

    def cond(self, c, test) -> str:
        v = self.expr(c, test)
        if isinstance(v, Sc) or isinstance(v, Op):
            raise Untranslatable(f"truthiness of a number: {ast.unparse(test)}")
        return self.as_prop(self.to_bool(c, v)).s

    def option_truthy(self, c, test):
        if isinstance(test, ast.Name) and isinstance(c.env.get(test.id), Op):
            return test.id
        return None

    def option_test(self, c, test):
        """`x is None` / `x is not None` on an optional variable -> (name, none_first)"""
        if (isinstance(test, ast.Compare) and len(test.ops) == 1 and isinstance(test.ops[0], (ast.Is, ast.IsNot))
                and isinstance(test.comparators[0], ast.Constant) and test.comparators[0].value is None
                and isinstance(test.left, ast.Name) and isinstance(c.env.get(test.left.id), (ON, Op))):
            return test.left.id, isinstance(test.ops[0], ast.Is)
        return None

    def if_stmt(self, c, st, rest, k):
        opt = self.option_test(c, st.test)
        c1, c2 = c.child(), c.child()
        truthy = self.option_truthy(c, st.test)
        if truthy is not None:
            # `if eps:` on an optional number: present and non-zero
            name = truthy
            c1.env[name] = Sc(name)
            fmt = lambda a, b: (f"match {name} with\n| some {name} =>\n" + indent(f"if (Gen.ne {name} 0) then\n{indent(a)}\nelse\n{indent(b)}")
                                + f"\n| none =>\n{indent(b)}")
            opt = ("handled",)
        if opt == ("handled",):
            pass
        elif opt is not None:
            name, none_first = opt
            some_val = Nt(name) if isinstance(c.env[name], ON) else Sc(name)
            (c1 if none_first else c2).env[name] = ("none",)
            (c2 if none_first else c1).env[name] = some_val
            if none_first:
                fmt = lambda a, b: f"match {name} with\n| none =>\n{indent(a)}\n| some {name} =>\n{indent(b)}"
            else:
                fmt = lambda a, b: f"match {name} with\n| some {name} =>\n{indent(a)}\n| none =>\n{indent(b)}"
        else:
            cs = self.cond(c, st.test)
            fmt = lambda a, b: f"if {cs} then\n{indent(a)}\nelse\n{indent(b)}"
        if self.has_return(st.body) or self.has_return(st.orelse) or not rest or c.tail_dup:
            # duplicate the continuation into both branches
            a = self.block(c1, list(st.body) + list(rest), k)
            b = self.block(c2, list(st.orelse) + list(rest), k)
            return fmt(a, b)
        names = self.assigned_names(list(st.body) + list(st.orelse))
        in_body, in_else = self.assigned_names(st.body), self.assigned_names(st.orelse)
        live = [n for n in names if n in c.env or (n in in_body and n in in_else)]
        if not live:
            raise Untranslatable(f"if-statement without effect: {ast.unparse(st)[:60]}")
        ln = lambda key: key.replace(".", "_")

        def tail(cc):
            vals = []
            for n in live:
                v = cc.env[n]
                if v == ("none",):
                    raise Untranslatable(f"`{n}` may still be None after {ast.unparse(st)[:60]}")
                vals.append(self.emit_any(v))
            return vals[0] if len(vals) == 1 else "(" + ", ".join(vals) + ")"

        a = self.block(c1, list(st.body), tail)
        b = self.block(c2, list(st.orelse), tail)
        for n in live:
            t1, t2 = c1.env.get(n), c2.env.get(n)
            if type(t1) is not type(t2):
                raise Untranslatable(f"`{n}` has different kinds in the two branches of {ast.unparse(st)[:60]}")
            c.env[n] = type(t1)(ln(n)) if not isinstance(t1, Vec) else Vec.var(ln(n))
            if isinstance(t1, Bo):
                c.env[n] = Bo(ln(n), prop=False)
            if "." in n and n not in c.outputs:
                c.outputs.append(n)
        pat = ln(live[0]) if len(live) == 1 else "(" + ", ".join(ln(n) for n in live) + ")"
        return f"let {pat} := ({fmt(a, b)})\n" + self.block(c, rest, k)

    def while_stmt(self, c, st, rest, k):
        if st.orelse or self.has_return(st.body):
            raise Untranslatable("while loop with else / return")
        for n in ast.walk(st):
            if isinstance(n, (ast.Break, ast.Continue)):
                raise Untranslatable("while loop with break / continue")
        carried = [n for n in self.assigned_names(st.body) if n in c.env]
        if not carried:
            raise Untranslatable("while loop without carried state")
        # free variables: every environment entry used in the loop (passed as parameters)
        used = []
        for n in ast.walk(st):
            if isinstance(n, ast.Name) and n.id in c.env and n.id not in carried and n.id not in used:
                used.append(n.id)
        # objects expand to their fields
        usedkeys = set()
        for n in ast.walk(st):
            if isinstance(n, ast.Name) and n.id in c.env:
                if isinstance(c.env[n.id], Obj):
                    usedkeys.update(k2 for k2 in c.env if k2.startswith(n.id + "."))
                else:
                    usedkeys.add(n.id)
        params = []
        for key, val in c.env.items():
            if key in carried or key not in usedkeys:
                continue
            if key.startswith("__"):
                continue
            if isinstance(val, Obj):
                continue
            params.append((key, val))
        idx = c.sh['loops']
        c.sh['loops'] += 1
        lname = f"{c.spec['name']}_loop{idx}"
        binders, actuals = [], []
        for key, val in params:
            ln = key.replace(".", "_").replace("[", "_").replace("]", "")
            kind = {Sc: "S", Nt: "N", Vec: "V", Op: "OS", ON: "ON"}.get(type(val))
            if isinstance(val, Bo):
                kind = "B"
            if kind is None:
                continue
            binders.append(self.lean_binder(ln, kind))
            actuals.append(self.emit_any(val) if not isinstance(val, Vec) else paren(self.emit_vec(val)))
        if "__round__" in c.env:
            binders.append(f"({c.env['__round__']} : α → Nat)")
            actuals.append(c.env["__round__"])
        ckinds = []
        for n in carried:
            v = c.env[n]
            if not isinstance(v, (Sc, Nt)):
                raise Untranslatable(f"loop-carried `{n}` must be a scalar")
            ckinds.append("α" if isinstance(v, Sc) else "Nat")
        ret_t = ckinds[0] if len(carried) == 1 else " × ".join(ckinds)
        tup = carried[0] if len(carried) == 1 else "(" + ", ".join(carried) + ")"
        # body context: parameters are plain names
        cb = c.child()
        for key, val in params:
            ln = key.replace(".", "_").replace("[", "_").replace("]", "")
            if isinstance(val, Sc):
                cb.env[key] = Sc(ln)
            elif isinstance(val, Nt):
                cb.env[key] = Nt(ln)
            elif isinstance(val, Vec):
                cb.env[key] = Vec.var(ln)
            elif isinstance(val, Bo):
                cb.env[key] = Bo(ln, prop=False)
            elif isinstance(val, (Op, ON)):
                cb.env[key] = type(val)(ln)
        for n in carried:
            cb.env[n] = type(c.env[n])(n)
        cb.tail_dup = True
        cs = self.cond(cb, st.test)
        pnames = " ".join(b.split(" : ")[0].lstrip("(") for b in binders)
        rec = lambda cc: f"{lname} {pnames} fuel " + " ".join(paren(self.emit_any(cc.env[n])) for n in carried)
        body = self.block(cb, list(st.body), rec)
        aux = (
            f"/-- the `while {ast.unparse(st.test)}` loop of `{c.spec['name']}` (fuel = maximal number of passes) -/\n"
            f"def {lname} {' '.join(binders)} : Nat → {' → '.join(ckinds)} → {ret_t}\n"
            f"  | 0, {', '.join(carried)} => {tup}\n"
            f"  | fuel+1, {', '.join(carried)} =>\n"
            f"    if {cs} then\n{indent(body, 6)}\n    else {tup}\n"
        )
        c.aux.append(aux)
        c.sh['fuel'] = True
        init = " ".join(paren(self.emit_any(c.env[n])) for n in carried)
        for n in carried:
            c.env[n] = type(c.env[n])(n)
        return f"let {tup} := {lname} {' '.join(actuals)} fuel {init}\n" + self.block(c, rest, k)

    def ret(self, c, value) -> str:
        v = self.expr(c, value)
        return self.emit_ret(c, v)

    def emit_ret(self, c, v) -> str:
        if isinstance(v, tuple) and v and v[0] in ("vcall", "tcall"):
            c.sh['ret_kind'] = "V" if v[0] == "vcall" else v[2]
            return v[1]
        if isinstance(v, Vec):
            c.sh['ret_kind'] = "VB" if v.boolean else "V"
            return self.emit_vec(v)
        if isinstance(v, Sc):
            c.sh['ret_kind'] = "S"
            return v.s
        if isinstance(v, Nt):
            c.sh['ret_kind'] = "S"
            return self.to_scalar(v).s
        if isinstance(v, Op):
            c.sh['ret_kind'] = "OS"
            return v.s
        if isinstance(v, Bo):
            c.sh['ret_kind'] = "B"
            return self.as_boolean(v).s
        if isinstance(v, Tup):
            kinds, parts = [], []
            for it in v.items:
                if isinstance(it, Vec):
                    kinds.append("V"); parts.append(self.emit_vec(it))
                else:
                    kinds.append("S"); parts.append(self.to_scalar(it).s)
            c.sh['ret_kind'] = kinds
            return "(" + ", ".join(parts) + ")"
        raise Untranslatable(f"return value {v}")

    # ---- a second, tiny vocabulary: one resizable 1-d HDF5 dataset of bytes (dump_pickle_to_hdf)
    def translate_h5dump(self, name, spec, fn):
        """state = `ds : Option Bytes` (the dataset, `none` = not in the file); the payload is `blob`.
        Recognised: `name not in target`, sizes (`bdata.size`, `len`, `.shape[0]`), `create_dataset(name, shape=bdata.shape, ...)`,
        `target[name].resize((n,))`, `target[name][:] = bdata`, if / elif / else, and / or / not, integer comparisons."""
        blob_names, alias = set(), set()

        def is_dset(e):     # target[dsetname]
            return isinstance(e, ast.Subscript) and isinstance(e.value, ast.Name) and e.value.id in alias | {"fp"} \
                and isinstance(e.slice, ast.Name) and e.slice.id == "dsetname"

        def nat(e):
            u = ast.unparse(e)
            if isinstance(e, ast.Constant) and isinstance(e.value, int) and e.value >= 0:
                return str(e.value)
            for b in blob_names:
                if u in (f"{b}.size", f"len({b})", f"{b}.shape[0]", f"{b}.nbytes"):
                    return "blob.length"
            if isinstance(e, ast.Subscript) and isinstance(e.value, ast.Attribute) and e.value.attr == "shape" and is_dset(e.value.value) \
                    and isinstance(e.slice, ast.Constant) and e.slice.value == 0:
                return "(Gen.dsLen ds)"
            if isinstance(e, ast.Attribute) and e.attr == "size" and is_dset(e.value):
                return "(Gen.dsLen ds)"
            if isinstance(e, ast.Call) and isinstance(e.func, ast.Name) and e.func.id == "len" and is_dset(e.args[0]):
                return "(Gen.dsLen ds)"
            if isinstance(e, ast.BinOp) and isinstance(e.op, (ast.Add, ast.Sub, ast.Mult)):
                return f"({nat(e.left)} {'+' if isinstance(e.op, ast.Add) else '-' if isinstance(e.op, ast.Sub) else '*'} {nat(e.right)})"
            raise Untranslatable(f"size expression {u}")

        def cond(e):
            if isinstance(e, ast.Compare) and len(e.ops) == 1:
                op, l, r = e.ops[0], e.left, e.comparators[0]
                if isinstance(op, (ast.In, ast.NotIn)) and isinstance(l, ast.Name) and l.id == "dsetname":
                    return "ds.isSome" if isinstance(op, ast.In) else "ds.isNone"
                sym = {ast.Eq: "==", ast.NotEq: "!=", ast.Lt: "<", ast.LtE: "≤", ast.Gt: ">", ast.GtE: "≥"}.get(type(op))
                if sym:
                    return f"decide ({nat(l)} {sym.replace('==', '=').replace('!=', '≠')} {nat(r)})"
            if isinstance(e, ast.BoolOp):
                return "(" + (" && " if isinstance(e.op, ast.And) else " || ").join(cond(v) for v in e.values) + ")"
            if isinstance(e, ast.UnaryOp) and isinstance(e.op, ast.Not):
                return f"(!{cond(e.operand)})"
            raise Untranslatable(f"condition {ast.unparse(e)}")

        def stmts(body):
            out = ""
            for st in body:
                if isinstance(st, ast.Expr) and isinstance(st.value, ast.Constant):
                    continue
                u = ast.unparse(st)
                if isinstance(st, ast.Expr) and u.startswith("memfp.seek("):
                    continue
                if isinstance(st, ast.Assign) and len(st.targets) == 1 and isinstance(st.targets[0], ast.Name):
                    tn, v = st.targets[0].id, ast.unparse(st.value)
                    if "frombuffer" in v and "memfp" in v:
                        blob_names.add(tn); continue
                    if "require_group" in v or v == "fp":
                        alias.add(tn); continue
                    raise Untranslatable(f"statement {u[:80]}")
                if isinstance(st, ast.Expr) and isinstance(st.value, ast.Call) and isinstance(st.value.func, ast.Attribute):
                    f = st.value.func
                    kw = {k.arg: k.value for k in st.value.keywords}
                    if f.attr == "create_dataset" and isinstance(f.value, ast.Name) and f.value.id in alias | {"fp"}:
                        shp = kw.get("shape")
                        if shp is None or ast.unparse(shp) not in {f"{b}.shape" for b in blob_names}:
                            raise Untranslatable(f"create_dataset with shape {ast.unparse(shp) if shp else None}")
                        if "maxshape" not in kw:
                            raise Untranslatable("create_dataset without maxshape (not resizable)")
                        out += "let ds : Option Model.Bytes := some (List.replicate blob.length 0)\n"
                        continue
                    if f.attr == "resize" and is_dset(f.value) and len(st.value.args) == 1 and isinstance(st.value.args[0], ast.Tuple) \
                            and len(st.value.args[0].elts) == 1:
                        out += f"let ds := ds.map (fun d => Model.resizeDset d {nat(st.value.args[0].elts[0])})\n"
                        continue
                    raise Untranslatable(f"call {u[:80]}")
                if isinstance(st, ast.Assign) and len(st.targets) == 1 and isinstance(st.targets[0], ast.Subscript) \
                        and is_dset(st.targets[0].value) and isinstance(st.targets[0].slice, ast.Slice) \
                        and st.targets[0].slice.lower is None and st.targets[0].slice.step is None \
                        and isinstance(st.value, ast.Name) and st.value.id in blob_names:
                    up = st.targets[0].slice.upper
                    src = "blob" if up is None else f"(blob.take {nat(up)})"
                    out += f"let ds := ds.map (fun d => Model.writeAt0 d {src})\n"
                    continue
                if isinstance(st, ast.If):
                    a = stmts(st.body) + "ds"
                    b = stmts(st.orelse) + "ds"
                    out += f"let ds := (if {cond(st.test)} then\n{indent(a)}\nelse\n{indent(b)})\n"
                    continue
                raise Untranslatable(f"statement {u[:80]}")
            return out

        body = stmts(fn.body) + "ds"
        text = (f"/-- translated from `{spec['py']}` (dataset vocabulary: `ds` = the dataset or `none`, `blob` = the pickled payload) -/\n"
                f"def {name} (blob : Model.Bytes) (ds : Option Model.Bytes) : Option Model.Bytes :=\n{indent(body)}\n")
        self.sigs[name] = {"params": [("blob", "X", ("param", "blob")), ("ds", "X", ("param", "ds"))], "ret": "X", "fuel": False}
        self.report["functions"][name] = {"source": spec["py"], "lean": f"Gen.{name}", "lines": [fn.lineno, fn.end_lineno], "notes": [], "params": ["blob", "ds"]}
        return text

    # ---- one function
    def translate(self, name):
        spec = self.specs[name]
        rel, qual = spec["py"].split(":")
        fn = self.find(rel, qual)
        if spec.get("mode") == "h5dump":
            return self.translate_h5dump(name, spec, fn)
        if spec.get("mode") == "smcloop":
            from . import loop2lean
            return loop2lean.translate(self, name, spec, fn)
        if spec.get("mode") == "codec":
            from . import codec2lean
            return codec2lean.translate(self, name, spec, fn)
        if spec.get("mode") == "rows":
            from . import rows2lean
            return rows2lean.translate(self, name, spec, fn)
        if spec.get("mode") == "eval":
            from . import eval2lean
            return eval2lean.translate(self, name, spec, fn)
        if spec.get("mode") == "file":
            from . import file2lean
            return file2lean.translate(self, name, spec, fn)
        if spec.get("mode") == "ctx":
            from . import ctx2lean
            return ctx2lean.translate(self, name, spec, fn)
        if spec.get("mode") == "entry":
            from . import entry2lean
            return entry2lean.translate(self, name, spec, fn)
        if spec.get("mode") == "hist":
            from . import hist2lean
            return hist2lean.translate(self, name, spec, fn)
        if spec.get("mode") == "conv":
            from . import conv2lean
            return conv2lean.translate(self, name, spec, fn)
        if spec.get("mode") == "state":
            from . import state2lean
            return state2lean.translate(self, name, spec, fn)
        env: dict = {}
        params: list = []          # (lean name, kind, origin)
        # objects (`self`, `samples`): their fields become parameters
        def add_obj(path, cls, prefix, top):
            env[path] = Obj(cls, f"{path}.")
            for fname, kind in self.classes[cls]:
                ln = f"{prefix}{fname}".replace("[", "_").replace("]", "")
                key = f"{path}.{fname}"
                if kind.startswith("O:"):
                    add_obj(key, kind[2:], f"{ln}_", top)
                    continue
                env[key] = {"S": Sc(ln), "V": Vec.var(ln), "N": Nt(ln), "B": Bo(ln, prop=False), "ON": ON(ln), "OS": Op(ln)}[kind]
                origin = ("self", fname) if (top == "self" and path == "self") else ("objfield", path, fname)
                params.append((ln, kind, origin))

        for oname, (cls, prefix) in spec.get("objects", {}).items():
            add_obj(oname, cls, prefix, oname)
        declared = spec.get("params", {})
        src_params = [a.arg for a in fn.args.args + fn.args.kwonlyargs]
        for pn in src_params:
            if pn in spec.get("objects", {}) or pn in ("self", "cls"):
                continue
            if pn in spec.get("ignore_params", []):
                d = self.default_of(fn, pn)
                env[pn] = ("none",) if d is None or (isinstance(d, ast.Constant) and d.value is None) else ("ignored",)
                continue
            if pn not in declared:
                raise Untranslatable(f"parameter `{pn}` of {qual} has no kind in the spec (signature changed?)")
            kind = declared[pn]
            env[pn] = {"S": Sc(pn), "V": Vec.var(pn), "N": Nt(pn), "B": Bo(pn, prop=False), "ON": ON(pn), "OS": Op(pn)}[kind]
            params.append((pn, kind, ("param", pn)))
        for pn, kind in spec.get("extra_params", {}).items():   # free variables of an extracted statement range
            env[pn] = {"S": Sc(pn), "V": Vec.var(pn), "N": Nt(pn), "B": Bo(pn, prop=False), "ON": ON(pn), "OS": Op(pn)}[kind]
            params.append((pn, kind, ("param", pn)))
        missing = [p for p in declared if p not in src_params]
        if missing:
            raise Untranslatable(f"{qual}: parameter(s) {missing} of the spec are gone from the source")
        if spec.get("round"):
            env["__round__"] = "roundNat"
            params.append(("roundNat", "RN", ("round",)))
        if spec.get("mod"):
            env["__mod__"] = "fmod"
            env.setdefault("__fns__", {})["fmod"] = "fmod"
            params.append(("fmod", "FN2", ("fn", "fmod")))
        for pyname, ln in spec.get("functions", {}).items():
            env.setdefault("__fns__", {})[ln] = ln
            params.append((ln, "FN", ("fn", ln)))
        seen_calls = set()
        for txt, (ln, sig) in spec.get("calls", {}).items():
            if ln in seen_calls:
                continue
            seen_calls.add(ln)
            if sig == "const:VS":
                env[f"{ln}_x"] = Vec.var(f"{ln}_x"); params.append((f"{ln}_x", "V", ("param", f"{ln}_x")))
                env[f"{ln}_lp"] = Sc(f"{ln}_lp"); params.append((f"{ln}_lp", "S", ("param", f"{ln}_lp")))
            elif sig == "const:V":
                env[f"{ln}_x"] = Vec.var(f"{ln}_x"); params.append((f"{ln}_x", "V", ("param", f"{ln}_x")))
            else:
                params.append((ln, {"V->VS": "FVS", "V->S": "FS"}[sig], ("fn", ln)))
                env.setdefault("__fns__", {})[ln] = ln
        for txt, ln in spec.get("constants", {}).items():
            if (ln, "S", ("const", ln)) not in params:
                params.append((ln, "S", ("const", ln)))
                env.setdefault("__consts__", {})[ln] = ln
        c = Ctx(self, spec, env)
        c.outputs = []
        c.tail_dup = False
        c.sh = {'ret_kind': None, 'fuel': False, 'loops': 0, 'tmp': 0}
        c.pre = []
        stmts = list(fn.body)
        if "extract" in spec:
            stmts = self.extract(fn, spec["extract"])
        final = None
        if "result" in spec:
            res = spec["result"]
            def final(cc):
                if isinstance(res, str):
                    v = cc.env.get(res)
                    if v is None:
                        raise Untranslatable(f"result variable `{res}` is never assigned")
                    if isinstance(v, tuple) and v[0] == "boolvec":
                        cc.sh['ret_kind'] = "VB"
                        return v[1]
                    return self.emit_ret(cc, v)
                items = []
                for r_ in res:
                    v = cc.env.get(r_)
                    if v is None or v == ("none",):
                        raise Untranslatable(f"result `{r_}` is not assigned on every path")
                    items.append(v)
                kinds = []
                for v in items:
                    kinds.append("V" if isinstance(v, Vec) else "B" if isinstance(v, Bo) else "S")
                cc.sh['ret_kind'] = kinds
                return "(" + ", ".join(self.emit_any(v) if not isinstance(v, Nt) else self.to_scalar(v).s for v in items) + ")"
        else:
            def final(cc):
                if not cc.outputs:
                    raise Untranslatable(f"{qual} falls off its end without a value")
                fields = []
                for key in cc.outputs:
                    v = cc.env[key]
                    fields.append((key.split(".", 1)[1], "List α" if isinstance(v, Vec) else "α", self.emit_any(v)))
                cc.sh['ret_kind'] = ("struct", [(f, t) for f, t, _ in fields])
                return "{ " + ", ".join(f"{f} := {e}" for f, _, e in fields) + " }"
        body = self.block(c, stmts, final)
        fuel = c.sh['fuel']
        if fuel:
            params.append(("fuel", "N", ("fuel",)))
        ret = c.sh['ret_kind']
        pre = ""
        if isinstance(ret, tuple) and ret[0] == "struct":
            sname = f"{name}_Out"
            pre = f"structure {sname} (α : Type) where\n" + "".join(f"  {f} : {t}\n" for f, t in ret[1]) + "\n"
            ret_t = f"{sname} α"
            ret = "struct"
        elif isinstance(ret, list):
            ret_t = " × ".join({"S": "α", "V": "List α", "B": "Bool"}[k] for k in ret)
        else:
            ret_t = {"S": "α", "V": "List α", "VB": "List Bool", "OS": "Option α", "B": "Bool"}[ret]
        binders = " ".join(self.lean_binder(n, k) for n, k, _ in params)
        doc = f"/-- translated from `{spec['py']}`" + (f" ({spec['extract_doc']})" if spec.get("extract_doc") else "") + " -/\n"
        text = pre + "".join(a + "\n" for a in c.aux) + doc + f"def {name} {binders} : {ret_t} :=\n{indent(body)}\n"
        self.sigs[name] = {"params": params, "ret": ret if ret != "struct" else "struct", "fuel": fuel}
        self.report["functions"][name] = {
            "source": spec["py"], "lean": f"Gen.{name}", "lines": [fn.lineno, fn.end_lineno],
            "notes": c.notes, "params": [n for n, _, _ in params],
        }
        return text

    def default_of(self, fn, pn):
        args = fn.args.args
        defaults = fn.args.defaults
        off = len(args) - len(defaults)
        for i, a in enumerate(args):
            if a.arg == pn and i >= off:
                return defaults[i - off]
        for a, d in zip(fn.args.kwonlyargs, fn.args.kw_defaults):
            if a.arg == pn:
                return d
        return "nodefault"

    def extract(self, fn, ex):
        """statement range of a larger function: from the first top-level assignment to `first` up to (excluding) the
        first top-level statement assigning `stop` (or through the last assignment to `last`)."""
        body = fn.body
        if ex.get("if_break"):
            for n in ast.walk(fn):
                if isinstance(n, ast.If) and len(n.body) == 1 and isinstance(n.body[0], ast.Break) and not n.orelse:
                    return [ast.Assign([ast.Name(ex["if_break"], ast.Store())], n.test)]
            raise Untranslatable("no `if ...: break` statement")
        if "within" in ex:               # descend into the first compound statement of that type containing `first`
            for kind in ex["within"]:
                found = None
                for st in body:
                    if type(st).__name__ == kind and any(
                        isinstance(n, ast.Name) and isinstance(n.ctx, ast.Store) and n.id == ex["first"] for n in ast.walk(st)
                    ):
                        found = st
                        break
                if found is None:
                    raise Untranslatable(f"no {kind} statement assigning `{ex['first']}`")
                body = found.body
        def assigns(st, name):
            tg = []
            if isinstance(st, ast.Assign):
                tg = st.targets
            elif isinstance(st, ast.AnnAssign):
                tg = [st.target]
            for t in tg:
                for n in ast.walk(t):
                    if isinstance(n, ast.Name) and n.id == name:
                        return True
            return False
        if "first_any" in ex:
            start = next((i for i, st in enumerate(body) if any(
                isinstance(n, ast.Name) and isinstance(n.ctx, ast.Store) and n.id == ex["first_any"] for n in ast.walk(st))), None)
            ex = dict(ex, first=ex["first_any"])
        elif "first_attr" in ex:
            start = next((i for i, st in enumerate(body) if isinstance(st, ast.Assign)
                          and any(ast.unparse(t) == ex["first_attr"] for t in st.targets)), None)
            ex = dict(ex, first=ex["first_attr"])
        else:
            start = next((i for i, st in enumerate(body) if assigns(st, ex["first"])), None)
        if start is None:
            raise Untranslatable(f"no assignment to `{ex['first']}`")
        if "stop" in ex:
            end = next((i for i, st in enumerate(body) if i > start and assigns(st, ex["stop"])), None)
            if end is None:
                raise Untranslatable(f"no assignment to `{ex['stop']}` after `{ex['first']}`")
        else:
            end = start + ex.get("count", 1)
        return body[start:end]


def indent(s: str, n: int = 2) -> str:
    return "\n".join((" " * n + l) if l else l for l in s.split("\n"))


HEADER = """import AspireModel.Gen.Prelude
import AspireModel.Model.CkptFile
/-
  GENERATED by /verif/harness/translate/py2lean.py from /repo's working tree - do not edit.
  Source files: {files}
-/
set_option linter.unusedVariables false
namespace Gen
variable {{α : Type}} [Num α] [DecidableLT α] [DecidableLE α]

"""


def generate(repo_src: Path, groups, specs, classes):
    """translate every function of the specs from the source tree at `repo_src`; returns ({module: text}, report)"""
    tr = Translator(repo_src, specs, classes)
    texts = {}
    for name in tr.order:
        try:
            texts[name] = tr.translate(name)
        except Untranslatable as ex:
            tr.report["failed"][name] = str(ex)
            texts[name] = f"-- TRANSLATION FAILED for `{name}` ({tr.specs[name]['py']}): {ex}\n"
        except Exception as ex:   # noqa: BLE001 - any translator defect or unreadable source
            # translator defect or unreadable source: report, never crash a check
            tr.report["failed"][name] = f"translator error {type(ex).__name__}: {ex}"
            texts[name] = f"-- TRANSLATION FAILED for `{name}`: translator error {type(ex).__name__}: {ex}\n"
    mods = {}
    for mod, (imports, names) in groups.items():
        files = sorted({tr.specs[n]["py"].split(":")[0] for n in names})
        head = HEADER.format(files=", ".join(files))
        if imports:
            head = "".join(f"import AspireModel.Gen.{i}\n" for i in imports) + head
        mods[mod] = head + "\n".join(texts[n] for n in names) + "\nend Gen\n"
    tr.report["module_functions"] = {mod: names for mod, (_, names) in groups.items()}
    return mods, tr.report


def run(repo_src: Path, out_dir: Path, groups, specs, classes) -> dict:
    mods, report = generate(repo_src, groups, specs, classes)
    out_dir.mkdir(parents=True, exist_ok=True)
    written = {}
    for mod, text in mods.items():
        path = out_dir / f"{mod}.lean"
        old = path.read_text() if path.exists() else None
        if old != text:
            path.write_text(text)
        written[mod] = {"path": str(path), "changed": old != text}
    report["modules"] = written
    return report


def main():
    from . import specs
    import argparse

    ap = argparse.ArgumentParser()
    ap.add_argument("--repo-src", default=None)
    ap.add_argument("--out", default=None)
    a = ap.parse_args()
    verif = Path(__file__).resolve().parents[2]
    repo_src = Path(a.repo_src) if a.repo_src else specs.repo_src()
    out = Path(a.out) if a.out else verif / "lean" / "AspireModel" / "Gen"
    rep = run(repo_src, out, specs.GROUPS, specs.SPECS, specs.CLASSES)
    print(json.dumps(rep, indent=1))
    sys.exit(1 if rep["failed"] else 0)


if __name__ == "__main__":
    main()
