"""Stub proposal registered in the `aspire.flows` entry-point group (documented extension route),
so that `Aspire(flow_backend="verifstub")`, `save_flow` / `load_flow` and `resume_from_file` run the real
code paths without a neural network.  Its parameters (mu, sigma) are set by `fit` from the training data
and `version` counts the fits, so a proposal read back from a file can be told apart from a refitted one."""
import math

import array_api_compat.numpy as np_xp
import numpy as np

from aspire.flows.base import Flow


class StubFlow(Flow):
    xp = np_xp

    def __init__(self, dims, mu=0.0, sigma=2.0, seed=0, device=None, data_transform=None, dtype=None, version=0, **kw):
        super().__init__(dims, device=device, data_transform=data_transform)
        self.mu, self.sigma, self.seed, self.version = float(mu), float(sigma), int(seed), int(version)
        self.extra = dict(kw)
        self.dtype = dtype
        self.g = np.random.default_rng(self.seed)

    def _lp(self, x):
        if hasattr(x, "detach"):
            x = x.detach().cpu().numpy()
        x = np.asarray(x, dtype=float)
        x = x.reshape(-1, self.dims) if x.ndim != 2 else x
        return (-0.5 * ((x - self.mu) / self.sigma) ** 2 - math.log(self.sigma) - 0.5 * math.log(2 * math.pi)).sum(-1)

    def log_prob(self, x):
        return self._lp(x)

    def sample_and_log_prob(self, n):
        x = self.mu + self.sigma * self.g.normal(size=(n, self.dims))
        return x, self._lp(x)

    def sample(self, n):
        return self.sample_and_log_prob(n)[0]

    def fit(self, x, **kw):
        from aspire.history import FlowHistory

        if hasattr(x, "detach"):
            x = x.detach().cpu().numpy()
        x = np.asarray(x, dtype=float)
        self.mu, self.sigma = float(x.mean()), float(max(x.std(), 1e-3)) * 1.5
        self.version += 1
        return FlowHistory()

    def save(self, h5, path="flow"):
        g = h5.create_group(path)
        g.attrs["mu"], g.attrs["sigma"], g.attrs["version"], g.attrs["dims"], g.attrs["seed"] = self.mu, self.sigma, self.version, self.dims, self.seed

    @classmethod
    def load(cls, h5, path="flow"):
        g = h5[path]
        return cls(int(g.attrs["dims"]), mu=float(g.attrs["mu"]), sigma=float(g.attrs["sigma"]), version=int(g.attrs["version"]),
                   seed=int(g.attrs["seed"]))
