"""Test double for the (absent) `emcee` package: vectorised random-walk Metropolis
ensemble with the call surface aspire uses.  Like the real package it copies the
global numpy RandomState at construction."""
import numpy as np

STEP_SCALE = 0.3


class EnsembleSampler:
    def __init__(self, nwalkers, ndim, log_prob_fn, args=(), kwargs=None,
                 vectorize=False, moves=None, **kw):
        self.nwalkers = nwalkers
        self.ndim = ndim
        self.log_prob_fn = log_prob_fn
        self.args = tuple(args or ())
        self.kwargs = dict(kwargs or {})
        self.vectorize = vectorize
        self._random = np.random.mtrand.RandomState()
        self._random.set_state(np.random.get_state())
        self._chain = []
        self._acc = np.zeros(nwalkers)
        self._n = 0

    def _eval(self, z):
        if self.vectorize:
            lp = self.log_prob_fn(z, *self.args, **self.kwargs)
        else:
            lp = [self.log_prob_fn(p, *self.args, **self.kwargs) for p in z]
        if hasattr(lp, "detach"):
            lp = lp.detach().cpu().numpy()
        return np.asarray(lp, dtype=float).reshape(-1)

    def run_mcmc(self, initial_state, nsteps, progress=False, **kw):
        z0 = initial_state
        if hasattr(z0, "detach"):
            z0 = z0.detach().cpu().numpy()
        z = np.asarray(z0, dtype=float).copy()
        lp = self._eval(z)
        for _ in range(int(nsteps)):
            prop = z + STEP_SCALE * self._random.normal(size=z.shape)
            lpp = self._eval(prop)
            u = np.log(self._random.uniform(size=len(z)))
            with np.errstate(invalid="ignore"):
                a = u < (lpp - lp)
            z = np.where(a[:, None], prop, z)
            lp = np.where(a, lpp, lp)
            self._acc += a
            self._n += 1
            self._chain.append(z.copy())
        return z

    @property
    def acceptance_fraction(self):
        return self._acc / max(self._n, 1)

    def get_autocorr_time(self, quiet=False, discard=0, **kw):
        return np.ones(self.ndim)

    def get_chain(self, flat=False, discard=0, thin=1):
        c = np.stack(self._chain)[discard::thin]
        if flat:
            return c.reshape(-1, self.ndim)
        return c
