"""Test double for the (absent) `minipcn` package: random-walk Metropolis with the
same call surface as `minipcn.Sampler`.  All randomness comes from the generator it
is handed; the target is evaluated under torch.no_grad() when torch is loaded."""
import sys
from types import SimpleNamespace

import numpy as np

STEP_SCALE = 0.3


class Sampler:
    def __init__(self, log_prob_fn, step_fn=None, rng=None, dims=None,
                 target_acceptance_rate=0.234, xp=None, **kw):
        self.log_prob_fn = log_prob_fn
        self.rng = rng
        self.dims = dims
        self.xp = xp
        self.step_fn = step_fn
        self.target_acceptance_rate = target_acceptance_rate

    def sample(self, z0, n_steps=10):
        if "torch" in sys.modules:
            import torch

            with torch.no_grad():
                return self._sample(z0, n_steps)
        return self._sample(z0, n_steps)

    def _eval(self, z):
        if self.xp is not None:
            z = self.xp.asarray(z)      # the real kernel works in the namespace it is given
        lp = self.log_prob_fn(z)
        if hasattr(lp, "detach"):
            lp = lp.detach().cpu().numpy()
        return np.asarray(lp, dtype=float)

    def _sample(self, z0, n_steps=10):
        if hasattr(z0, "detach"):
            z0 = z0.detach().cpu().numpy()
        z = np.asarray(z0, dtype=float).copy()
        lp = self._eval(z)
        acc = []
        chain = [z.copy()]
        for _ in range(n_steps):
            prop = z + STEP_SCALE * np.asarray(self.rng.normal(size=z.shape))
            lpp = self._eval(prop)
            u = np.log(np.asarray(self.rng.uniform(size=len(z))))
            with np.errstate(invalid="ignore"):
                a = u < (lpp - lp)
            z = np.where(a[:, None], prop, z)
            lp = np.where(a, lpp, lp)
            acc.append(a.mean())
            chain.append(z.copy())
        out = np.stack(chain)
        if self.xp is not None:
            out = self.xp.asarray(out)      # the real kernel returns the chain in its namespace
        return out, SimpleNamespace(acceptance_rate=np.array(acc))
