"""Test double for the (absent) `orng` package: ArrayRNG wraps a numpy Generator."""
import os

import numpy as np


class ArrayRNG:
    def __init__(self, backend="numpy", seed=None, **kw):
        self.backend = backend
        if seed is None and os.environ.get("VERIF_ORNG_SEED"):
            seed = int(os.environ["VERIF_ORNG_SEED"])      # harness-only: make the ambient entropy controllable
        self._g = np.random.default_rng(seed)

    @property
    def bit_generator(self):
        return self._g.bit_generator

    def __getattr__(self, k):
        return getattr(self._g, k)
