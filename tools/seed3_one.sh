#!/bin/bash
# confirm ONE round-3 change (id given) from tools/seed3_list.txt unless it is stored already
cd /verif
line=$(grep "^$1|" tools/seed3_list.txt) || { echo "$1: not listed"; exit 0; }
IFS='|' read id prop dir needs tests <<< "$line"
[ -f "seeded/$id/meta.json" ] && { echo "$id: already stored"; exit 0; }
[ -f "$dir/patch.diff" ] || { echo "$id: no patch yet"; exit 0; }
notes=""; [ -f "$dir/notes.md" ] && notes="--notes $dir/notes.md"
python3 tools/seeded_confirm.py "$id" "$prop" "$dir/patch.diff" "$dir/demo.py" $notes --needs "$needs" --tests "$tests" > /tmp/seedlog_$id.json 2>&1
echo "$id $(python3 -c "import json,sys; d=json.load(open('/tmp/seedlog_$id.json')); print('confirmed=',d.get('confirmed'), 'demo0=',d.get('demo_unchanged_rc'), 'applies=',d.get('patch_applies'), 'demo1=',d.get('demo_changed_rc'), 'base_failed=',len(d.get('baseline_tests_failed',[])), 'ran=',d.get('baseline_tests_run'))" 2>/dev/null || tail -c 300 /tmp/seedlog_$id.json)"
