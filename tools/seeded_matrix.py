#!/usr/bin/env python3
"""Apply every seeded change to /repo in turn, run the quick check of its property (and optionally others),
record the outcome in seeded/<id>/meta.json (`caught_by`), undo the change.  /repo must be clean."""
import json, os, subprocess, sys, glob
os.chdir('/verif')
assert not subprocess.run("git -C /repo status --porcelain", shell=True, capture_output=True, text=True).stdout.strip(), "/repo not clean"
extra = {"C08-m1": ["C11", "C18"], "C11-m2": ["C08", "C18"], "C18-m2": ["C11", "C08"], "C01-m2": ["C05"], "C03-m1": ["C04"], "C03-m2": ["C13"], "C10-m1": ["C17"]}
rows = []
only = sys.argv[1:]
for d in sorted(glob.glob('seeded/*/')):
    sid = os.path.basename(d.rstrip('/'))
    if only and sid not in only:
        continue
    meta = json.load(open(d + 'meta.json'))
    prop = meta['property']
    r = subprocess.run(f"git -C /repo apply {os.path.abspath(d)}/patch.diff", shell=True, capture_output=True, text=True)
    if r.returncode != 0:
        rows.append((sid, 'PATCH-FAILED', r.stderr[-200:])); continue
    caught = {}
    try:
        for c in [prop] + extra.get(sid, []):
            p = subprocess.run(f"./check {c} --no-proof", shell=True, capture_output=True, text=True, timeout=1800)
            out = p.stdout
            vio = [l for l in out.splitlines() if l.startswith("VIOLATION")]
            kind = None
            if vio:
                kind = "no-failing-input-found" if vio[0].endswith("no-failing-input-found") else ("oracle (failing input replayable)")
            summ = [l for l in out.splitlines() if "oracle failures by clause" in l or "disagreements by op" in l]
            caught[c] = {"exit": p.returncode, "violation": bool(vio), "kind": kind, "summary": summ}
    finally:
        subprocess.run("git -C /repo checkout -- .", shell=True)
    meta['caught_by'] = caught
    meta['checked_against_repo_head'] = subprocess.run("git -C /repo rev-parse --short HEAD", shell=True, capture_output=True, text=True).stdout.strip()
    json.dump(meta, open(d + 'meta.json', 'w'), indent=1)
    rows.append((sid, {c: (v['violation'], v['kind']) for c, v in caught.items()}))
    print(rows[-1], flush=True)
json.dump(rows, open('/tmp/seeded_matrix.json', 'w'), indent=1, default=str)
