#!/usr/bin/env python3
"""Run every seeded change against the quick checks and record the outcome.

For each seeded/<id>/patch.diff: a scratch worktree of /repo's HEAD is created under /tmp, the patch applied THERE
(never to /repo), the quick check of its property (plus the cross-checks listed in EXTRA) is run with
PYTHONPATH=<worktree>/src so that `import aspire` resolves to the changed tree, the outcome is written into
seeded/<id>/meta.json (`caught_by`) and the worktree removed.  Several changes run in parallel (-j N).
`--md` rewrites seeded/MATRIX.md from the meta files.

usage: seeded_matrix.py [-j N] [--md] [ids...]   |   seeded_matrix.py --md-only
"""
import glob
import json
import os
import subprocess
import sys
import tempfile
from concurrent.futures import ThreadPoolExecutor

os.chdir('/verif')
EXTRA = {"C08-m1": ["C11", "C18"], "C11-m2": ["C08", "C18"], "C18-m2": ["C11", "C08"], "C01-m2": ["C05"], "C03-m1": ["C04"],
         "C03-m2": ["C13"], "C10-m1": ["C17"], "C01-m3": ["C04"], "C01-m4": ["C06"], "C11-m4": ["C12", "C14"], "C12-m4": ["C14"],
         "C12-m3": ["C11"], "C05-m4": ["C04"], "C01-m6": ["C06", "C08"], "C10-m6": ["C13"], "C14-m6": ["C19"], "C06-m5": ["C11"], "C03-m5": ["C13"],
         "C11-m6": ["C12"], "C01-m8": ["C03", "C04"], "C01-m7": ["C04"], "C10-m7": ["C14"],
         "C01-m9": ["C11", "C18"], "C01-m10": ["C11", "C12", "C18"], "C05-m10": ["C04"], "C16-m9": ["C13", "C10"]}


def sh(cmd, **kw):
    return subprocess.run(cmd, shell=True, capture_output=True, text=True, **kw)


HEAD = sh("git -C /repo rev-parse --short HEAD").stdout.strip()


def one(sid):
    d = f"seeded/{sid}/"
    meta = json.load(open(d + 'meta.json'))
    prop = meta['property']
    wt = tempfile.mkdtemp(prefix=f"seedmx_{sid}_", dir="/tmp")
    os.rmdir(wt)
    try:
        r = sh(f"git -C /repo worktree add -q --detach {wt} HEAD && git -C {wt} apply {os.path.abspath(d)}/patch.diff")
        if r.returncode != 0:
            return sid, 'PATCH-FAILED', r.stderr[-200:]
        caught = {}
        env = dict(os.environ, PYTHONPATH=f"{wt}/src", VERIF_SCRATCH_OUT=f"{wt}/.out")
        for c in [prop] + meta.get("cross_checks", EXTRA.get(sid, [])):
            p = sh(f"./check {c} --no-proof", env=env, timeout=3600)
            out = p.stdout
            vio = [l for l in out.splitlines() if l.startswith("VIOLATION")]
            kind = None
            if vio:
                kind = "no-failing-input-found" if vio[0].endswith("no-failing-input-found") else "oracle (failing input replayable)"
            summ = [l for l in out.splitlines() if "oracle failures by clause" in l or "disagreements by op" in l]
            caught[c] = {"exit": p.returncode, "violation": bool(vio), "kind": kind, "summary": summ}
            if p.returncode == 2:
                caught[c]["stderr_tail"] = p.stderr[-400:]
        meta['caught_by'] = caught
        meta['checked_against_repo_head'] = HEAD
        json.dump(meta, open(d + 'meta.json', 'w'), indent=1)
        return sid, {c: (v['exit'], v['kind']) for c, v in caught.items()}
    finally:
        sh(f"git -C /repo worktree remove --force {wt}; rm -rf {wt}; git -C /repo worktree prune")


def write_md():
    rows, own, total = [], 0, 0
    for m in sorted(glob.glob('seeded/C*/meta.json')):
        sid = m.split('/')[1]
        meta = json.load(open(m))
        cb = meta.get('caught_by', {})
        prop = meta['property']
        mine = cb.get(prop, {})
        others = [c for c, v in cb.items() if c != prop and v.get('violation')]
        total += 1
        own += bool(mine.get('violation'))
        summ = "; ".join(s.strip() for s in mine.get('summary', []))[:260]
        rows.append(f"| {sid} | {prop} | {meta.get('needs_to_manifest', '').replace('|', '/')} | "
                    f"{'yes (' + str(mine.get('kind')) + ')' if mine.get('violation') else 'NO'} | {', '.join(others) or '-'} | {summ} |")
    txt = ["# Seeded changes vs checks (quick tier, `--no-proof`; produced by tools/seeded_matrix.py)", "",
           "Each change was applied to a scratch worktree of /repo's HEAD, the check run against that tree "
           "(`PYTHONPATH=<worktree>/src ./check Cxx --no-proof`), and the worktree removed; /repo itself is never modified.", "",
           "| change | property | needs, in order to manifest | caught by its own check | also caught by | failing clauses / disagreeing ops |",
           "|---|---|---|---|---|---|"] + rows + ["", f"{own} of {total} are caught by the check of the property they break."]
    open('seeded/MATRIX.md', 'w').write("\n".join(txt) + "\n")
    print(f"MATRIX.md: {own}/{total} caught by own check")


if __name__ == "__main__":
    args = sys.argv[1:]
    if "--md-only" in args:
        write_md(); sys.exit(0)
    jobs = 4
    if "-j" in args:
        i = args.index("-j"); jobs = int(args[i + 1]); del args[i:i + 2]
    md = "--md" in args
    args = [a for a in args if a != "--md"]
    ids = [os.path.basename(d.rstrip('/')) for d in sorted(glob.glob('seeded/C*/'))]
    if args:
        ids = [i for i in ids if i in args]
    if ids:
        with ThreadPoolExecutor(jobs) as ex:
            for res in ex.map(one, ids):
                print(res, flush=True)
    if md:
        write_md()
