#!/bin/bash
# usage: tie_probe.sh <patch> <pids...>
patch=$(realpath "$1"); shift
wt=$(mktemp -d /tmp/tieprobe_XXXXXX)
git -C /repo worktree add -q --detach "$wt" HEAD || exit 2
trap 'git -C /repo worktree remove --force "$wt" 2>/dev/null; rm -rf "$wt"' EXIT
(cd $wt && git apply --3way "$patch" >/dev/null 2>&1; git reset -q)
cd /verif
for p in "$@"; do
PYTHONPATH="$wt/src" /venv/bin/python - "$p" <<'PY'
import sys, json
sys.path.insert(0, "/verif")
from harness import core
r = core.tie_audit(sys.argv[1])
print(sys.argv[1], "ok" if r["ok"] else "BROKEN", r["changed_generated_modules"], r["untranslatable"], [ (f["module"], f.get("declarations"), f.get("reason")) for f in r["failing"]])
PY
done
