#!/usr/bin/env python3
"""Confirm a seeded change in a scratch worktree of /repo (HEAD) and store it under /verif/seeded/<id>/.

usage: seeded_confirm.py <id> <property> <patch.diff> <demo.py> [--tests "<pytest args>"] [--needs "<text>"]

Checks, in a scratch worktree outside /repo and /verif (removed afterwards):
  1. demo exits 0 on the unchanged tree
  2. the patch applies, the package imports
  3. demo exits non-zero on the changed tree
  4. the selected existing tests: every test of BASELINE.stable_pass that was run still passes
"""
import argparse, json, os, shutil, subprocess, sys, tempfile, time, xml.etree.ElementTree as ET

ap = argparse.ArgumentParser()
ap.add_argument("id"); ap.add_argument("prop"); ap.add_argument("patch"); ap.add_argument("demo")
ap.add_argument("--tests", default="tests/test_samples.py tests/test_utils.py tests/test_history.py tests/test_transforms.py tests/test_plot.py tests/test_flows")
ap.add_argument("--needs", default="")
ap.add_argument("--notes", default=None)
a = ap.parse_args()

wt = tempfile.mkdtemp(prefix="seedwt_", dir="/tmp")
os.rmdir(wt)
def sh(cmd, **kw):
    return subprocess.run(cmd, shell=True, capture_output=True, text=True, **kw)
r = sh(f"git -C /repo worktree add -q --detach {wt} HEAD"); assert r.returncode == 0, r.stderr
env = dict(os.environ, PYTHONPATH=f"{wt}/src:/verif/harness/stubs", SCIPY_ARRAY_API="1", TQDM_DISABLE="1")
res = {"id": a.id, "property": a.prop, "repo_head": sh("git -C /repo rev-parse --short HEAD").stdout.strip()}
try:
    shutil.copy(a.demo, f"{wt}/_demo.py")
    d0 = subprocess.run(["/venv/bin/python", "_demo.py"], cwd=wt, env=env, capture_output=True, text=True, timeout=1800)
    res["demo_unchanged_rc"] = d0.returncode
    ap_ = sh(f"git -C {wt} apply --3way {os.path.abspath(a.patch)}")
    sh(f"git -C {wt} reset -q")
    conflict = "<<<<<<<" in sh(f"git -C {wt} diff").stdout
    res["patch_applies"] = ap_.returncode == 0 and not conflict and bool(sh(f"git -C {wt} diff --stat").stdout.strip())
    if not res["patch_applies"]:
        res["patch_error"] = (ap_.stderr[-300:] + (" CONFLICT" if conflict else ""))
    rebased = sh(f"git -C {wt} diff -- src").stdout
    imp = subprocess.run(["/venv/bin/python", "-c", "import aspire, aspire.samplers.smc.minipcn, aspire.samplers.smc.emcee, aspire.samplers.importance; print(aspire.__file__)"], cwd=wt, env=env, capture_output=True, text=True)
    res["imports"] = imp.returncode == 0 and wt in imp.stdout
    d1 = subprocess.run(["/venv/bin/python", "_demo.py"], cwd=wt, env=env, capture_output=True, text=True, timeout=1800)
    res["demo_changed_rc"] = d1.returncode
    res["demo_changed_tail"] = (d1.stdout + d1.stderr)[-600:]
    junit = f"{wt}/_junit.xml"
    t0 = time.time()
    t = subprocess.run(f"/venv/bin/python -m pytest -q -p no:cacheprovider --timeout=900 --continue-on-collection-errors --junitxml={junit} {a.tests}",
                       shell=True, cwd=wt, env=env, capture_output=True, text=True, timeout=7200)
    base = set(json.load(open("/root/.vp/BASELINE.json"))["stable_pass"])
    ran, failed_base = 0, []
    for tc in ET.parse(junit).getroot().iter("testcase"):
        name = f"{tc.get('classname')}::{tc.get('name')}"
        if name in base:
            ran += 1
            if any(ch.tag in ("failure", "error") for ch in tc):
                failed_base.append(name)
    res["tests_cmd"] = f"pytest {a.tests}"
    res["baseline_tests_run"] = ran
    res["baseline_tests_failed"] = failed_base
    res["tests_wall_s"] = round(time.time() - t0)
finally:
    sh(f"git -C /repo worktree remove --force {wt}")
    shutil.rmtree(wt, ignore_errors=True)
ok = res.get("demo_unchanged_rc") == 0 and res.get("patch_applies") and res.get("imports") and res.get("demo_changed_rc", 0) != 0 and not res.get("baseline_tests_failed") and res.get("baseline_tests_run", 0) > 0
res["confirmed"] = bool(ok)
res["needs_to_manifest"] = a.needs
print(json.dumps(res, indent=1))
if ok:
    out = f"/verif/seeded/{a.id}"
    os.makedirs(out, exist_ok=True)
    open(f"{out}/patch.diff", "w").write(rebased)      # the change as it applies to /repo's current HEAD
    shutil.copy(a.demo, f"{out}/demo.py")
    if a.notes and os.path.exists(a.notes):
        shutil.copy(a.notes, f"{out}/notes.md")
    meta = {"property": a.prop, "needs_to_manifest": a.needs, "confirmed_by": res, "caught_by": None}
    json.dump(meta, open(f"{out}/meta.json", "w"), indent=1)
sys.exit(0 if ok else 1)
