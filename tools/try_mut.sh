#!/bin/bash
# usage: try_mut.sh <patch> <check ids...>
# Apply a seeded change to a SCRATCH worktree of /repo (never to /repo itself), run the named checks against that
# worktree (PYTHONPATH puts its src/ before the editable install; --no-proof: the Lean build is unaffected by Python
# changes), then remove the worktree.  Safe to run several at once and while other checks run on /repo.
patch=$(realpath "$1"); shift
wt=$(mktemp -d /tmp/trymut_XXXXXX)
git -C /repo worktree add -q --detach "$wt" HEAD || exit 2
# carry /repo's uncommitted state, if any, as a scratch commit on the detached HEAD of the scratch worktree (so that the
# three-way application of the seeded change below starts from a clean index)
if ! git -C /repo diff --quiet HEAD; then
  git -C /repo diff HEAD | git -C "$wt" apply 2>/dev/null
  git -C "$wt" -c user.email=scratch@localhost -c user.name=scratch commit -qam "scratch: uncommitted state of /repo" 2>/dev/null
fi
cleanup() { git -C /repo worktree remove --force "$wt" 2>/dev/null; rm -rf "$wt"; }
trap cleanup EXIT
cd "$wt" || exit 2
git apply --3way "$patch" >/dev/null 2>&1; git reset -q
if git diff | grep -q '^[+ ]<<<<<<<'; then echo "CONFLICT applying $patch"; exit 3; fi
if git diff --quiet HEAD; then echo "PATCH DID NOT APPLY: $patch"; exit 3; fi
for c in "$@"; do
  (cd /verif && PYTHONPATH="$wt/src" VERIF_SCRATCH_OUT="${TRYMUT_OUT:-$wt/.out}" ./check $c --no-proof 2>&1 | grep -v "^KNOWN\|it/s" | tail -4)
done
