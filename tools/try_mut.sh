#!/bin/bash
# usage: try_mut.sh <patch> <check ids...>   — apply a seeded change to /repo, run checks (no proof), revert
patch=$(realpath "$1"); shift
cd /repo || exit 2
git apply --3way "$patch" >/dev/null 2>&1; git reset -q
if git diff | grep -q '^[+ ]<<<<<<<'; then echo "CONFLICT applying $patch"; git checkout -- .; exit 3; fi
if git diff --quiet; then echo "PATCH DID NOT APPLY: $patch"; exit 3; fi
for c in "$@"; do (cd /verif && ./check $c --no-proof 2>&1 | grep -v "^KNOWN" | tail -4); done
git checkout -- .
git status --short | head -3
