#!/usr/bin/env python3
"""Regenerate MANIFEST.json from the table below (one entry per claimed property)."""
import json

TB = ("Trusted: Lean 4.33 kernel (axioms propext, Classical.choice, Quot.sound only, audited by #print axioms on every run; "
      "leanchecker re-check in the thorough tier); the hand-written Lean model is tied to /repo's working tree by the "
      "correspondence harness (Python generators, tolerances, line-protocol driver) - the assurance is the weaker of proof and tie. ")

CLAIMS = {
 "C02": dict(
  text="Theorems over the reals for every non-empty sample set (log_w pointwise, logZ = log mean w, ESS = (sum w)^2/sum w^2 in [1,N], "
       "permutation invariance, shift by a constant, stabilised relative error = textbook relative error, rejection rule, and range-safety "
       "of every exp/log argument) about the model of Samples.compute_weights / logsumexp / effective_sample_size / rejection_sample; "
       "the same model runs at Float/Float32 against the implementation in three namespaces and two widths.",
  note=TB + "numpy/torch/jax elementwise exp/log/sum/max are modelled, not verified; floating-point rounding is outside the real-number "
       "theorems except for the range-safety statements (all exp arguments <= 0, log arguments in [1,N]).",
  technique="Lean 4 proof (Mathlib real analysis) + differential correspondence model-vs-implementation + direct oracle"),
 "C16": dict(
  text="Refinement theorems for every sample class, value type, field subset and index list: row j of S[sel] is row sel[j] of S in every "
       "per-sample field including log_w/weights (select_refines), selection carries evidence/temperature and recomputes only the ESS, "
       "slices/masks reduce to index lists, consecutive pieces of a partition concatenate back to the original columns, pickling is the identity "
       "and dict round trips are the identity on sets as their constructor left them; the two known findings are proved as facts about the model. "
       "Random op sequences on the real classes (3 namespaces x 2 widths) are compared with the model and with a plain-array reference.",
  note=TB + "numpy/torch/jax indexing, concatenate and pickle are modelled (gather by index list), not verified; selectors are normalised to "
       "index lists by the harness.",
  technique="Lean 4 proof (refinement to list-of-rows spec) + differential op-sequence correspondence + plain-array oracle"),
 "C05": dict(
  text="Theorems: the SMC kernel target of the model is (1-b) log q + b (log L + log pi) + log|J| and the MCMC target log L + log pi + log|J| (over the reals); "
       "over a four-kind extended value type (finite, -inf, +inf, nan with IEEE tables) a zero-prior point gives exactly -inf for every b in (0,1] and every "
       "value of the other terms, and the SMC target is never nan. The model runs at Float against log_prob of all five sampler classes in three namespaces.",
  note=TB + "The transform's own inverse/log-Jacobian are taken from the implementation (their exactness is C04); IEEE special-value tables of numpy/torch/jax "
       "are modelled by the XR type; BlackJAXSMC is exercised through log_prob only (blackjax is not installed).",
  technique="Lean 4 proof (real + extended-value case analysis) + differential correspondence on log_prob + formula oracle"),
 "C06": dict(
  text="Theorems for every population (every efficiency function), every tolerance, floor and cap: the adaptive step never raises, strictly increases, stays in (0,1], "
       "advances by at least tol/2 and by the floor, so a run reaches exactly 1 within ceil(2/tol) iterations or stops at the cap; the fixed rule visits k/n and takes "
       "exactly n iterations; the loop model of Model/Smc.lean carries these (runLoop_adaptive, runLoop_fixed). Float facts (pinned accumulation needs n+1 steps for "
       "n=7,10; the new rule is exact) by kernel evaluation. The pinned defects (ZeroDivisionError, stall at beta=0) are proved of the pinned model and were repaired by fix: commits.",
  note=TB + "Real-number theorems; IEEE rounding enters only through the kernel-evaluated Float facts (decide +kernel, no extra axioms) and through the correspondence. "
       "MCMC kernels are test doubles. beta_tolerance below 1 ulp is outside the option space (not exposed by the public samplers).",
  technique="Lean 4 proof (order/arith induction over the schedule) + differential correspondence on determine_beta and whole runs + oracle"),
 "C07": dict(
  text="Theorems: the ESS fraction of the incremental weights is antitone in the trial temperature for every population (log-sum-exp convexity via Hoelder); the bisection "
       "returns a feasible point within tol of the supremum of the feasible set; the full step is taken iff it meets the target in force (ramp = lo+(hi-lo) beta^rate); the returned "
       "temperature differs from the bisection result only by the minimum-step floor (adaptive_step_spec).",
  note=TB + "Real-number theorems about the model of determine_beta/effective_sample_size/log_weights; rounding only through the correspondence (knife-edge decisions are counted and skipped).",
  technique="Lean 4 proof (Mathlib analysis: convexity of log-sum-exp) + differential correspondence on determine_beta + ESS oracle at beta* and beta*+2tol"),
 "C09": dict(
  text="Theorems: the probability vector handed to the generator equals w_i / sum w with w_i = exp((b'-b)(log L+log pi-log q)_i) for every population and temperature pair "
       "(the added evidence ratio and the double normalisation cancel), is positive, sums to one and is invariant under constant shifts; every field of output row j is the "
       "field of source row idx[j] (refinement via C16), with the new temperature and the requested size. The captured p vector and indices of the real resample are compared.",
  note=TB + "numpy Generator.choice is trusted to draw index i with the probability it is handed; fancy indexing is modelled as gather.",
  technique="Lean 4 proof + differential correspondence on captured probability vectors + row-copy oracle"),
 "C08": dict(
  text="Theorems about the loop state machine (Model/Smc.lean) for every schedule rule, kernel, random stream, cadence and cap: the returned evidence is the sum of the recorded "
       "ratios and the uncertainty the root of the summed variances; each recorded ratio is the ratio of the population as it stood BEFORE that iteration's resampling with the "
       "temperatures actually used; the recorded series do not depend on the resampling indices, on the checkpoint cadence, on the final enlargement, or on interrupt+resume. "
       "Per-iteration numbers are the model of Model/Tempering.lean (log mean incremental weight; C09/C02 theorems). Real runs are recomputed and paired runs compared.",
  note=TB + "MCMC kernels are test doubles; in the model the kernel output is an input, so independence of the resampling noise is by construction plus the per-step theorem.",
  technique="Lean 4 proof (induction over the loop) + differential correspondence (ratio op, loop replay) + recomputation oracle + paired runs"),
 "C11": dict(
  text="Theorems (for every Kit, configuration, step list): restore(snapshot st) = st up to the checkpoint log; an interrupted run resumed from ANY surviving checkpoint (also under another "
       "cadence, also the forced final one, also at the step cap, also with the interruption inside the enlargement) returns the same evidence, population, history, iteration and temperature "
       "as the uninterrupted run (resume_eq, resume_from_any_checkpoint); the three pinned defects (duplicate population, min_step reset, extra iteration at the cap) are proved of the pinned model. "
       "Real runs are interrupted at EVERY likelihood call and resumed through bytes / live dict / .pkl / .h5 (C12 adds resume_from_file) and compared bit for bit.",
  note=TB + "Assumes deterministic user functions and that the numpy Generator state round-trips through pickle (the model feeds the unconsumed suffix of the step list). EmceeSMC's kernel takes its "
       "randomness from numpy's global state, which is not a source handed to aspire: excluded. Kernel doubles.",
  technique="Lean 4 proof (simulation relation up to the checkpoint log) + fault injection at every likelihood call + bitwise comparison"),
 "C12": dict(
  text="Theorems: dump_pickle_to_hdf's model leaves exactly the new payload for every old content (growing, shrinking, equal, missing) while the no-shrink variant leaves a stale suffix; checkpoints "
       "are written exactly at the multiples of the cadence plus one forced at the end; the checkpoint log is prefix-monotone, so after an interruption following j steps the file holds the snapshot of "
       "iteration e*(j/e); the file keeps configuration and proposal and the payload decodes (file_contents, file_resume). Real sample_posterior/auto_checkpoint runs are faulted at every likelihood "
       "call, the file inspected byte for byte and resumed with Aspire.resume_from_file.",
  note=TB + "h5py/pickle store bytes faithfully; interruptions are Python exceptions at user-function calls (process death in the middle of an HDF5 write is not modelled); the stub proposal's own save/load.",
  technique="Lean 4 proof (byte-level dataset model + loop cadence) + fault injection at every call + byte comparison + resume-from-file"),
 "C18": dict(
  text="Theorems: the history invariant (all six series have one entry per iteration, stored populations = initial followed by the kernel output of every iteration in order, every recorded temperature / "
       "ESS / ratio / variance / target equals its definition on the neighbouring stored population) holds in the initial state, is preserved by every iteration, holds for every reachable state, "
       "for every checkpoint, and for runs resumed from any checkpoint; the pinned restore breaks it (pops.length = iter + 2). Real runs (fresh and fault+resume through 4 routes) are checked "
       "against the definitions and replayed through the loop model.",
  note=TB + "kernel doubles; with store_sample_history=False only the length invariant is stated; mcmc_acceptance's extra entry after the final enlargement is a known finding.",
  technique="Lean 4 proof (invariant by induction over operations) + loop replay correspondence + recomputation oracle"),
 "C10": dict(
  text="Theorems (L, pi, q abstract deterministic functions): every sample set produced by the evaluation idiom (mutate's re-evaluation, kernel target evaluation) is coherent; selection "
       "(resampling, slicing, masking, enlargement) and concatenation preserve coherence; the rejection loop of draw_initial_samples returns exactly n rows, all with finite prior, each still paired with "
       "its OWN proposal value, using the minimal number of batches (drawInitialRows_spec); coherence is an invariant of the SMC loop model covering every stored population, every checkpoint and resumed runs "
       "(smc_run_coherent_real). Real runs of all five sampler classes recompute L, pi, q on every row of every returned/recorded/checkpointed set; the initial population is compared with the model on the recorded batches.",
  note=TB + "Hypothesis (C03): the proposal returns draws with their own density. Kernel doubles; user functions deterministic. In the loop model the kernel output is an input whose coherence is discharged by reevaluate_coherent.",
  technique="Lean 4 proof (invariant over the evaluation idiom and the loop) + recomputation oracle on whole runs + model of the rejection loop"),
 "C17": dict(
  text="Theorems: for every sequence of evaluation requests a sampler makes, every likelihood event carries attached = pi of exactly the points it is called on, every prior+likelihood request is the pair "
       "[prior xs, like xs], and the counter equals the total number of points over all likelihood events; the initial draw emits only prior events for the batches used and exactly one likelihood event on the kept rows. "
       "Real runs of every sampler class (incl. resumed runs and Aspire.sample_posterior) are observed through instrumented user callables; the observed stream must be in the model's language and the model's counter must equal the reported one.",
  note=TB + "Which requests each sampler makes is observed, not derived: the theorem quantifies over all request lists, the harness checks that the observed stream is one. Kernel doubles call the target like the real kernels.",
  technique="Lean 4 proof (event-trace invariant) + instrumented callables on whole runs + counter correspondence"),
 "C19": dict(
  text="Theorems by structural induction over programs (any nesting depth of the two contexts, an exception at any position): after ANY program the instance's log_likelihood and log_prior are the objects they "
       "were before; leaving auto_checkpoint restores the checkpoint defaults to exactly their value on entry (including absence and the saved_* flags of an enclosing context); a pool is closed/joined only by a context "
       "with close_pool=True, and always then (also when the body raises). All programs to depth 2 (quick) / 3 (thorough) plus random ones to depth 4 are run on a real Aspire with a recording pool and on the model.",
  note=TB + "CPython with/finally semantics are modelled (exec runs __exit__/finally on every path); callables are identity tokens; enable_pool(None) is outside the model.",
  technique="Lean 4 proof (structural induction over context programs) + exhaustive small-depth differential correspondence + identity/value oracle"),
 "C20": dict(
  text="Decision logic stated outright: for every sampler wiring table that passes the decidable predicate WiringOK (equivalently: sample does not overwrite a constructor-supplied generator) the user's generator is the "
       "source in use on every route on which the class accepts it (constructor, sample call, top-level sample_posterior); the pinned MiniPCNSMC table is proved to discard it on two routes (repaired by a fix: commit). "
       "NON-INTERFERENCE (Model/Entropy.lean, Props/C20Entropy.lean): a run is ANY computation drawing values at named consumption sites (proposal construction/training/draws, resampling, kernel, final enlargement; data-dependent numbers of draws included); "
       "if every reachable site reads the user's generator the run equals the single-generator run on it (exec_eq_run1), is bit-identical under any two ambient entropies (reproducible), leaves the ambient generator untouched and advances the user's generator by exactly its draws (user_generator_advanced); "
       "with WiringOK, an accepted route and a seeded proposal that is every run (runs_reproducible); one ambient site suffices to lose it (pinned_not_reproducible, unseeded_flow_not_reproducible, by evaluation). "
       "The tables are re-extracted from the current source on every run (inspect.signature + probe) and the predicate evaluated on them; the model's same/different prediction per class and route is compared with the paired runs; paired runs with identical explicit sources and different ambient entropy must be bit-identical.",
  note=TB + "The theorem is about argument routing; bit-reproducibility of the numerical libraries given the same seeds is established by the paired runs (exploration supporting the tie), not by proof. Ambient entropy is controlled by "
       "patching argument-less default_rng, the ArrayRNG double and torch's global seed. Emcee/EmceeSMC accept no generator (numpy global state): outside the quantifier.",
  technique="Lean 4 proof (non-interference over all computations by induction; decision table regenerated from source) + paired-run correspondence of the same/different prediction"),
 "C03": dict(
  text="Theorems about the model of Flow.log_prob / sample_and_log_prob (neural density `base` abstract): the log-density returned with a draw equals log_prob at the draw for every base and every composite data transform "
       "(all on/off combinations, logit and probit) outside the clipping margin; draws lie strictly inside declared bounds (periodic ones in [lo,hi)); in 1-D the proposal integrates to one over the native interval given a normalised base "
       "(change of variables, both bounded kinds; exact mass formulas with the eps-clip). Real zuko and flowjax flows (untrained, trained, reloaded) are compared with base(T x)+log|J| from the model and pointwise with their own draws.",
  note=TB + "PARTIAL for the network: that zuko/flowjax networks are normalised densities with exact bijections is a hypothesis of the theorems (supported only by 1-D quadrature, labelled exploration). The theorems show that exact "
       "normalisation holds with eps = 0 or on the interval minus the clipping margin (clipped_total_mass gives the exact deviation). erf/erfinv satisfy ProbitOK (proved satisfiable).",
  technique="Lean 4 proof (Mathlib change of variables, transform algebra) + differential correspondence on real flows; quadrature as supporting exploration"),
 "C04": dict(
  text="Theorems (Mathlib HasDerivAt): for every transform class and EVERY on/off combination of the composite (by induction over the kind vector) inverse(forward x) = x on admissible points, the inverse log-Jacobian is the negative of "
       "the forward one at the corresponding point, the reported forward term equals log|d f/dx| per coordinate (logit, probit via the inverse function theorem, affine, periodic derivative 1) and the row term equals log|det| of the diagonal "
       "Jacobian (Matrix.det_diagonal); periodic wrapping lands in [lo,hi), is congruent modulo the period, unique and idempotent; fit returns exactly the forward image. All classes x 3 namespaces x 2 widths are run against the model.",
  note=TB + "Over the reals; ProbitOK (erf/erfinv identities and derivative) is a hypothesis about scipy, proved satisfiable; floating-point `%` rounding at period boundaries is a known finding; the driver's erf/erfinv are numerical.",
  technique="Lean 4 proof (calculus in Mathlib) + differential correspondence on forward/inverse/fit + finite-difference and round-trip oracle"),
 "C15": dict(
  text="The domain is a finite table (3 classes x 3 x 3 namespaces x 2 widths x 9 dtype spellings x 3 methods = 1458 requests, 750 accepted and well-formed): the theorem conversion_total_and_faithful is proved by "
       "evaluating the WHOLE table in the kernel (decide +kernel) and lifting by a membership lemma: every conversion succeeds, lands in the requested namespace, keeps the width (or takes the requested one) and keeps all optional "
       "fields; the dtype helpers are total and never produce a foreign dtype object; the pinned conversions are proved to raise / widen (repaired by fix: commits). The same complete table is executed on the real classes on every run, "
       "plus sampler populations (build / restore / return) over namespace x width, the xp= output option and a real zuko proposal consumed in three namespaces.",
  note=TB + "The library rules (asarray rejects a foreign dtype object; numpy and jax share dtype objects; default widths) are parameters of the model validated by the exhaustive run. jax with x64 enabled as in the repository's tests.",
  technique="Lean 4 proof by kernel evaluation of the complete finite table + exhaustive differential correspondence on the real classes"),
 "C13": dict(
  text="Theorems about the model of the HDF5 codec: decode(encode leaf) = leaf iff the leaf is not a sentinel string; dotted keys split back into their segments; flattening enumerates root-to-leaf paths with distinct dataset names; "
       "for every well-formed nested dictionary load(save d) = d exactly, and for ANY order in which the datasets are listed the result is equal up to the order of entries at every depth (codec_roundtrip_perm); "
       "an Aspire configuration (bounds, periodic parameters, flow options, namespace, precision) is rebuilt exactly through the file (config_roundtrip). Negative witnesses for dotted keys and sentinel strings. A sample record (parameter names, one column per parameter, optional log-likelihood/prior/proposal/weight fields) saved in the nested layout reloads to the same record for ANY order in which the file lists the per-parameter datasets, because columns are looked up by name (samples_nested_roundtrip_file, colsByName_any_listing_order); the by-order lookup is proved to swap columns (colsByOrder_swaps_witness); the driver op samplecols replays the file's real listing order of every nested save through colsByName. "
       "The real save/load of dictionaries, sample sets (3 classes x 3 namespaces x 2 widths x field subsets x layouts x name orders), histories, every transform class, zuko/flowjax flows with custom options and resume_from_file are exercised on every run.",
  note=TB + "h5py is modelled as a key->dataset map listed in any order; the record<->tree map of sample sets is modelled and proved (C13Samples), those of histories/transforms/flows are covered by the observational correspondence, not by separate theorems; "
       "h5py's conversion of number lists into arrays is identified observationally (list vs array of equal values).",
  technique="Lean 4 proof (structural induction over value trees, permutation-invariant reload) + differential correspondence through real HDF5 files + observational round-trip oracle"),
 "C14": dict(
  text="The full-strength statement (every operation sequence leaves every file consistent) is kept and REFUTED with concrete witnesses (known finding: a checkpoint of an earlier run stays next to a replaced or missing proposal/configuration). "
       "Proved: Safe ops -> AllConsistent (srun {} ops), where Safe is a decidable predicate that is EXACTLY the set of sequences consistent after every operation (safe_iff_consistent_throughout); a syntactic regular sub-language (fits, SMC runs to explicit or context paths, "
       "refit + rerun inside contexts, nested contexts) is shown safe; a completed or checkpoint-reaching SMC run always writes the proposal it samples with (the single-step fact behind two fix: commits, whose pinned variants are proved inconsistent); "
       "resume_from_file never mixes a population with a proposal other than the file's. All sequences to length 3/4 plus random ones on a real Aspire are compared with the model after every operation.",
  note=TB + "Proposals are version numbers (the stub proposal's parameters identify the fit that produced them); only SMC writes checkpoints in the model; sampling without a proposal is outside the differential check.",
  technique="Lean 4 proof (state-machine invariant, exact characterisation of the safe language, refutation witnesses) + exhaustive short op-sequence correspondence + direct file oracle"),
 "C01": dict(
  text="'Up to Monte-Carlo error' is a statement about a random variable; what is PROVED is the exact expectation identity behind it, on every finite state space, every N >= 1: the model's importance-sampling evidence estimate "
       "(computeWeights) is exactly unbiased (is_unbiased; also with a zero-prior region, while 'dropping zero-weight draws' is proved biased); the model's per-step SMC estimate is unbiased for Z_b'/Z_b for populations from the tempered target; "
       "the ratios telescope to Z; the whole interacting particle system (estimate -> multinomial resampling with the model's resampleP -> mutation by any target-invariant kernel) is unbiased for a fixed schedule (smc_unbiased); a bijective relabelling "
       "(preconditioning, with discrete Jacobian masses) does not change the tempered target. Tie: ALL K^N outcomes of discrete targets are pushed through the real ImportanceSampler / Aspire.sample_posterior and sum q(outcome) Z_hat compared with Z to 1e-11.",
  note=TB + "PARTIAL: convergence of the real third-party MCMC kernels (absent here; Metropolis doubles are used) and the adaptive, population-dependent schedule (consistent, not exactly unbiased) are outside every theorem; the replicate runs "
       "on analytic targets are supporting exploration with 6-sigma bounds, labelled as such. Two known findings (all-zero-prior outcome gives nan; SMC evidence biased by 1/P_q(prior support) when initial draws are rejected).",
  technique="Lean 4 proof (finite-space expectation calculus, induction over the particle system) + exact enumeration of the randomness through the real sampler; replicate exploration"),
}
NOT_YET = "not claimed"

# properties whose numeric / control source functions are ALSO translated to Lean on every run (harness/translate) and
# tied to the model by theorems Props/CxxTie.lean (`translated source = model`, then the main theorems restated for the source)
TIE = {
 "C03": "log_prob and sample_and_log_prob of both proposal wrappers (ZukoFlow, FlowJax), with the data transform and the neural density as parameters",
 "C04": "utils.logit, utils.sigmoid, the derived fields of BoundedTransform.__init__, to_unit_interval / from_unit_interval, and forward / inverse of LogitTransform, ProbitTransform, PeriodicTransform and AffineTransform (one row of coordinates at a time; CompositeTransform's mask bookkeeping is not translated)",
 "C02": "utils.logsumexp, utils.effective_sample_size, Samples.compute_weights (all seven stored fields), scaled_weights, the acceptance rule of rejection_sample",
 "C05": "SMCSamples.log_p_t and the statements of SMCSampler.log_prob / MCMCSampler.log_prob that form the kernel target",
 "C06": "SMCSampler.determine_beta (fixed rule, bisection loop, fallback step, adaptive minimum step, clamps), current_target_efficiency, the loop's exit test and the min_step initialisation of SMCSampler.sample, and the LOOP of SMCSampler.sample statement by statement (the body of `while True:`, the nested maybe_checkpoint, the `if run_smc_loop:` / break skeleton and the statements after the loop up to the forced checkpoint) over the callee interface Gen.LoopOps (Props/C06LoopTie: the loop is left only at temperature 1 or at the step cap, one pass per unit of the counter, a step cap bounds the number of passes and forces termination, for every callee)",
 "C07": "SMCSampler.determine_beta / current_target_efficiency and the efficiency curve effective_sample_size(log_weights(b))/N",
 "C08": "SMCSamples.log_evidence_ratio, log_evidence_ratio_variance the two statements that sum the recorded series after the loop, and the LOOP of SMCSampler.sample statement by statement (the body of `while True:`, the nested maybe_checkpoint, the `if run_smc_loop:` / break skeleton and the statements after the loop up to the forced checkpoint) over the callee interface Gen.LoopOps (Props/C08LoopTie: the recorded ratio is that of the population before the pass resamples it at the temperature determine_beta returned, is independent of that pass's resample/mutate, of the enlargement and of the checkpoint options, for every callee)",
 "C09": "SMCSamples.log_weights, the statements of SMCSamples.resample that compute the probability vector handed to rng.choice, and (seventh vocabulary, rows2lean.py) the `return self.__class__(x=self.x[idx], ...)` of resample (Props/C09RowsTie: the translated population = C09.resampleRows up to an evidence attached to the old object; src_rows_copied_intact - all four columns are gathered with the SAME index list; src_resampled_beta; src_resampled_size)",
 "C11": "the statements of SMCSampler.sample that decide whether a resumed call re-enters the loop, and the LOOP of SMCSampler.sample statement by statement (the body of `while True:`, the nested maybe_checkpoint, the `if run_smc_loop:` / break skeleton and the statements after the loop up to the forced checkpoint) over the callee interface Gen.LoopOps (Props/C11LoopTie: the loop and the statements after it read nothing but the five values a checkpoint payload is built from, so a call restarted from them records the same history, evidence and new payloads, for every callee); and the checkpoint STATE DICTIONARY: Sampler.build_checkpoint_state, SMCSampler.build_checkpoint_state, _checkpoint_extra_state and both restore_from_checkpoint, key by key, over a heap of history objects in which copy.deepcopy allocates (Props/C11StateTie: the history a checkpoint holds is frozen whatever the run appends later, restore . build is the identity on what the loop reads, a live dictionary is untouched by the resumed run and restores the same a second time, bytes / path / dictionary are interchangeable, build = Model.snapshot and restore = Model.restore); and the PROLOGUE of SMCSampler.sample, statement by statement (twelfth vocabulary, harness/translate/entry2lean.py; Props/C11EntryTie: a fresh call starts from the initial draw at temperature 0 with a new history and the minimum step of its own options, nothing an earlier call left on the object enters it, a resumed call starts from exactly what restore_from_checkpoint hands back without appending the restored population again; fresh entry = Model.initSt, resumed entry = Model.restore; Props/C11ChainTie.src_resume_chain composes translated build -> restore -> prologue into Model.restore (Model.snapshot st))",
 "C12": "the cadence rule inside maybe_checkpoint of SMCSampler.sample and utils.dump_pickle_to_hdf (create / resize / overwrite of the checkpoint dataset, in a dataset vocabulary), and the LOOP of SMCSampler.sample statement by statement (the body of `while True:`, the nested maybe_checkpoint, the `if run_smc_loop:` / break skeleton and the statements after the loop up to the forced checkpoint) over the callee interface Gen.LoopOps (Props/C12LoopTie: src_cadence - the payloads handed to the callback are built at iterations e, 2e, ... and once at the end, the last one from the returned population, evidence, counter, temperature, minimum step and history); and the checkpoint state dictionary (Props/C12StateTie: the payload holds the arguments it was built from and the history of that moment, and a file holding its pickled bytes restores to that moment on a new sampler object whatever the run did afterwards)",
 "C13": "the nested _save_flattened of utils.recursively_save_to_h5_file (the items loop, the dotted key, the `isinstance(value, dict) and value` test, the dataset creation with encode_for_hdf5) and the loop of utils.load_from_h5_file (split at the dots, the setdefault walk, the decoded assignment) (eighth vocabulary, harness/translate/codec2lean.py over Model/Codec) (Props/C13Tie: tie_save_flattened / tie_load_flattened by mutual structural recursion; src_codec_roundtrip_any_order and src_codec_roundtrip_same_order restate the round-trip theorems for the translated functions); and the file layout of the diagnostic history, SMCHistory.save / load (eleventh vocabulary, harness/translate/hist2lean.py: the counter key, the group path of every population, the codec call; Props/C13HistTie: src_history_roundtrip - for any number of stored populations, any well-formed attributes, any file and path, load . save gives back the same populations in order and the same attributes, through exactly the facts a layout change breaks)",
 "C15": "the seven conversion methods of the sample containers (to_numpy / to_namespace of BaseSamples, Samples, SMCSamples; the classmethod from_samples), the constructor's __post_init__ and the method resolution of the three classes, as constructor plans over the finite dtype model (Props/C15Tie: running the translated plan of the method a class resolves to gives the namespace and width of Model.convert or the same error on the WHOLE table of 1458 requests - decide +kernel, lifted by membership -, and whenever it succeeds every per-row field is built from its own field and ends in the namespace and at the width of the coordinates, with the set-level values of the class carried)",
 "C16": "which field of a NEW sample set is built from which field of the old one, indexed how (seventh vocabulary, harness/translate/rows2lean.py over Model/Rows + Gen/RowOps): BaseSamples / Samples / SMCSamples.__getitem__ and SMCSamples.to_standard_samples (Props/C16Tie: each translated __getitem__ = Model.select for its class; src_selection_aligned, src_evidence_carried, src_weights_selected (ESS recomputed from the SELECTED log-weights), src_to_standard)",
 "C17": "the statements by which the samplers EVALUATE the user's functions (sixth vocabulary, harness/translate/eval2lean.py over Gen/EvalOps): the counting wrapper Sampler.log_likelihood, the construct-attach-prior-then-likelihood statements of five call sites (importance sampler, MCMC and SMC kernel targets, MiniPCNSMC.mutate, EmceeSMC.mutate) and the whole rejection loop of MCMCSampler.draw_initial_samples (Props/C17Tie: every site = Model.evalLP / reevaluate / targetEval; src_prior_before_likelihood_same_points; tie_draw_initial_samples: for n >= 1 the translated initial draw consumes the same batches, makes the same calls in the same order, counts the same evaluations and returns the same population as Model.drawInitial, by induction over the batches)",
 "C10": "the statements by which the samplers EVALUATE the user's functions (sixth vocabulary, harness/translate/eval2lean.py over Gen/EvalOps): the counting wrapper Sampler.log_likelihood, the construct-attach-prior-then-likelihood statements of five call sites (importance sampler, MCMC and SMC kernel targets, MiniPCNSMC.mutate, EmceeSMC.mutate) and the whole rejection loop of MCMCSampler.draw_initial_samples (Props/C10Tie: src_sites_coherent - the set handed on by every translated site stores the user's prior / likelihood and the proposal at its own rows; src_initial_population - exactly n rows, finite priors only, each row with the log q drawn together with it)",
 "C14": "the checkpoint-FILE blocks of Aspire.fit and Aspire.sample_posterior (fifth vocabulary, harness/translate/file2lean.py over Gen/FileOps: the alias of the checkpoint defaults, which file is opened, deletion and re-creation of the aspire_config and flow groups, the saved_* flags, the path and cadence handed to the sampler) (Props/C14Tie: closed forms tie_fit_file_block / tie_sample_pre_block / tie_sample_post_block; src_post_after_pre_is_identity - within one call nothing is written after sampling; src_sampler_gets_the_same_file; rel_fit and rel_sample: the translated blocks, composed with the sampler's checkpoint writes, do to the source-level session exactly what Model.stepFit / Model.stepSample do to the model's)",
 "C19": "utils.PoolHandler.__enter__ / __exit__ and the prologue and finally-block of the generator Aspire.auto_checkpoint (fourth vocabulary, harness/translate/ctx2lean.py: attribute copies, partial(...) as a fresh token, close/join events, getattr/hasattr/delattr, the defaults dictionary), composed by the semantics of the with statement (Props/C19Tie: execSrc; src_callables_restored, src_auto_restores, src_defaults_restored, src_closed_if_asked, src_exception_propagates at every nesting depth; src_agrees_with_model: same raised flag, defaults and close/join events as Model.exec)",
 "C18": "the LOOP of SMCSampler.sample statement by statement (the body of `while True:`, the nested maybe_checkpoint, the `if run_smc_loop:` / break skeleton and the statements after the loop up to the forced checkpoint) over the callee interface Gen.LoopOps (Props/C18Tie: kitOf packages the callees as the model's Kit; one pass = Model.iterate, maybe_checkpoint = Model.maybeCheckpoint, the loop = Model.runLoop, the statements after the loop = Model.finish, the whole call = Model.runFrom, on the image of every model state; src_one_entry_per_iteration and src_history_faithful restate the property for the translated source)",
}
for pid, what in TIE.items():
    c = CLAIMS[pid]
    c["text"] += (" SOURCE TIE BY TRANSLATION: " + what + " are re-translated from /repo's working tree into Lean on every run "
                  "(harness/translate/py2lean.py -> lean/AspireModel/Gen) and Props/" + pid + "Tie.lean proves that the translated source equals the model "
                  "and restates the main theorems for the translated source; if the source changes so that a tie theorem no longer checks, the check "
                  "reports the broken obligation (with a failing input when the search finds one).")
    c["note"] += (" The translator's reading of the Python/array-API subset (element-wise broadcasting, reductions, len, round/min/max, while-with-fuel) is trusted "
                  "and cross-validated by the behavioural correspondence; logging and NaN guards that raise are not part of the translated value.")
    c["technique"] = c["technique"].replace("Lean 4 proof", "Lean 4 proof + source-to-Lean translation with tie theorems (translated source = model)", 1)

props = [json.loads(l) for l in open('/verif/properties.jsonl')]
checks = []
na = []
for p in props:
    pid = p['id']
    if pid in CLAIMS:
        c = CLAIMS[pid]
        checks.append({
            "property_id": pid,
            "quick_cmd": f"./check {pid} --tier quick",
            "thorough_cmd": f"./check {pid} --tier thorough",
            "evidence_file": f"evidence/{pid}.json",
            "replay_cmd_template": f"./check {pid} --replay {{path}}",
            "engine": "lean-model",
            "level_claimed": {"category": c.get("category", "proof"), "text": c["text"], "design_ref": f"DESIGN.md §{pid}"},
            "level_note": c["note"],
            "technique": c["technique"],
        })
    else:
        na.append({"property_id": pid, "reason": c_reason(pid) if False else NOT_YET})
m = json.load(open('/verif/MANIFEST.json'))
m["checks"] = checks
m["not_applicable"] = na
for e in m["engines"]:
    e["serves_properties"] = sorted(CLAIMS)
m["engines"] = [e for e in m["engines"] if e["name"] != "source-translator"] + [{
    "name": "source-translator", "path": "harness/translate/", "serves_properties": sorted(TIE),
    "kind_free_text": "Python (array-API numeric subset) -> Lean 4 translator; regenerates lean/AspireModel/Gen/*.lean from /repo's working tree on every run; "
                      "tie theorems in lean/AspireModel/Props/*Tie.lean; changed sources are recompiled in a scratch directory"}]
json.dump(m, open('/verif/MANIFEST.json', 'w'), indent=1)
print("claimed:", sorted(CLAIMS))
