#!/usr/bin/env python3
"""Regenerate MANIFEST.json from the table below (one entry per claimed property)."""
import json

TB = ("Trusted: Lean 4.33 kernel (axioms propext, Classical.choice, Quot.sound only, audited by #print axioms on every run; "
      "leanchecker re-check in the thorough tier); the hand-written Lean model is tied to /repo's working tree by the "
      "correspondence harness (Python generators, tolerances, line-protocol driver) - the assurance is the weaker of proof and tie. ")

CLAIMS = {
 "C02": dict(
  text="Theorems over the reals for every non-empty sample set (log_w pointwise, logZ = log mean w, ESS = (sum w)^2/sum w^2 in [1,N], "
       "permutation invariance, shift by a constant, stabilised relative error = textbook relative error, rejection rule, and range-safety "
       "of every exp/log argument) about the model of Samples.compute_weights / logsumexp / effective_sample_size / rejection_sample; "
       "the same model runs at Float/Float32 against the implementation in three namespaces and two widths.",
  note=TB + "numpy/torch/jax elementwise exp/log/sum/max are modelled, not verified; floating-point rounding is outside the real-number "
       "theorems except for the range-safety statements (all exp arguments <= 0, log arguments in [1,N]).",
  technique="Lean 4 proof (Mathlib real analysis) + differential correspondence model-vs-implementation + direct oracle"),
 "C16": dict(
  text="Refinement theorems for every sample class, value type, field subset and index list: row j of S[sel] is row sel[j] of S in every "
       "per-sample field including log_w/weights (select_refines), selection carries evidence/temperature and recomputes only the ESS, "
       "slices/masks reduce to index lists, consecutive pieces of a partition concatenate back to the original columns, pickling is the identity "
       "and dict round trips are the identity on sets as their constructor left them; the two known findings are proved as facts about the model. "
       "Random op sequences on the real classes (3 namespaces x 2 widths) are compared with the model and with a plain-array reference.",
  note=TB + "numpy/torch/jax indexing, concatenate and pickle are modelled (gather by index list), not verified; selectors are normalised to "
       "index lists by the harness.",
  technique="Lean 4 proof (refinement to list-of-rows spec) + differential op-sequence correspondence + plain-array oracle"),
}
NOT_YET = "check not built yet (work in progress; see DESIGN.md section 10)"

props = [json.loads(l) for l in open('/verif/properties.jsonl')]
checks = []
na = []
for p in props:
    pid = p['id']
    if pid in CLAIMS:
        c = CLAIMS[pid]
        checks.append({
            "property_id": pid,
            "quick_cmd": f"./check {pid} --tier quick",
            "thorough_cmd": f"./check {pid} --tier thorough",
            "evidence_file": f"evidence/{pid}.json",
            "replay_cmd_template": f"./check {pid} --replay {{path}}",
            "engine": "lean-model",
            "level_claimed": {"category": c.get("category", "proof"), "text": c["text"], "design_ref": f"DESIGN.md §{pid}"},
            "level_note": c["note"],
            "technique": c["technique"],
        })
    else:
        na.append({"property_id": pid, "reason": c_reason(pid) if False else NOT_YET})
m = json.load(open('/verif/MANIFEST.json'))
m["checks"] = checks
m["not_applicable"] = na
for e in m["engines"]:
    e["serves_properties"] = sorted(CLAIMS)
json.dump(m, open('/verif/MANIFEST.json', 'w'), indent=1)
print("claimed:", sorted(CLAIMS))
