#!/usr/bin/env python3
"""Regenerate MANIFEST.json from the table below (one entry per claimed property)."""
import json

TB = ("Trusted: Lean 4.33 kernel (axioms propext, Classical.choice, Quot.sound only, audited by #print axioms on every run; "
      "leanchecker re-check in the thorough tier); the hand-written Lean model is tied to /repo's working tree by the "
      "correspondence harness (Python generators, tolerances, line-protocol driver) - the assurance is the weaker of proof and tie. ")

CLAIMS = {
 "C02": dict(
  text="Theorems over the reals for every non-empty sample set (log_w pointwise, logZ = log mean w, ESS = (sum w)^2/sum w^2 in [1,N], "
       "permutation invariance, shift by a constant, stabilised relative error = textbook relative error, rejection rule, and range-safety "
       "of every exp/log argument) about the model of Samples.compute_weights / logsumexp / effective_sample_size / rejection_sample; "
       "the same model runs at Float/Float32 against the implementation in three namespaces and two widths.",
  note=TB + "numpy/torch/jax elementwise exp/log/sum/max are modelled, not verified; floating-point rounding is outside the real-number "
       "theorems except for the range-safety statements (all exp arguments <= 0, log arguments in [1,N]).",
  technique="Lean 4 proof (Mathlib real analysis) + differential correspondence model-vs-implementation + direct oracle"),
 "C16": dict(
  text="Refinement theorems for every sample class, value type, field subset and index list: row j of S[sel] is row sel[j] of S in every "
       "per-sample field including log_w/weights (select_refines), selection carries evidence/temperature and recomputes only the ESS, "
       "slices/masks reduce to index lists, consecutive pieces of a partition concatenate back to the original columns, pickling is the identity "
       "and dict round trips are the identity on sets as their constructor left them; the two known findings are proved as facts about the model. "
       "Random op sequences on the real classes (3 namespaces x 2 widths) are compared with the model and with a plain-array reference.",
  note=TB + "numpy/torch/jax indexing, concatenate and pickle are modelled (gather by index list), not verified; selectors are normalised to "
       "index lists by the harness.",
  technique="Lean 4 proof (refinement to list-of-rows spec) + differential op-sequence correspondence + plain-array oracle"),
 "C05": dict(
  text="Theorems: the SMC kernel target of the model is (1-b) log q + b (log L + log pi) + log|J| and the MCMC target log L + log pi + log|J| (over the reals); "
       "over a four-kind extended value type (finite, -inf, +inf, nan with IEEE tables) a zero-prior point gives exactly -inf for every b in (0,1] and every "
       "value of the other terms, and the SMC target is never nan. The model runs at Float against log_prob of all five sampler classes in three namespaces.",
  note=TB + "The transform's own inverse/log-Jacobian are taken from the implementation (their exactness is C04); IEEE special-value tables of numpy/torch/jax "
       "are modelled by the XR type; BlackJAXSMC is exercised through log_prob only (blackjax is not installed).",
  technique="Lean 4 proof (real + extended-value case analysis) + differential correspondence on log_prob + formula oracle"),
 "C06": dict(
  text="Theorems for every population (every efficiency function), every tolerance, floor and cap: the adaptive step never raises, strictly increases, stays in (0,1], "
       "advances by at least tol/2 and by the floor, so a run reaches exactly 1 within ceil(2/tol) iterations or stops at the cap; the fixed rule visits k/n and takes "
       "exactly n iterations; the loop model of Model/Smc.lean carries these (runLoop_adaptive, runLoop_fixed). Float facts (pinned accumulation needs n+1 steps for "
       "n=7,10; the new rule is exact) by kernel evaluation. The pinned defects (ZeroDivisionError, stall at beta=0) are proved of the pinned model and were repaired by fix: commits.",
  note=TB + "Real-number theorems; IEEE rounding enters only through the kernel-evaluated Float facts (decide +kernel, no extra axioms) and through the correspondence. "
       "MCMC kernels are test doubles. beta_tolerance below 1 ulp is outside the option space (not exposed by the public samplers).",
  technique="Lean 4 proof (order/arith induction over the schedule) + differential correspondence on determine_beta and whole runs + oracle"),
 "C07": dict(
  text="Theorems: the ESS fraction of the incremental weights is antitone in the trial temperature for every population (log-sum-exp convexity via Hoelder); the bisection "
       "returns a feasible point within tol of the supremum of the feasible set; the full step is taken iff it meets the target in force (ramp = lo+(hi-lo) beta^rate); the returned "
       "temperature differs from the bisection result only by the minimum-step floor (adaptive_step_spec).",
  note=TB + "Real-number theorems about the model of determine_beta/effective_sample_size/log_weights; rounding only through the correspondence (knife-edge decisions are counted and skipped).",
  technique="Lean 4 proof (Mathlib analysis: convexity of log-sum-exp) + differential correspondence on determine_beta + ESS oracle at beta* and beta*+2tol"),
 "C09": dict(
  text="Theorems: the probability vector handed to the generator equals w_i / sum w with w_i = exp((b'-b)(log L+log pi-log q)_i) for every population and temperature pair "
       "(the added evidence ratio and the double normalisation cancel), is positive, sums to one and is invariant under constant shifts; every field of output row j is the "
       "field of source row idx[j] (refinement via C16), with the new temperature and the requested size. The captured p vector and indices of the real resample are compared.",
  note=TB + "numpy Generator.choice is trusted to draw index i with the probability it is handed; fancy indexing is modelled as gather.",
  technique="Lean 4 proof + differential correspondence on captured probability vectors + row-copy oracle"),
}
NOT_YET = "check not built yet (work in progress; see DESIGN.md section 10)"

props = [json.loads(l) for l in open('/verif/properties.jsonl')]
checks = []
na = []
for p in props:
    pid = p['id']
    if pid in CLAIMS:
        c = CLAIMS[pid]
        checks.append({
            "property_id": pid,
            "quick_cmd": f"./check {pid} --tier quick",
            "thorough_cmd": f"./check {pid} --tier thorough",
            "evidence_file": f"evidence/{pid}.json",
            "replay_cmd_template": f"./check {pid} --replay {{path}}",
            "engine": "lean-model",
            "level_claimed": {"category": c.get("category", "proof"), "text": c["text"], "design_ref": f"DESIGN.md §{pid}"},
            "level_note": c["note"],
            "technique": c["technique"],
        })
    else:
        na.append({"property_id": pid, "reason": c_reason(pid) if False else NOT_YET})
m = json.load(open('/verif/MANIFEST.json'))
m["checks"] = checks
m["not_applicable"] = na
for e in m["engines"]:
    e["serves_properties"] = sorted(CLAIMS)
json.dump(m, open('/verif/MANIFEST.json', 'w'), indent=1)
print("claimed:", sorted(CLAIMS))
