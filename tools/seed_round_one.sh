#!/bin/bash
# usage: seed_round_one.sh <round-dir> <id e.g. C05-m7>   - confirm one delivered change of a seeding round and store it under seeded/<id>/
cd /verif
root=$1; id=$2; pid=${id%%-*}; k=${id##*-m}
dir=$root/out_$pid/m$k
[ -f "seeded/$id/meta.json" ] && { echo "$id: already stored"; exit 0; }
[ -f "$dir/patch.diff" ] || { echo "$id: no patch yet"; exit 0; }
needs=$(grep -m1 '^NEEDS:' "$dir/notes.md" 2>/dev/null | sed 's/^NEEDS: *//'); [ -z "$needs" ] && needs="see notes.md"
tests="tests/test_samples.py tests/test_utils.py tests/test_history.py tests/test_transforms.py"
grep -q "flows/" "$dir/patch.diff" && tests="$tests tests/test_flows"
# demos must not depend on the worktree they were written in
sed -i "s#$root/wt_$pid#.#g" "$dir/demo.py"
notes=""; [ -f "$dir/notes.md" ] && notes="--notes $dir/notes.md"
python3 tools/seeded_confirm.py "$id" "$pid" "$dir/patch.diff" "$dir/demo.py" $notes --needs "$needs" --tests "$tests" > /tmp/seedlog_$id.json 2>&1
echo "$id $(python3 -c "import json,sys; d=json.load(open('/tmp/seedlog_$id.json')); print('confirmed=',d.get('confirmed'), 'demo0=',d.get('demo_unchanged_rc'), 'applies=',d.get('patch_applies'), 'demo1=',d.get('demo_changed_rc'), 'base_failed=',len(d.get('baseline_tests_failed',[])), 'ran=',d.get('baseline_tests_run'))" 2>/dev/null || tail -c 300 /tmp/seedlog_$id.json)"
