#!/bin/bash
# confirm every sub-agent change on /repo's HEAD and store it under seeded/
cd /verif
declare -A NEEDS
while IFS='|' read id prop dir needs tests; do
  [ -z "$id" ] && continue
  patch="$dir/patch.diff"; [ -f "seeded/$id/patch.diff" ] && [ "$id" = "C06-m1" -o "$id" = "C02-m1" -o "$id" = "C02-m2" ] && patch="seeded/$id/patch.diff"
  python3 tools/seeded_confirm.py "$id" "$prop" "$patch" "$dir/demo.py" --notes "$dir/notes.md" --needs "$needs" --tests "$tests" > /tmp/seedlog_$id.json 2>&1
  echo "$id $(python3 -c "import json,sys; d=json.load(open('/tmp/seedlog_$id.json')); print(d.get('confirmed'), d.get('demo_unchanged_rc'), d.get('patch_applies'), d.get('demo_changed_rc'), len(d.get('baseline_tests_failed',[])))" 2>/dev/null || tail -c 300 /tmp/seedlog_$id.json)"
done < tools/seed_list.txt
