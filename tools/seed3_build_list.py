#!/usr/bin/env python3
"""build tools/seed3_list.txt from /tmp/mut3/out_*/m[56] (needs text taken from notes.md)"""
import glob, os, re
TESTS = "tests/test_samples.py tests/test_utils.py tests/test_history.py tests/test_transforms.py"
rows = []
for d in sorted(glob.glob('/tmp/mut3/out_C*/m[56]')):
    if not (os.path.exists(d + '/patch.diff') and os.path.exists(d + '/demo.py')):
        continue
    pid = re.search(r'out_(C\d+)', d).group(1); k = d[-1]
    needs = "see notes.md"
    if os.path.exists(d + '/notes.md'):
        txt = open(d + '/notes.md').read()
        m = re.search(r'(?im)^[#*\- ]*(?:\*\*)?(?:what is needed|needed to manifest|trigger|to manifest|manifest|needs)[^\n:]*:?\**\s*(.+(?:\n(?![\n#*-]).+)*)', txt)
        if m:
            needs = re.sub(r'\s+', ' ', m.group(1)).strip().replace('|', '/')[:300]
    patch = open(d + '/patch.diff').read()
    tests = TESTS
    if 'flows/' in patch:
        tests += " tests/test_flows"
    rows.append(f"{pid}-m{k}|{pid}|{d}|{needs}|{tests}")
open('/verif/tools/seed3_list.txt', 'w').write("\n".join(rows) + "\n")
print(len(rows), "entries")
