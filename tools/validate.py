#!/usr/bin/env python3-vt
"""validate MANIFEST.json and evidence/*.json against the schemas in /root/.vp"""
import glob, json, sys
import jsonschema
ok = True
m = json.load(open('/verif/MANIFEST.json'))
jsonschema.validate(m, json.load(open('/root/.vp/MANIFEST.schema.json')))
es = json.load(open('/root/.vp/EVIDENCE.schema.json'))
claimed = {c['property_id'] for c in m['checks']}
na = {c['property_id'] for c in m.get('not_applicable', [])}
props = [json.loads(l)['id'] for l in open('/verif/properties.jsonl')]
for p in props:
    if p not in claimed and p not in na:
        print('UNACCOUNTED', p); ok = False
for f in sorted(glob.glob('/verif/evidence/*.json')):
    try:
        jsonschema.validate(json.load(open(f)), es)
    except Exception as e:
        print('INVALID', f, str(e)[:300]); ok = False
print('manifest ok; claimed', len(claimed), 'n/a', len(na), 'evidence files', len(glob.glob('/verif/evidence/*.json')))
sys.exit(0 if ok else 1)
