#!/usr/bin/env python3
"""Write the prompts for one seeding round: tools/seed_prompts.py <round-dir e.g. /tmp/mut4> <k1> <k2>
Each sub-agent gets ONLY the text of its property and its own scratch worktree <round-dir>/wt_<pid> (create them first with
`git -C /repo worktree add --detach`), plus the kernel stubs copied to <round-dir>/stubs; nothing from /verif."""
import json, glob, sys
root, k1, k2 = sys.argv[1], sys.argv[2], sys.argv[3]
props = {json.loads(l)['id']: json.loads(l) for l in open('/verif/properties.jsonl')}
prev = {}
for m in sorted(glob.glob('/verif/seeded/C*/meta.json')):
    d = json.load(open(m)); prev.setdefault(d['property'], []).append(d['needs_to_manifest'][:300])
TT = '''# Task: seed two realistic defects that break ONE stated property of the `aspire` library

You work ONLY inside your own scratch git worktree of the repository: `{wt}` (a detached checkout of mj-will/aspire,
a Python Bayesian-inference library: normalising-flow proposals, adaptive-tempering SMC, importance sampling, bijective parameter
transforms, HDF5 checkpoint/resume).  Never touch /repo or /verif (do not read /verif either).  Do not commit anything.
NEVER use `git stash` (the stash is shared by all worktrees of the repository and other agents work in parallel): to flip between the
clean and the changed tree use `git -C {wt} diff > file; git -C {wt} checkout -- .; git -C {wt} apply file`.

## The property (id {pid})

**{title}**

{statement}

Quantifier: {quant}

Why the existing tests cannot settle it: {why}

Code anchors: files {files}; mechanisms:
{mech}

## What to deliver

TWO independent changes to the library source (under `{wt}/src/aspire/`), each of which
* BREAKS the property above (genuinely: on some input / option combination / operation sequence the statement is false with the change
  and true without it),
* still imports, and still passes the existing tests that pass on the unchanged tree (run at least the relevant files, e.g.
  `cd {wt} && PYTHONPATH={wt}/src:{root}/stubs SCIPY_ARRAY_API=1 /venv/bin/python -m pytest -q -p no:cacheprovider tests/test_samples.py tests/test_utils.py tests/test_history.py tests/test_transforms.py`
  - pick the files that touch what you changed; tests that already fail on the unchanged tree do not count; run tests/test_samples.py BEFORE tests/test_utils.py),
* looks like something a maintainer could plausibly commit (a refactoring, an "optimisation", a caching shortcut, an off-by-one, a reordered
  statement, a wrong default, a condition that is subtly too wide or too narrow, a robustness "improvement") - not a blatant sabotage,
* and NEEDS SOMETHING SPECIFIC TO MANIFEST: a particular interleaving, a crash/fault at a particular point, a multi-step sequence of
  operations, an unusual input or option combination, a particular size or numeric regime, or two cooperating sites that each look fine
  alone.  Ordinary use (default options, a typical run) must NOT expose it at once.  Prefer changes that a random differential test
  with typical inputs would miss, and prefer the GLUE around the numerical core (option handling and defaults, conversions between
  namespaces and dtypes, resume and reload paths, a second use of the same object, error and interruption paths, rarely used
  keyword arguments, interactions between two features) over the formulas themselves.

Ideas already used in earlier rounds for this property - choose DIFFERENT mechanisms AND different triggers (do not merely vary a constant):
{prev}

For each change `k` in ({k1}, {k2}) write into `{root}/out_{pid}/m<k>/` (create it):
* `patch.diff` - `git -C {wt} diff` of that change ALONE against the unchanged checkout (the two changes must be independent: produce
  the first, save its diff, `git -C {wt} checkout -- .`, then do the second);
* `demo.py` - a small self-contained program, run as `cd {wt} && PYTHONPATH={wt}/src:{root}/stubs SCIPY_ARRAY_API=1 /venv/bin/python {root}/out_{pid}/m<k>/demo.py`,
  that exits 0 on the unchanged tree and exits non-zero (printing what went wrong) with the change applied.  It must check the PROPERTY
  (as stated above), not an implementation detail.  It must NOT hard-code or assert the path of your worktree (it will be re-run from
  another checkout with another PYTHONPATH).  Keep its run time under a minute or two.  Create temporary files only inside a
  `tempfile.TemporaryDirectory()` that is removed at exit.
* `notes.md` - 5-15 lines: what the change is, why it looks plausible, exactly what is needed for it to manifest, which existing tests you ran.
  First line of notes.md: `NEEDS: <one sentence saying what is needed for the defect to manifest>`.

Finish with `git -C {wt} checkout -- .` so the worktree is clean, and verify both demos exit 0 on the clean tree and non-zero with their
patch applied.

## Environment notes

* No network.  Use `/venv/bin/python` (3.12; numpy, scipy, torch, zuko, jax, flowjax, h5py installed; pandas is NOT, so the few
  to_dataframe tests fail on the unchanged tree too).  ALWAYS set `PYTHONPATH={wt}/src:{root}/stubs` so that `import aspire` resolves to
  YOUR worktree (check `aspire.__file__` once by hand), not to /repo.  Also set `SCIPY_ARRAY_API=1`.
* The third-party MCMC kernel packages `minipcn`, `orng`, `emcee`, `blackjax` are NOT installed.  `{root}/stubs` holds minimal stand-ins for
  `minipcn` (`Sampler(log_prob_fn, step_fn, rng, dims, target_acceptance_rate, xp).sample(z, n_steps) -> (chain, history)`), `orng.ArrayRNG`
  and `emcee.EnsembleSampler` (random-walk Metropolis) so that aspire's own `MiniPCNSMC` / `EmceeSMC` / `MiniPCN` code can run.  BlackJAX samplers cannot run.
* Real flows are slow to start (first zuko fit ~8 s, flowjax JIT 4-9 s).  For whole SMC / importance runs you can pass your own analytic
  proposal object (subclass `aspire.flows.base.Flow` with `log_prob`, `sample_and_log_prob`, `sample`, `fit` ...) through
  `Aspire(..., flow=my_flow)` or directly to a sampler class as `prior_flow=`; pass `rng=np.random.default_rng(seed)` to `MiniPCNSMC(...)`.
  Example direct construction: `from aspire.samplers.smc.minipcn import MiniPCNSMC; s = MiniPCNSMC(log_likelihood=L, log_prior=P, dims=d,
  prior_flow=flow, xp=np, parameters=[...], rng=rng, preconditioning_transform=None); out = s.sample(n_samples=..., adaptive=True, ...)`
  where `L(samples)` / `P(samples)` receive a sample-set object with `.x`.  Read the source for details.
* The full test-suite takes many minutes - run the unit-test files (and `tests/integration_tests/test_checkpointing.py` with the stubs if relevant).

Report back (final message): for each change one paragraph - files touched, the trigger, demo result unchanged/changed, tests run.
'''
for pid, p in props.items():
    wt = f'{root}/wt_{pid}'
    mech = '\n'.join(f"  - {m['name']}: {m['where']}" for m in p['anchors'].get('mechanism', []))
    pv = '\n'.join(f'  - {x}' for x in prev.get(pid, [])) or '  (none)'
    open(f'{root}/prompt_{pid}.md', 'w').write(TT.format(wt=wt, root=root, pid=pid, k1=k1, k2=k2, title=p['title'], statement=p['statement'],
        quant=p['quantifier']['text'], why=p['why_tests_cant'], files=', '.join(p['anchors']['files']), mech=mech, prev=pv))
print("prompts written to", root)
