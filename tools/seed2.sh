#!/bin/bash
# confirm the round-2 sub-agent changes listed in tools/seed2_list.txt that are not stored yet, then run the matrix on them
cd /verif
new=""
while IFS='|' read id prop dir needs tests; do
  [ -z "$id" ] && continue
  [ -f "seeded/$id/meta.json" ] && continue
  [ -f "$dir/patch.diff" ] || { echo "$id: no patch yet"; continue; }
  notes=""; [ -f "$dir/notes.md" ] && notes="--notes $dir/notes.md"
  python3 tools/seeded_confirm.py "$id" "$prop" "$dir/patch.diff" "$dir/demo.py" $notes --needs "$needs" --tests "$tests" > /tmp/seedlog_$id.json 2>&1
  echo "$id $(python3 -c "import json,sys; d=json.load(open('/tmp/seedlog_$id.json')); print('confirmed=',d.get('confirmed'), 'demo0=',d.get('demo_unchanged_rc'), 'applies=',d.get('patch_applies'), 'demo1=',d.get('demo_changed_rc'), 'base_failed=',len(d.get('baseline_tests_failed',[])), 'ran=',d.get('baseline_tests_run'))" 2>/dev/null || tail -c 300 /tmp/seedlog_$id.json)"
  [ -f "seeded/$id/meta.json" ] && new="$new $id"
done < tools/seed2_list.txt
echo "NEW:$new"
