/-! Spike: shape of the SMC loop model, checkpoint/resume and history invariant (core Lean only). -/

structure Hist (P R : Type) where
  beta : List R := []
  ess : List R := []
  ratio : List R := []
  pops : List P := []          -- sample_history
deriving Repr

structure St (P R G : Type) where
  pop : P
  beta : R
  iter : Nat
  hist : Hist P R
  rng : G
  minStep : R
  done : Bool := false

/-- everything the code puts into a checkpoint payload -/
structure Ckpt (P R G : Type) where
  pop : P
  beta : R
  iter : Nat
  hist : Hist P R
  rng : G

structure Cfg (P R G : Type) where
  nextBeta : P → R → R → R × R          -- determine_beta: (pop, beta, minStep) ↦ (beta', minStep')
  essAt : P → R → R → R                 -- ESS of incremental weights
  ratioAt : P → R → R → R               -- log evidence ratio
  move : P → R → R → G → P × G          -- resample + mutate (consumes randomness)
  one : R
  isOne : R → Bool
  maxSteps : Option Nat
  minStep0 : R
  every : Nat

variable {P R G : Type}

def step (c : Cfg P R G) (s : St P R G) : St P R G :=
  let it := s.iter + 1
  let (b', ms') := c.nextBeta s.pop s.beta s.minStep
  let e := c.essAt s.pop s.beta b'
  let r := c.ratioAt s.pop s.beta b'
  let (p', g') := c.move s.pop s.beta b' s.rng
  let h : Hist P R := { beta := s.hist.beta ++ [b'], ess := s.hist.ess ++ [e],
                         ratio := s.hist.ratio ++ [r], pops := s.hist.pops ++ [p'] }
  let stop := c.isOne b' || (match c.maxSteps with | some m => decide (it ≥ m) | none => false)
  { pop := p', beta := b', iter := it, hist := h, rng := g', minStep := ms', done := stop }

def run (c : Cfg P R G) : Nat → St P R G → St P R G
  | 0, s => s
  | n+1, s => if s.done then s else run c n (step c s)

def snap (s : St P R G) : Ckpt P R G := ⟨s.pop, s.beta, s.iter, s.hist, s.rng⟩

/-- what the *pinned* code does on resume: re-appends the population, re-initialises minStep -/
def restorePinned (c : Cfg P R G) (k : Ckpt P R G) (isDone : Bool) : St P R G :=
  { pop := k.pop, beta := k.beta, iter := k.iter,
    hist := { k.hist with pops := k.hist.pops ++ [k.pop] },
    rng := k.rng, minStep := c.minStep0, done := isDone }

/-- the repaired resume -/
def restoreFixed (ms : R) (k : Ckpt P R G) (isDone : Bool) : St P R G :=
  { pop := k.pop, beta := k.beta, iter := k.iter, hist := k.hist, rng := k.rng, minStep := ms, done := isDone }

theorem restoreFixed_snap (s : St P R G) : restoreFixed s.minStep (snap s) s.done = s := by
  cases s; rfl

theorem resume_eq_fixed (c : Cfg P R G) (n : Nat) (s : St P R G) :
    run c n (restoreFixed s.minStep (snap s) s.done) = run c n s := by
  rw [restoreFixed_snap]

/-- history invariant -/
def HistInv (s : St P R G) : Prop :=
  s.hist.beta.length = s.iter ∧ s.hist.ess.length = s.iter ∧ s.hist.ratio.length = s.iter ∧
  s.hist.pops.length = s.iter + 1 ∧ s.hist.pops.getLast? = some s.pop

theorem histInv_step (c : Cfg P R G) (s : St P R G) (h : HistInv s) : HistInv (step c s) := by
  obtain ⟨h1, h2, h3, h4, _⟩ := h
  simp [HistInv, step, h1, h2, h3, h4]

theorem histInv_run (c : Cfg P R G) (n : Nat) (s : St P R G) (h : HistInv s) : HistInv (run c n s) := by
  induction n generalizing s with
  | zero => exact h
  | succ n ih =>
    simp only [run]
    split
    · exact h
    · exact ih _ (histInv_step c s h)

/-- the pinned resume breaks the invariant: witness -/
theorem pinned_resume_breaks (c : Cfg P R G) (s : St P R G) (h : HistInv s) :
    ¬ HistInv (restorePinned c (snap s) s.done) := by
  obtain ⟨_, _, _, h4, _⟩ := h
  simp [HistInv, restorePinned, snap, h4]
#print axioms histInv_run
#print axioms pinned_resume_breaks
