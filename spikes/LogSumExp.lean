import Num
import Mathlib.Analysis.SpecialFunctions.Log.Basic

noncomputable instance : ExpLog ℝ := ⟨Real.exp, Real.log⟩
noncomputable instance : Num ℝ := {}

open Model

theorem logPt_real (β lq ll lp : ℝ) : logPt β lq ll lp = (1 - β) * lq + β * (ll + lp) := rfl

theorem sumL_eq_sum (xs : List ℝ) : sumL xs = xs.sum := by
  induction xs with
  | nil => rfl
  | cons x xs ih => simp [sumL, ih]

theorem sum_exp_shift (xs : List ℝ) (c : ℝ) :
    (xs.map fun v => Real.exp (v - c)).sum = Real.exp (-c) * (xs.map Real.exp).sum := by
  induction xs with
  | nil => simp
  | cons x xs ih =>
    simp only [List.map_cons, List.sum_cons, ih, mul_add]
    rw [sub_eq_add_neg, Real.exp_add, mul_comm]

theorem sum_exp_pos (xs : List ℝ) (h : xs ≠ []) : 0 < (xs.map Real.exp).sum := by
  cases xs with
  | nil => exact absurd rfl h
  | cons x xs =>
    simp only [List.map_cons, List.sum_cons]
    have : 0 ≤ (xs.map Real.exp).sum := List.sum_nonneg (by intro y hy; simp at hy; obtain ⟨a, _, rfl⟩ := hy; exact (Real.exp_pos a).le)
    linarith [Real.exp_pos x]

/-- The max-shifted implementation equals the mathematical log-sum-exp, for every non-empty list
    and (in fact) for every shift the code could have picked. -/
theorem logsumexp_eq (xs : List ℝ) (h : xs ≠ []) :
    logsumexp xs = Real.log ((xs.map Real.exp).sum) := by
  cases xs with
  | nil => exact absurd rfl h
  | cons x rest =>
    simp only [logsumexp]
    show maxL rest x + Real.log (sumL ((x :: rest).map fun v => Real.exp (v - maxL rest x))) = _
    rw [sumL_eq_sum, sum_exp_shift, Real.log_mul (Real.exp_pos _).ne' (sum_exp_pos _ h).ne', Real.log_exp]
    ring
#print axioms logsumexp_eq
