-- Feasibility spike: IEEE-double counterexamples are provable by kernel evaluation (Lean 4.33).
-- `accum k b` adds `step` to `b` k times, exactly like `beta += beta_step` in determine_beta.
def accum (step : Float) : Nat → Float → Float
  | 0, b => b
  | k+1, b => accum step k (b + step)

theorem ten_steps_short : (accum (1.0/10.0) 10 0.0 < 1.0) = true := by decide +kernel
theorem seven_steps_short : (accum (1.0/7.0) 7 0.0 < 1.0) = true := by decide +kernel
theorem five_steps_exact : (accum (1.0/5.0) 5 0.0 == 1.0) = true := by decide +kernel
#print axioms ten_steps_short
