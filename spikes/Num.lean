/-- Transcendentals the model needs; everything else comes from the standard operator classes. -/
class ExpLog (α : Type) where
  exp : α → α
  log : α → α

instance : ExpLog Float := ⟨Float.exp, Float.log⟩

/-- The operator bundle used by every numeric model function. -/
class abbrev Num (α : Type) := Add α, Sub α, Mul α, Div α, Neg α, LT α, LE α, Zero α, One α, ExpLog α

namespace Model
variable {α : Type} [Num α] [DecidableLT α]

def maxL : List α → α → α
  | [], m => m
  | x :: xs, m => maxL xs (if m < x then x else m)

def sumL : List α → α
  | [] => 0
  | x :: xs => x + sumL xs

def logsumexp : List α → α
  | [] => 0
  | x :: rest =>
    let c := maxL rest x
    c + ExpLog.log (sumL ((x :: rest).map fun v => ExpLog.exp (v - c)))

def logPt (β lq ll lp : α) : α := (1 - β) * lq + β * (ll + lp)
end Model
